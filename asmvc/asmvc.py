#!/usr/bin/env python3
"""asmvc: contract-based verification of the amd64 assembly routines of bilibili/SMGo.

Input (per run, mechanically): the macro-expanded instruction listing printed by
`go tool asm -S` for the .s files of the working tree, the Go declarations of the assembly
stubs (argument layout), and the memory contracts in /verif/spec/asm_amd64.contracts
(`requires span(p) >= E` = readable elements behind pointer p, `assigns mem(p, E)` = writable).

Per routine it generates and discharges (z3, linear integer arithmetic) the obligations
  mem      every memory operand [addr, addr+width) lies inside a granted region or RODATA symbol
  frame    every store lies inside an assigns region (or the routine's own stack/scratch)
  ct-addr  no address depends on loaded data;  ct-branch  no conditional jump depends on loaded data
           (exceptions must be declared in the contract file: `//@ asm_allow ct-branch <routine> <reason>`)
General-purpose registers are symbolic integers over the entry arguments; vector registers and all
loaded data are abstract secrets (nothing is proved about what the kernels compute).
Loops: back edges are cut with the induction-variable invariant r = r_in + d*k (k >= 0) for every
register changed by a constant d per iteration; other registers written in the loop are havocked;
the increment claim is itself an obligation at the back edge.

Assumptions (reported): pointer/length arithmetic does not wrap (lengths < 2^48); operand-shape table
for vector mnemonics below; masked-off elements of AVX-512 masked moves do not access memory.
"""
import re, sys, os, json, subprocess, time
import z3

PKG = 'github.com/bilibili/smgo/sm4'

# ---------- listing ----------
class Ins:
    __slots__ = ('pc', 'line', 'op', 'args', 'raw')
    def __init__(self, pc, line, op, args, raw):
        self.pc, self.line, self.op, self.args, self.raw = pc, line, op, args, raw

def split_args(s):
    out, depth, cur = [], 0, ''
    for ch in s:
        if ch in '([':
            depth += 1
        elif ch in ')]':
            depth -= 1
        if ch == ',' and depth == 0:
            out.append(cur.strip()); cur = ''
        else:
            cur += ch
    if cur.strip():
        out.append(cur.strip())
    return out

def get_listing(repo, fname, goarch='amd64'):
    env = dict(os.environ, GOARCH=goarch, GOFLAGS='-mod=mod', GOPROXY='off', GOSUMDB='off', GOTOOLCHAIN='local')
    goroot = subprocess.run(['go', 'env', 'GOROOT'], capture_output=True, text=True, env=env).stdout.strip()
    d = os.path.join(repo, 'sm4')
    import tempfile
    with tempfile.TemporaryDirectory() as td:
        r = subprocess.run(['go', 'tool', 'asm', '-S', '-I', goroot + '/pkg/include', '-I', d, '-p', PKG, '-o', td + '/x.o', os.path.join(d, fname)],
                           capture_output=True, text=True, env=env, cwd=d)
    if r.returncode != 0:
        raise RuntimeError('go tool asm failed for %s: %s' % (fname, r.stderr[:500]))
    funcs, cur = {}, None
    for ln in (r.stdout + r.stderr).split('\n'):
        m = re.match(r'^(\S+) STEXT', ln)
        if m:
            cur = m.group(1).split('.')[-1]
            funcs[cur] = []
            continue
        m = re.match(r'^\t0x[0-9a-f]+ (\d+) \(([^)]*)\)\t(\S+)(?:\t(.*))?$', ln)
        if m and cur is not None:
            op = m.group(3)
            if op in ('FUNCDATA', 'PCDATA', 'NOP', 'TEXT'):
                continue
            funcs[cur].append(Ins(int(m.group(1)), m.group(2), op, split_args(m.group(4) or ''), ln.strip()))
    return funcs

# ---------- Go stubs: argument layout ----------
def parse_sig(name, params, ret):
    slots, off = [], 0
    pending = []
    for part in [p.strip() for p in params.split(',') if p.strip()]:
        toks = part.split()
        if len(toks) == 1:
            pending.append(toks[0]); continue
        names = pending + [toks[0]]; pending = []
        typ = ' '.join(toks[1:])
        for n in names:
            if typ.startswith('[]'):
                esz = {'byte': 1, 'uint8': 1, 'uint32': 4, 'uint64': 8, 'int': 8}.get(typ[2:], 1)
                slots.append((n, 'slice', esz, off)); off += 24
            elif typ.startswith('*'):
                esz = {'byte': 1, 'uint8': 1, 'uint32': 4, 'uint64': 8}.get(typ[1:], 1)
                slots.append((n, 'ptr', esz, off)); off += 8
            else:
                slots.append((n, 'int', 8, off)); off += 8
    return {'slots': slots, 'argsize': off, 'ret': ret}

def go_stubs(repo, arch='amd64'):
    stubs = {}
    d = os.path.join(repo, 'sm4')
    for f in os.listdir(d):
        other = 'arm64' if arch == 'amd64' else 'amd64'
        if not f.endswith('.go') or other in f:
            continue
        txt = open(os.path.join(d, f)).read()
        for m in re.finditer(r'^func (\w+)\(([^)]*)\)\s*(\w*)\s*$', txt, re.M):
            stubs[m.group(1)] = parse_sig(m.group(1), m.group(2), m.group(3))
    return stubs

# ---------- contracts ----------
def parse_contracts(path):
    cts, allows, cur = {}, [], None
    extra_stubs = {}
    doms = {}
    copies = {}
    for ln in open(path):
        ln = ln.strip()
        if not ln.startswith('//@'):
            continue
        body = ln[3:].strip()
        if body.startswith('assume func '):
            name = body[len('assume func '):].split()[0]
            cur = cts.setdefault(name.split('.')[-1], {'reads': [], 'writes': [], 'requires': [], 'ensures': []})
        elif body.startswith('asm_stub '):
            m = re.match(r'^asm_stub (\w+)\(([^)]*)\)\s*(\w*)', body)
            if m:
                extra_stubs[m.group(1)] = parse_sig(m.group(1), m.group(2), m.group(3))
        elif body.startswith('asm_copy '):
            f = body.split()
            copies[f[1]] = (f[2], f[3], f[4])
        elif body.startswith('asm_dom '):
            f = body.split()
            doms[f[1]] = f[2]
        elif body.startswith('asm_allow '):
            f = body.split(None, 3)
            allows.append((f[1], f[2], f[3] if len(f) > 3 else ''))
        elif cur is not None and body.startswith('requires'):
            e = body.split(':', 1)[1].strip() if ':' in body else body[len('requires'):].strip()
            cur['requires'].append(e)
        elif cur is not None and body.startswith('ensures'):
            e = body.split(':', 1)[1].strip() if ':' in body else body[len('ensures'):].strip()
            cur['ensures'].append(e)
        elif cur is not None and body.startswith('assigns'):
            for m in re.finditer(r'mem\((\w+),\s*([^()]*(?:\([^()]*\)[^()]*)*)\)', body):
                cur['writes'].append((m.group(1), m.group(2).strip()))
    return cts, allows, extra_stubs, doms, copies

class ExprParser:
    """tiny parser for contract length expressions: ints, names, len(x), + - *, comparisons, &&"""
    def __init__(self, s, syms):
        self.toks = re.findall(r'\d+|[A-Za-z_]\w*|==>|&&|\|\||>=|<=|==|!=|[()<>+\-*,]', s)
        self.i = 0
        self.syms = syms
    def peek(self): return self.toks[self.i] if self.i < len(self.toks) else None
    def next(self):
        t = self.peek(); self.i += 1; return t
    def parse(self):
        return self.impl()
    def impl(self):
        a = self.conj()
        if self.peek() == '==>':
            self.next(); b = self.impl(); return z3.Implies(a, b)
        return a
    def conj(self):
        a = self.cmp()
        while self.peek() in ('&&', '||'):
            t = self.next(); b = self.cmp()
            a = z3.And(a, b) if t == '&&' else z3.Or(a, b)
        return a
    def cmp(self):
        a = self.add()
        t = self.peek()
        if t in ('>=', '<=', '==', '!=', '<', '>'):
            self.next(); b = self.add()
            return {'>=': lambda: a >= b, '<=': lambda: a <= b, '==': lambda: a == b, '!=': lambda: a != b, '<': lambda: a < b, '>': lambda: a > b}[t]()
        return a
    def add(self):
        a = self.mul()
        while self.peek() in ('+', '-'):
            t = self.next(); b = self.mul(); a = a + b if t == '+' else a - b
        return a
    def mul(self):
        a = self.atom()
        while self.peek() == '*':
            self.next(); a = a * self.atom()
        return a
    def atom(self):
        t = self.next()
        if t == '(':
            e = self.impl(); self.next(); return e
        if t.isdigit():
            return z3.IntVal(int(t))
        if t in ('len', 'span', 'cap') and self.peek() == '(':
            self.next(); n = self.next(); self.next()
            return self.syms[t + ':' + n]
        return self.syms['int:' + t]

# ---------- symbolic machine ----------
GPR_AMD64 = ['AX', 'BX', 'CX', 'DX', 'SI', 'DI', 'BP', 'SP', 'R8', 'R9', 'R10', 'R11', 'R12', 'R13', 'R14', 'R15']
GPR_ARM64 = ['R%d' % i for i in range(31)] + ['RSP', 'ZR']
GPR = GPR_AMD64
BCC = {'BLT': 'JLT', 'BLE': 'JLE', 'BGT': 'JGT', 'BGE': 'JGE', 'BEQ': 'JEQ', 'BNE': 'JNE', 'BLO': 'JCS', 'BHS': 'JCC', 'BHI': 'JHI', 'BLS': 'JLS', 'BMI': 'JMI', 'BPL': 'JPL', 'BCC': 'JCS', 'BCS': 'JCC'}
SUB = {'AL': 'AX', 'BL': 'BX', 'CL': 'CX', 'DL': 'DX', 'SIB': 'SI', 'DIB': 'DI', 'R8B': 'R8', 'R9B': 'R9', 'R10B': 'R10', 'R11B': 'R11',
       'R12B': 'R12', 'R13B': 'R13', 'R14B': 'R14', 'R15B': 'R15'}
JCC = {'JLT', 'JLE', 'JGT', 'JGE', 'JEQ', 'JNE', 'JCS', 'JCC', 'JHI', 'JLS', 'JMI', 'JPL'}
WIDTH = {'MOVQ': 8, 'MOVL': 4, 'MOVW': 2, 'MOVB': 1, 'MOVBLZX': 1, 'MOVWLZX': 2, 'MOVLQZX': 4, 'MOVBQZX': 1,
         'ORB': 1, 'XORB': 1, 'ANDB': 1, 'CMPB': 1, 'ORQ': 8, 'XORQ': 8, 'ANDQ': 8, 'ADDQ': 8, 'SUBQ': 8, 'CMPQ': 8, 'ORL': 4, 'XORL': 4,
         'ADDL': 4, 'SUBL': 4, 'CMPL': 4, 'ORW': 2, 'XORW': 2}

class Val:
    __slots__ = ('e', 't', 'ro', 'prov')    # z3 Int expression, taint (bool), address inside a RODATA symbol, (address, width) it was loaded from
    def __init__(self, e, t=False, ro=False, prov=None): self.e, self.t, self.ro, self.prov = e, t, ro, prov

class Result:
    def __init__(self):
        self.obligations = 0; self.discharged = 0; self.failures = []; self.samples = []; self.solver_s = 0.0; self.notes = []
        self.by_kind = {}; self.ret_taint = {}

class Machine:
    def __init__(self, name, ins, stub, ct, allows, rodata, res, timeout_ms=10000, taint_guess=None, arch='amd64', dom_ptr=None, copy=None):
        self.dom_ptr = dom_ptr
        self.copy = copy
        self.arch = arch
        self.GPR = list(GPR_AMD64 if arch == 'amd64' else GPR_ARM64)
        if copy:
            self.GPR.append('GC')     # ghost cursor: number of bytes copied so far
        self.fpadj = 8 if arch == 'amd64' else 0
        self.name, self.ins, self.stub, self.ct, self.allows, self.rodata, self.res = name, ins, stub, ct, allows, rodata, res
        self.idx = {i.pc: k for k, i in enumerate(ins)}
        self.fresh_n = 0
        self.timeout = timeout_ms
        self.syms = {}
        self.regions = []   # (label, base expr, size expr (bytes), writable, rodata)
        self.entry_facts = []
        self.taint_guess = taint_guess if taint_guess is not None else {}   # loop head -> set of regs assumed secret
        self.rerun = False
        self.cache = {}
        self.setup()
        self.solver = z3.Solver(); self.solver.set('timeout', self.timeout)
        self.solver.add(*self.entry_facts)

    def fresh(self, p='u'):
        self.fresh_n += 1
        return z3.Int('%s!%d' % (p, self.fresh_n))

    def setup(self):
        S = self.syms
        self.arg_at = {}
        for (n, kind, esz, off) in self.stub['slots']:
            if kind == 'slice':
                p, l, c = z3.Int('ptr_' + n), z3.Int('len_' + n), z3.Int('cap_' + n)
                self.arg_at[off] = p; self.arg_at[off + 8] = l; self.arg_at[off + 16] = c
                S['len:' + n] = l; S['ptr:' + n] = p; S['cap:' + n] = c
                self.entry_facts += [l >= 0, l <= c, c <= 2 ** 48]
                self.regions.append(('slice ' + n, p, l * esz, False, False))
                S['esz:' + n] = esz
            elif kind == 'ptr':
                p = z3.Int('ptr_' + n)
                self.arg_at[off] = p
                S['ptr:' + n] = p; S['span:' + n] = z3.Int('span_' + n); S['esz:' + n] = esz
                self.entry_facts.append(S['span:' + n] >= 0)
                self.regions.append(('ptr ' + n, p, S['span:' + n] * esz, False, False))
            else:
                v = z3.Int('arg_' + n)
                self.arg_at[off] = v
                S['int:' + n] = v
                self.entry_facts += [v <= 2 ** 48, v >= -(2 ** 48)]
        self.retoff = self.stub['argsize']
        if self.ct:
            for r in self.ct['requires']:
                try:
                    self.entry_facts.append(ExprParser(r, S).parse())
                except Exception as ex:
                    self.res.notes.append('%s: requires clause not understood: %s (%r)' % (self.name, r, ex))
            for (p, e) in self.ct['writes']:
                try:
                    n = ExprParser(e, S).parse()
                    self.regions.append(('assigns ' + p, S['ptr:' + p], n * S['esz:' + p], True, False))
                except Exception as ex:
                    self.res.notes.append('%s: assigns clause not understood: mem(%s,%s) (%r)' % (self.name, p, e, ex))
        else:
            self.res.notes.append('%s: no contract: only RODATA and slice arguments are accessible' % self.name)
        for sym, size in self.rodata.items():
            self.regions.append(('rodata ' + sym, z3.Int('sym_' + sym), z3.IntVal(size), False, True))

    # ----- operands -----
    def reg(self, st, r):
        return st['regs'][SUB.get(r, r)]

    def parse_mem(self, st, a):
        m = re.match(r'^(\w+)(?:\+(\d+))?\(FP\)$', a)
        if m:
            return ('fp', int(m.group(2) or 0) - self.fpadj)
        m = re.match(r'^(?:[\w./]*\.)?(\w+)<>(?:\+(\d+))?\(SB\)$', a)
        if m:
            return ('mem', Val(z3.Int('sym_' + m.group(1)) + int(m.group(2) or 0), False, True))
        m = re.match(r'^(-?\d+)?\((\w+)\)(?:\((\w+)\*(\d)\))?$', a)
        if m:
            disp = int(m.group(1) or 0)
            b = self.reg(st, m.group(2))
            e, t, ro = (b.e + disp if disp else b.e), b.t, b.ro
            if m.group(3):
                ix = self.reg(st, m.group(3))
                e = e + ix.e * int(m.group(4)); t = t or ix.t
            return ('mem', Val(e, t, ro))
        return None

    def is_reg(self, a): return a in self.GPR or (self.arch == 'amd64' and a in SUB)
    def is_vec(self, a): return re.match(r'^[XYZ]\d+$', a) is not None
    def is_k(self, a): return re.match(r'^K\d$', a) is not None

    # ----- obligations -----
    def check(self, st, kind, ins, goal, what):
        if self.quiet:
            return True
        key = (kind, ins.pc, goal.get_id(), tuple(f.get_id() for f in st['pc']))
        if key in self.cache:
            return self.cache[key]
        self.res.obligations += 1
        s = self.solver
        s.push()
        s.add(*st['pc']); s.add(z3.Not(goal))
        t0 = time.time(); r = s.check(); self.res.solver_s += time.time() - t0
        ok = (r == z3.unsat)
        model = ''
        if r == z3.sat:
            m = s.model()
            model = ', '.join(sorted('%s=%s' % (d.name(), m[d]) for d in m.decls() if '!' not in d.name()))[:400]
        s.pop()
        self.cache[key] = ok
        if ok:
            self.res.discharged += 1
            self.res.by_kind[kind] = self.res.by_kind.get(kind, 0) + 1
            if len(self.res.samples) < 6 and not any(x['obligation'].startswith(self.name + '/' + kind) for x in self.res.samples):
                self.res.samples.append({'obligation': '%s/%s@%s' % (self.name, kind, ins.line), 'instruction': ins.raw[:100]})
            return True
        self.res.failures.append({'routine': self.name, 'kind': kind, 'at': ins.line, 'pc': ins.pc, 'instruction': ins.raw[:120],
                                  'what': what, 'verdict': 'refuted' if r == z3.sat else str(r), 'model': model})
        return False

    def taint_ok(self, kind, ins):
        # an obligation decided by the taint dataflow alone (no solver query): the operand is public
        if self.quiet:
            return
        key = (kind, ins.pc)
        if key in self.cache:
            return
        self.cache[key] = True
        self.res.obligations += 1; self.res.discharged += 1
        self.res.by_kind[kind] = self.res.by_kind.get(kind, 0) + 1
        if not any(x['obligation'].startswith(self.name + '/' + kind) for x in self.res.samples) and len(self.res.samples) < 8:
            self.res.samples.append({'obligation': '%s/%s@%s' % (self.name, kind, ins.line), 'instruction': ins.raw[:100]})

    def find_verdict(self):
        """the verdict branch: the unique conditional jump whose taken side only stores an immediate to the result slot and returns"""
        cands = []
        for k, i in enumerate(self.ins):
            if i.op in JCC and i.args and i.args[0].isdigit() and int(i.args[0]) in self.idx:
                t = self.idx[int(i.args[0])]
                ok, seen_store = True, False
                while t < len(self.ins):
                    j = self.ins[t]
                    if j.op == 'RET':
                        break
                    if j.op.startswith('MOV') and len(j.args) == 2 and re.match(r'^\$-?\d+$', j.args[0]) and j.args[1].endswith('(FP)'):
                        seen_store = True; t += 1; continue
                    ok = False; break
                if ok and seen_store and t < len(self.ins):
                    cands.append(k)
        self.verdict = cands[0] if len(cands) == 1 else None
        self.pre_verdict = None
        if self.verdict is not None:
            # instructions reachable from the entry without taking the fall-through (match) edge of the verdict branch
            seen, work = set(), [0]
            while work:
                k = work.pop()
                if k in seen or k >= len(self.ins):
                    continue
                seen.add(k)
                i = self.ins[k]
                if i.op == 'RET':
                    continue
                if i.op == 'JMP':
                    work.append(self.idx[int(i.args[0])]); continue
                if i.op in JCC:
                    work.append(self.idx[int(i.args[0])])
                    if k != self.verdict:
                        work.append(k + 1)
                    continue
                work.append(k + 1)
            self.pre_verdict = seen

    def allowed(self, kind, ins=None):
        for (k, f, why) in self.allows:
            if k == kind and f == self.name and why.split()[:1] == ['verdict']:
                return self.verdict is not None and ins is not None and self.idx.get(ins.pc) == self.verdict
        return False

    def access(self, st, ins, addr, width, store):
        if addr.t:
            self.check(st, 'ct-addr', ins, z3.BoolVal(False), 'address depends on loaded (secret) data')
            return
        self.taint_ok('ct-addr', ins)
        def inside(writable_only):
            alts = []
            for (label, base, size, writable, ro) in self.regions:
                if writable_only and not writable:
                    continue
                if addr.ro != ro:
                    continue
                alts.append(z3.And(base <= addr.e, addr.e + width <= base + size))
            return z3.Or(*alts) if alts else z3.BoolVal(False)
        self.check(st, 'mem', ins, inside(False), '%s of %d bytes is not inside the memory the contract grants' % ('store' if store else 'load', width))
        if store:
            self.check(st, 'frame', ins, inside(True), 'store of %d bytes is not inside the assigns regions of the contract' % width)
            if self.dom_ptr and self.pre_verdict is not None and self.idx.get(ins.pc) in self.pre_verdict:
                alts = [z3.And(base <= addr.e, addr.e + width <= base + size) for (label, base, size, writable, ro) in self.regions
                        if writable and label != 'assigns ' + self.dom_ptr]
                self.check(st, 'dom', ins, z3.Or(*alts) if alts else z3.BoolVal(False),
                           'store that may reach %s is not dominated by the tag-match side of the verdict branch' % self.dom_ptr)
        if store and self.dom_ptr and self.pre_verdict is not None and self.idx.get(ins.pc) not in self.pre_verdict:
            self.taint_ok('dom', ins)

    # ----- execution -----
    def run(self):
        ins = self.ins
        loops = {}
        for k, i in enumerate(ins):
            if (i.op in JCC or i.op in BCC or i.op in ('JMP', 'B', 'CBZ', 'CBNZ', 'TBZ', 'TBNZ')) and i.args and i.args[-1].isdigit():
                t = self.idx.get(int(i.args[-1]))
                if t is not None and t <= k:
                    loops.setdefault(t, []).append(k)
        self.loops = loops
        self.quiet = 0
        self.find_verdict()
        if self.dom_ptr and self.verdict is None:
            self.res.obligations += 1
            self.res.failures.append({'routine': self.name, 'kind': 'dom', 'at': self.ins[0].line, 'pc': 0, 'instruction': '', 'what': 'no unique verdict branch found', 'verdict': 'unknown', 'model': ''})
        init = {'regs': {r: Val(self.fresh('init_' + r)) for r in self.GPR}, 'pc': [], 'flags': None, 'kmask': {}}
        if self.copy:
            init['regs']['GC'] = Val(z3.IntVal(0))
        self.loop_entry = {}
        self.sweep({0: [init]}, 0, len(ins) - 1, None)
        return self.res

    def sweep(self, incoming, lo, hi, inside):
        """one pass in program order over instructions lo..hi; `inside` is the head of the loop whose body is being explored
        (its back-edge states are returned instead of being checked)"""
        ins = self.ins
        backs_seen = []
        for k in range(lo, hi + 1):
            sts = incoming.pop(k, [])
            if not sts:
                continue
            st = self.merge(sts)
            if k in self.loops and k != inside:
                st = self.enter_loop(st, k, self.loops[k])
                self.loop_entry[k] = st
            outs = self.step(st, ins[k], k)
            for (tk, s2) in outs:
                if tk is None:
                    continue
                if tk <= k:
                    if tk == inside:
                        backs_seen.append(s2)
                    else:
                        self.check_back_edge(s2, tk, ins[k])
                    continue
                if tk > hi:
                    continue
                incoming.setdefault(tk, []).append(s2)
        return backs_seen

    def merge(self, sts):
        if len(sts) == 1:
            return sts[0]
        pcs = [s['pc'] for s in sts]
        m = min(len(p) for p in pcs)
        c = 0
        while c < m and all(p[c].get_id() == pcs[0][c].get_id() for p in pcs):
            c += 1
        rests = [z3.And(*p[c:]) if len(p) > c else z3.BoolVal(True) for p in pcs]
        pc = list(pcs[0][:c])
        if not any(z3.is_true(r) for r in rests):
            pc.append(z3.Or(*rests))
        regs = {}
        for r in self.GPR:
            v = sts[-1]['regs'][r]
            e, t, ro = v.e, v.t, v.ro
            for s, cnd in zip(reversed(sts[:-1]), reversed(rests[:-1])):
                w = s['regs'][r]
                if w.e.get_id() != e.get_id():
                    e = z3.If(cnd, w.e, e)
                t = t or w.t
                ro = ro and w.ro
            regs[r] = Val(e, t, ro)
        km = {}
        for kreg in sts[0]['kmask']:
            if all(kreg in s['kmask'] and s['kmask'][kreg] == sts[0]['kmask'][kreg] for s in sts):
                km[kreg] = sts[0]['kmask'][kreg]
        return {'regs': regs, 'pc': pc, 'flags': None, 'kmask': km}

    def written_regs(self, a, b):
        """registers written by instructions a..b (inclusive): constant increments per iteration, or havoc"""
        inner = set()
        for h, bs in self.loops.items():
            for bk in bs:
                if a <= h and bk <= b and not (h == a):
                    inner.update(range(h, bk + 1))
        delta, havoc = {}, set()
        for k in range(a, b + 1):
            i = self.ins[k]
            if not i.args:
                continue
            base = i.op.split('.')[0]
            dst = i.args[-1]
            if self.arch == 'arm64':
                self.written_arm64(i, k, inner, delta, havoc)
                continue
            if base in ('CMPQ', 'CMPL', 'CMPB', 'CMPW', 'TESTQ') or base in JCC or base == 'JMP':
                continue
            if base.startswith('K'):
                continue
            if self.copy and base in ('MOVQ', 'MOVL', 'MOVW', 'MOVB') and '(' in dst and not dst.endswith('(FP)'):
                if k in inner:
                    havoc.add('GC')
                else:
                    delta['GC'] = delta.get('GC', 0) + WIDTH[base]
                continue
            if self.is_reg(dst):
                r = SUB.get(dst, dst)
                c = None
                if base in ('ADDQ', 'SUBQ') and re.match(r'^\$-?\d+$', i.args[0]) and dst in self.GPR:
                    c = int(i.args[0][1:]) * (1 if base == 'ADDQ' else -1)
                elif base == 'LEAQ' and re.match(r'^-?\d+\(%s\)$' % dst, i.args[0]):
                    c = int(i.args[0].split('(')[0])
                elif base in ('INCQ', 'DECQ'):
                    c = 1 if base == 'INCQ' else -1
                if c is not None and k not in inner:
                    delta[r] = delta.get(r, 0) + c
                else:
                    havoc.add(r)
        for r in list(delta):
            if r in havoc:
                del delta[r]
        return delta, havoc

    def back_cond(self, backs):
        """the continuation condition of a loop with a single conditional back edge, as a predicate over a register file"""
        if len(backs) != 1:
            return None
        j = self.ins[backs[0]]
        if j.op not in JCC:
            return None
        # flag setter: nearest preceding CMPQ / ADDQ / SUBQ with no label in between is not tracked; we re-verify the claim at the back edge
        k = backs[0] - 1
        while k >= 0:
            p = self.ins[k]
            base = p.op.split('.')[0]
            if base in ('CMPQ',) or base in ('ADDQ', 'SUBQ', 'DECQ', 'INCQ', 'ANDQ', 'ORQ', 'XORQ', 'SHRQ', 'SHLQ', 'TESTQ'):
                break
            if base in JCC or base == 'JMP' or base == 'RET':
                return None
            k -= 1
        if k < 0:
            return None
        p = self.ins[k]
        base = p.op.split('.')[0]
        def operand(a):
            if re.match(r'^\$-?\d+$', a):
                c = int(a[1:]); return lambda regs: z3.IntVal(c)
            if a in self.GPR:
                return lambda regs: regs[a].e
            return None
        if base == 'CMPQ':
            x, y = operand(p.args[0]), operand(p.args[1])
            if x is None or y is None:
                return None
            f = {'JLT': lambda a, b: a < b, 'JLE': lambda a, b: a <= b, 'JGT': lambda a, b: a > b, 'JGE': lambda a, b: a >= b,
                 'JEQ': lambda a, b: a == b, 'JNE': lambda a, b: a != b, 'JCS': lambda a, b: a < b, 'JCC': lambda a, b: a >= b,
                 'JHI': lambda a, b: a > b, 'JLS': lambda a, b: a <= b}.get(j.op)
            if f is None:
                return None
            return lambda regs: f(x(regs), y(regs))
        if base in ('ADDQ', 'SUBQ', 'DECQ', 'INCQ') and p.args[-1] in self.GPR:
            d = p.args[-1]
            f = {'JEQ': lambda a: a == 0, 'JNE': lambda a: a != 0, 'JLT': lambda a: a < 0, 'JGE': lambda a: a >= 0,
                 'JGT': lambda a: a > 0, 'JLE': lambda a: a <= 0, 'JMI': lambda a: a < 0, 'JPL': lambda a: a >= 0}.get(j.op)
            if f is None:
                return None
            return lambda regs: f(regs[d].e)
        return None

    def head_state(self, st, head, backs, k, extra):
        back = max(backs)
        delta, havoc = self.written_regs(head, back)
        regs = dict(st['regs'])
        guess = self.taint_guess.setdefault(head, set())
        for r, d in delta.items():
            v = st['regs'][r]
            regs[r] = Val(v.e + d * k, v.t or (r in guess), v.ro)
        for r in havoc:
            regs[r] = Val(z3.Int('h_%s!%d' % (r, head)), st['regs'][r].t or (r in guess), False)
        pc = st['pc'] + [k >= 0] + extra
        return {'regs': regs, 'pc': pc, 'flags': None, 'kmask': dict(st['kmask']), 'loop': (head, back, delta, havoc, k, st)}

    def enter_loop(self, st, head, backs):
        """cut the loop at its head with the invariant: r = r_in + d*k for every register changed by a constant d per iteration,
        and (k == 0 or the path condition of iteration k-1), the latter discovered by a silent exploration of the body"""
        k = self.fresh('k')
        weak = self.head_state(st, head, backs, k, [])
        self.quiet += 1
        saved_entry = dict(self.loop_entry)
        self.loop_entry[head] = weak
        back_states = self.sweep({head: [weak]}, head, max(backs), head)
        self.loop_entry = saved_entry
        self.quiet -= 1
        allowed = set()
        def consts(e, acc, seen):
            if e.get_id() in seen:
                return
            seen.add(e.get_id())
            if z3.is_const(e) and e.decl().kind() == z3.Z3_OP_UNINTERPRETED:
                acc.add(e.decl().name())
            for c in e.children():
                consts(c, acc, seen)
        seen = set()
        for f in weak['pc'] + self.entry_facts:
            consts(f, allowed, seen)
        for r in self.GPR:
            consts(st['regs'][r].e, allowed, seen)
        allowed.add(k.decl().name())
        n0 = len(weak['pc'])
        alts = []
        for bs in back_states:
            keep = []
            for f in bs['pc'][n0:]:
                acc = set(); consts(f, acc, set())
                if acc <= allowed:
                    keep.append(f)
            alts.append(z3.And(*keep) if keep else z3.BoolVal(True))
        extra = []
        if alts and not any(z3.is_true(a) for a in alts):
            P = z3.Or(*alts) if len(alts) > 1 else alts[0]
            extra = [z3.Or(k == 0, z3.substitute(P, (k, k - 1)))]
        return self.head_state(st, head, backs, k, extra)

    def check_back_edge(self, st, head_k, ins):
        entry = self.loop_entry.get(head_k)
        if entry is None or 'loop' not in entry:
            self.res.notes.append('%s: back edge to %d without loop entry' % (self.name, head_k)); return
        head, back, delta, havoc, k, pre = entry['loop']
        for r, d in delta.items():
            goal = st['regs'][r].e == pre['regs'][r].e + d * (k + 1)
            self.check(st, 'loop-inc', ins, goal, 'register %s does not change by the constant %d on every path through the loop' % (r, d))
        for r in self.GPR:
            if st['regs'][r].t and not entry['regs'][r].t:
                self.taint_guess[head].add(r); self.rerun = True
        for kreg, v in entry['kmask'].items():
            if st['kmask'].get(kreg) != v:
                self.res.notes.append('%s: mask register %s changes in a loop' % (self.name, kreg))
                self.check(st, 'unmodelled', ins, z3.BoolVal(False), 'mask register changes inside a loop')

    def cond(self, st, op):
        f = st['flags']
        if f is None:
            return None, False
        kind, a, b, t = f
        if kind == 'cmp':
            c = {'JLT': a < b, 'JLE': a <= b, 'JGT': a > b, 'JGE': a >= b, 'JEQ': a == b, 'JNE': a != b,
                 'JCS': a < b, 'JCC': a >= b, 'JHI': a > b, 'JLS': a <= b}.get(op)
        else:
            c = {'JEQ': a == 0, 'JNE': a != 0, 'JLT': a < 0, 'JGE': a >= 0, 'JGT': a > 0, 'JLE': a <= 0, 'JMI': a < 0, 'JPL': a >= 0}.get(op)
        return c, t

    def src_val(self, st, ins, a, width):
        if a.startswith('$'):
            m = re.match(r'^\$(-?\d+)$', a)
            if m:
                return Val(z3.IntVal(int(m.group(1))))
            m = re.match(r'^\$(?:[\w./]*\.)?(\w+)<>(?:\+(\d+))?\(SB\)$', a)
            if m:
                return Val(z3.Int('sym_' + m.group(1)) + int(m.group(2) or 0), False, True)
            return Val(self.fresh())
        if self.is_reg(a):
            v = self.reg(st, a)
            if (a in SUB or width < 8) and not z3.is_int_value(v.e):
                return Val(self.fresh('sub'), v.t)
            return v
        if self.is_vec(a) or self.is_k(a):
            return Val(self.fresh('vec'), True)
        pm = self.parse_mem(st, a)
        if pm is None:
            self.unmodelled(ins, 'operand ' + a)
            return Val(self.fresh(), True)
        if pm[0] == 'fp':
            off = pm[1]
            if off in self.arg_at:
                return Val(self.arg_at[off])
            return Val(self.fresh('fp'))
        addr = pm[1]
        self.access(st, ins, addr, width, False)
        return Val(self.fresh('ld'), not addr.ro)     # data loaded from RODATA is public, everything else secret

    def unmodelled(self, i, why):
        if self.quiet:
            return
        self.res.obligations += 1
        self.res.notes.append('%s: not modelled (%s): %s' % (self.name, why, i.raw[:80]))
        self.res.failures.append({'routine': self.name, 'kind': 'unmodelled', 'at': i.line, 'pc': i.pc, 'instruction': i.raw[:120],
                                  'what': 'outside the modelled subset: ' + why, 'verdict': 'unknown', 'model': ''})

    def step(self, st, i, k):
        if self.arch == 'arm64':
            return self.step_arm64(st, i, k)
        op, a = i.op, i.args
        nxt = k + 1 if k + 1 < len(self.ins) else None
        regs = st['regs']
        def setreg(r, v, facts=()):
            nr = dict(regs); nr[SUB.get(r, r)] = v
            ns = dict(st); ns['regs'] = nr
            if facts:
                ns['pc'] = st['pc'] + list(facts)
            return ns
        base = op.split('.')[0]
        if op == 'RET':
            if self.copy:
                self.check(st, 'copy', i, regs['GC'].e == self.syms['int:' + self.copy[2]], 'the routine returns before exactly %s bytes have been copied' % self.copy[2])
            return []
        if op == 'JMP':
            return [(self.idx[int(a[0])], st)]
        if op in JCC:
            c, t = self.cond(st, op)
            if t and not self.allowed('ct-branch', i):
                self.check(st, 'ct-branch', i, z3.BoolVal(False), 'conditional jump depends on loaded (secret) data')
            elif not t:
                self.taint_ok('ct-branch', i)
            tgt = self.idx[int(a[0])]
            s1 = dict(st); s2 = dict(st)
            if c is None:
                self.fresh_n += 1
                c = z3.Bool('br!%d' % self.fresh_n)
            s1['pc'] = st['pc'] + [c]; s2['pc'] = st['pc'] + [z3.Not(c)]
            return [(tgt, s1), (nxt, s2)]
        if base in ('CMPQ', 'CMPL', 'CMPW', 'CMPB'):
            w = WIDTH[base]
            x = self.src_val(st, i, a[0], w); y = self.src_val(st, i, a[1], w)
            ns = dict(st); ns['flags'] = ('cmp', x.e, y.e, x.t or y.t)
            return [(nxt, ns)]
        if base in ('MOVQ', 'MOVL', 'MOVW', 'MOVB', 'MOVBLZX', 'MOVWLZX', 'MOVLQZX', 'MOVBQZX'):
            w = WIDTH[base]
            src, dst = a[0], a[1]
            if self.is_reg(dst):
                v = self.src_val(st, i, src, w)
                pmem = self.parse_mem(st, src) if ('(' in src and not src.startswith('$')) else None
                prov = (pmem[1].e, w) if (pmem and pmem[0] == 'mem') else None
                if w < 8 and not z3.is_int_value(v.e):
                    nv = self.fresh('z')
                    return [(nxt, setreg(dst, Val(nv, v.t, False, prov), [nv >= 0, nv < 2 ** (8 * w)]))]
                if prov:
                    v = Val(v.e, v.t, v.ro, prov)
                return [(nxt, setreg(dst, v))]
            if self.is_vec(dst) or self.is_k(dst):
                self.src_val(st, i, src, w)
                return [(nxt, st)]
            pm = self.parse_mem(st, dst)
            if pm and pm[0] == 'fp':
                v = self.src_val(st, i, src, w)
                self.res.ret_taint[self.name] = self.res.ret_taint.get(self.name, False) or v.t
                for en in (self.ct['ensures'] if self.ct else []):
                    if 'result' not in en or 'forall' in en or 'mem(' in en:
                        continue
                    try:
                        goal = ExprParser(en, dict(self.syms, **{'int:result': v.e})).parse()
                    except Exception as ex:
                        self.res.notes.append('%s: ensures clause not understood: %s' % (self.name, en)); continue
                    self.check(st, 'result', i, goal, 'returned value violates: ' + en)
                if self.dom_ptr and self.pre_verdict is not None:
                    if k in self.pre_verdict:
                        self.check(st, 'dom', i, v.e == 0, 'a result other than 0 is stored on a path that does not pass the tag-match side of the verdict branch')
                    else:
                        self.taint_ok('dom', i)
                return [(nxt, st)]      # result slot
            if pm:
                self.src_val(st, i, src, w)
                self.access(st, i, pm[1], w, True)
                if self.copy:
                    gc = regs['GC'].e
                    pv = self.reg(st, src).prov if self.is_reg(src) else None
                    if pv is None:
                        self.check(st, 'copy', i, z3.BoolVal(False), 'stored value was not loaded from the source buffer')
                    else:
                        goal = z3.And(pm[1].e == self.syms['ptr:' + self.copy[0]] + gc, pv[0] == self.syms['ptr:' + self.copy[1]] + gc, z3.BoolVal(pv[1] == w))
                        self.check(st, 'copy', i, goal, 'store is not the next %d bytes of the copy (destination offset = source offset = bytes copied so far)' % w)
                    return [(nxt, setreg('GC', Val(gc + w)))]
                return [(nxt, st)]
        if base in ('ADDQ', 'SUBQ'):
            src, dst = a[0], a[1]
            if self.is_reg(dst):
                x = self.src_val(st, i, src, 8); y = self.reg(st, dst)
                e = y.e + x.e if base.startswith('ADD') else y.e - x.e
                ro = (y.ro and not x.ro) or (x.ro and not y.ro and base == 'ADDQ')
                ns = setreg(dst, Val(e, x.t or y.t, ro)); ns['flags'] = ('res', e, None, x.t or y.t)
                return [(nxt, ns)]
        if base == 'LEAQ':
            src, dst = a[0], a[1]
            pm = self.parse_mem(st, src)
            if pm and pm[0] == 'mem':
                return [(nxt, setreg(dst, pm[1]))]
        if base in ('SHRQ', 'SHLQ') and self.is_reg(a[1]) and re.match(r'^\$\d+$', a[0]):
            c = int(a[0][1:]); y = self.reg(st, a[1])
            if base == 'SHLQ':
                e = y.e * (2 ** c)
                ns = setreg(a[1], Val(e, y.t))
            else:
                q = self.fresh('q')
                e = q
                ns = setreg(a[1], Val(q, y.t), [z3.Implies(y.e >= 0, z3.And(q * (2 ** c) <= y.e, y.e < (q + 1) * (2 ** c), q >= 0))])
            ns['flags'] = ('res', e, None, y.t)
            return [(nxt, ns)]
        if base == 'ANDQ' and self.is_reg(a[1]) and re.match(r'^\$-?\d+$', a[0]):
            c = int(a[0][1:]); y = self.reg(st, a[1])
            r = self.fresh('and')
            if c >= 0 and (c & (c + 1)) == 0:          # mask 2^k-1: remainder
                q = self.fresh('q')
                f = z3.Implies(y.e >= 0, z3.And(y.e == q * (c + 1) + r, r >= 0, r <= c, q >= 0))
            elif c < 0 and ((-c) & (-c - 1)) == 0:      # mask -2^k: round down
                m = -c; q = self.fresh('q')
                f = z3.Implies(y.e >= 0, z3.And(r == q * m, r <= y.e, y.e < r + m, q >= 0))
            else:
                f = z3.Implies(y.e >= 0, z3.And(r >= 0, r <= y.e))
            ns = setreg(a[1], Val(r, y.t), [f])
            ns['flags'] = ('res', r, None, y.t)
            return [(nxt, ns)]
        if base in ('XORQ', 'XORL') and len(a) == 2 and a[0] == a[1] and self.is_reg(a[1]):
            ns = setreg(a[1], Val(z3.IntVal(0))); ns['flags'] = ('res', z3.IntVal(0), None, False)
            return [(nxt, ns)]
        if base in ('ORQ', 'ORB', 'ORL', 'ORW', 'XORQ', 'XORB', 'XORL', 'XORW', 'ANDQ', 'ANDB', 'ANDL', 'NOTQ', 'NEGQ', 'IMULQ', 'DECQ', 'INCQ', 'TESTQ'):
            w = WIDTH.get(base, 8)
            dst = a[-1]
            t = False
            for s in a[:-1]:
                t = self.src_val(st, i, s, w).t or t
            if self.is_reg(dst):
                y = self.reg(st, dst)
                if base in ('INCQ', 'DECQ'):
                    e = y.e + (1 if base == 'INCQ' else -1)
                    ns = setreg(dst, Val(e, y.t)); ns['flags'] = ('res', e, None, y.t)
                    return [(nxt, ns)]
                r = self.fresh('alu')
                ns = setreg(dst, Val(r, t or y.t)) if base != 'TESTQ' else dict(st)
                ns['flags'] = ('res', r, None, t or y.t)
                return [(nxt, ns)]
            pm = self.parse_mem(st, dst)
            if pm and pm[0] == 'mem':
                self.access(st, i, pm[1], w, False)      # read-modify-write on memory
                self.access(st, i, pm[1], w, True)
                ns = dict(st); ns['flags'] = ('res', self.fresh('alu'), None, True)
                return [(nxt, ns)]
        if base in ('KMOVW', 'KMOVQ', 'KMOVB', 'KMOVD'):
            ns = dict(st); km = dict(st['kmask'])
            if self.is_reg(a[0]) and self.is_k(a[1]):
                sv = z3.simplify(self.reg(st, a[0]).e)
                km[a[1]] = sv.as_long() if z3.is_int_value(sv) else None
                ns['kmask'] = km
                return [(nxt, ns)]
        if base.startswith('V') or base in ('PSLLO', 'PSRLO', 'PXOR', 'PSHUFB', 'MOVOU', 'MOVO', 'MOVUPS', 'MOVAPS'):
            return [(nxt, self.vector(st, i))]
        self.unmodelled(i, 'instruction')
        return [(nxt, st)]

    def vector(self, st, i):
        op, a = i.op, i.args
        base = op.split('.')[0]
        if base in ('VPTEST', 'PTEST', 'VPTESTMD', 'VPCMPEQD') or base.startswith('KORTEST') or base.startswith('KTEST') or base.startswith('VCOMIS') or base.startswith('VUCOMIS'):
            st = dict(st); st['flags'] = ('res', self.fresh('vf'), None, True)
        for x in a:
            if self.is_k(x) and x == a[-1]:
                self.unmodelled(i, 'mask register written by a vector instruction')
        mems = [(k, x) for k, x in enumerate(a) if '(' in x and not x.startswith('$')]
        if not mems:
            if a and self.is_reg(a[-1]):     # a GPR written from a vector register becomes secret
                nr = dict(st['regs']); nr[SUB.get(a[-1], a[-1])] = Val(self.fresh('vx'), True)
                ns = dict(st); ns['regs'] = nr
                return ns
            return st
        (k, m) = mems[0]
        pm = self.parse_mem(st, m)
        if pm is None or pm[0] != 'mem':
            self.unmodelled(i, 'vector memory operand ' + m)
            return st
        store = (k == len(a) - 1)
        vecs = [x for x in a if self.is_vec(x)]
        vw = {'X': 16, 'Y': 32, 'Z': 64}[vecs[0][0]] if vecs else 16
        if base in ('VPBROADCASTD', 'VBROADCASTSS', 'VPBROADCASTB', 'VPBROADCASTW'):
            w = {'VPBROADCASTD': 4, 'VBROADCASTSS': 4, 'VPBROADCASTB': 1, 'VPBROADCASTW': 2}[base]
        elif base in ('VPBROADCASTQ', 'VBROADCASTI32X2', 'VBROADCASTSD'):
            w = 8
        elif base in ('VBROADCASTI32X4', 'VBROADCASTI128', 'VBROADCASTF128', 'VBROADCASTI64X2'):
            w = 16
        elif base in ('VBROADCASTI64X4', 'VBROADCASTI32X8'):
            w = 32
        elif '.BCST' in op:
            w = 8 if base.endswith('Q') else 4
        else:
            w = vw
        if base in ('VPGATHERDD', 'VPGATHERDQ', 'VPGATHERQD', 'VPGATHERQQ', 'VPSCATTERDD', 'VGATHERDPS') or '*' in m and self.is_vec(m.split('(')[-1].split('*')[0]):
            self.check(st, 'ct-addr', i, z3.BoolVal(False), 'gather/scatter: addresses come from a vector register')
            return st
        ks = [x for x in a if self.is_k(x)]
        if ks and base.startswith('VMOVDQU'):
            esz = {'VMOVDQU8': 1, 'VMOVDQU16': 2, 'VMOVDQU32': 4, 'VMOVDQU64': 8}.get(base, 4)
            mv = st['kmask'].get(ks[0])
            if mv is None:
                self.unmodelled(i, 'masked move whose mask is not a known constant')
            else:
                w = min(w, esz * mv.bit_length())
        self.access(st, i, pm[1], w, store)
        return st


    # ----- arm64 -----
    def written_arm64(self, i, k, inner, delta, havoc):
        op, a = i.op, i.args
        base = op.split('.')[0]
        if base in ('CMP', 'CMN', 'TST', 'B', 'JMP', 'RET', 'WORD', 'CBZ', 'CBNZ', 'TBZ', 'TBNZ') or base in BCC:
            return
        def bump(r, c):
            if k in inner:
                havoc.add(r)
            else:
                delta[r] = delta.get(r, 0) + c
        if op.endswith('.P') and base.startswith('V'):
            for x in a:
                m = re.match(r'^(-?\d+)\((R\d+|RSP)\)$', x)
                if m:
                    bump(m.group(2), int(m.group(1)))
            return
        if op.endswith('.W') and base.startswith('V'):
            for x in a:
                m = re.match(r'^(-?\d+)\((R\d+|RSP)\)$', x)
                if m:
                    havoc.add(m.group(2))
            return
        dst = a[-1]
        if dst in self.GPR:
            if base in ('ADD', 'SUB') and re.match(r'^\$-?\d+$', a[0]) and (len(a) == 2 or a[1] == dst):
                bump(dst, int(a[0][1:]) * (1 if base == 'ADD' else -1))
            else:
                havoc.add(dst)

    def arm_mem_width(self, a):
        """bytes transferred by a vector load/store with register list or lane operand a"""
        m = re.match(r'^\[(.*)\]$', a)
        if m:
            regs = [x.strip() for x in m.group(1).split(',')]
            tot = 0
            for r in regs:
                arr = r.split('.')[-1]
                tot += {'B16': 16, 'H8': 16, 'S4': 16, 'D2': 16, 'B8': 8, 'H4': 8, 'S2': 8, 'D1': 8}.get(arr, None) or 10 ** 9
            return tot
        m = re.match(r'^V\d+\.([BHSD])\[\d+\]$', a)
        if m:
            return {'B': 1, 'H': 2, 'S': 4, 'D': 8}[m.group(1)]
        return None

    def step_arm64(self, st, i, k):
        op, a = i.op, i.args
        nxt = k + 1 if k + 1 < len(self.ins) else None
        regs = st['regs']
        base = op.split('.')[0]
        def setreg(r, v, s0=None):
            s0 = s0 or st
            nr = dict(s0['regs']); nr[r] = v
            ns = dict(s0); ns['regs'] = nr
            return ns
        def val(x):
            m = re.match(r'^\$(-?\d+)$', x)
            if m:
                return Val(z3.IntVal(int(m.group(1))))
            m = re.match(r'^\$(?:[\w./]*\.)?(\w+)<>(?:\+(\d+))?\(SB\)$', x)
            if m:
                return Val(z3.Int('sym_' + m.group(1)) + int(m.group(2) or 0), False, True)
            if x in self.GPR:
                return Val(z3.IntVal(0)) if x == 'ZR' else regs[x]
            return None
        if op == 'RET':
            return []
        if op in ('JMP', 'B') and a and a[0].isdigit():
            return [(self.idx[int(a[0])], st)]
        if op in BCC:
            c, t = self.cond(st, BCC[op])
            if t and not self.allowed('ct-branch', i):
                self.check(st, 'ct-branch', i, z3.BoolVal(False), 'conditional branch depends on loaded (secret) data')
            elif not t:
                self.taint_ok('ct-branch', i)
            if c is None:
                self.fresh_n += 1
                c = z3.Bool('br!%d' % self.fresh_n)
            s1 = dict(st); s2 = dict(st)
            s1['pc'] = st['pc'] + [c]; s2['pc'] = st['pc'] + [z3.Not(c)]
            return [(self.idx[int(a[0])], s1), (nxt, s2)]
        if base in ('CBZ', 'CBNZ', 'TBZ', 'TBNZ') and a[-1].isdigit():
            r = val(a[-2])
            if r is not None:
                if r.t and not self.allowed('ct-branch', i):
                    self.check(st, 'ct-branch', i, z3.BoolVal(False), 'conditional branch depends on loaded (secret) data')
                elif not r.t:
                    self.taint_ok('ct-branch', i)
                if base in ('CBZ', 'CBNZ'):
                    c = (r.e == 0) if base == 'CBZ' else (r.e != 0)
                else:
                    self.fresh_n += 1
                    c = z3.Bool('br!%d' % self.fresh_n)
                s1 = dict(st); s2 = dict(st)
                s1['pc'] = st['pc'] + [c]; s2['pc'] = st['pc'] + [z3.Not(c)]
                return [(self.idx[int(a[-1])], s1), (nxt, s2)]
        if base in ('ORR', 'AND', 'EOR', 'BIC', 'ORN', 'EON', 'LSL', 'LSR', 'ASR', 'ROR', 'MUL', 'NEG', 'MVN', 'ANDS', 'UBFX', 'SBFX', 'REV', 'REVW', 'CLZ') and a[-1] in self.GPR:
            t = False
            for x in a[:-1]:
                v = val(x)
                if v is None:
                    t = None; break
                t = t or v.t
            if t is not None:
                if len(a) == 2 and base not in ('NEG', 'MVN', 'REV', 'REVW', 'CLZ'):
                    t = t or regs[a[-1]].t
                ns = setreg(a[-1], Val(self.fresh('alu'), t))
                if base == 'ANDS':
                    ns['flags'] = ('res', ns['regs'][a[-1]].e, None, t)
                return [(nxt, ns)]
        if base == 'CMP' and len(a) == 2:
            x, y = val(a[0]), val(a[1])
            if x is not None and y is not None:
                ns = dict(st); ns['flags'] = ('cmp', y.e, x.e, x.t or y.t)
                return [(nxt, ns)]
        if base in ('ADD', 'SUB', 'ADDS', 'SUBS') and a[-1] in self.GPR:
            x = val(a[0]); y = val(a[1]) if len(a) == 3 else val(a[-1])
            if x is not None and y is not None:
                e = y.e + x.e if base.startswith('ADD') else y.e - x.e
                ro = (y.ro and not x.ro) or (x.ro and not y.ro and base.startswith('ADD'))
                ns = setreg(a[-1], Val(e, x.t or y.t, ro))
                if base.endswith('S'):
                    ns['flags'] = ('res', e, None, x.t or y.t)
                return [(nxt, ns)]
        if base in ('MOVD', 'MOVW', 'MOVWU', 'MOVH', 'MOVHU', 'MOVB', 'MOVBU'):
            w = {'MOVD': 8, 'MOVW': 4, 'MOVWU': 4, 'MOVH': 2, 'MOVHU': 2, 'MOVB': 1, 'MOVBU': 1}[base]
            src, dst = a[0], a[1]
            if dst in self.GPR:
                v = val(src)
                if v is not None:
                    if w < 8 and not z3.is_int_value(v.e):
                        v = Val(self.fresh('z'), v.t)
                    return [(nxt, setreg(dst, v))]
                pm = self.parse_mem(st, src)
                if pm and pm[0] == 'fp':
                    v = Val(self.arg_at[pm[1]]) if pm[1] in self.arg_at else Val(self.fresh('fp'))
                    return [(nxt, setreg(dst, v))]
                if pm and pm[0] == 'mem':
                    self.access(st, i, pm[1], w, False)
                    return [(nxt, setreg(dst, Val(self.fresh('ld'), not pm[1].ro)))]
            else:
                v = val(src)
                pm = self.parse_mem(st, dst)
                if v is not None and pm and pm[0] == 'fp':
                    self.res.ret_taint[self.name] = self.res.ret_taint.get(self.name, False) or v.t
                    return [(nxt, st)]
                if v is not None and pm and pm[0] == 'mem':
                    self.access(st, i, pm[1], w, True)
                    return [(nxt, st)]
        if base == 'WORD':
            m = re.match(r'^\$(\d+)$', a[0]) if a else None
            if m and (int(m.group(1)) & 0xBFE08C00) == 0x0E000000:
                return [(nxt, st)]       # TBL/TBX: table lookup in vector registers, no memory operand
            self.unmodelled(i, 'raw instruction word that is not TBL/TBX')
            return [(nxt, st)]
        if base in ('VLD1', 'VLD2', 'VLD3', 'VLD4', 'VST1', 'VST2', 'VST3', 'VST4', 'VLD1R'):
            store = base.startswith('VST')
            memop, regop = (a[1], a[0]) if store else (a[0], a[1])
            w = self.arm_mem_width(regop)
            m = re.match(r'^(-?\d+)?\((R\d+|RSP)\)$', memop)
            if w is None or w >= 10 ** 9 or not m:
                self.unmodelled(i, 'vector load/store operand form')
                return [(nxt, st)]
            b = regs[m.group(2)]
            post = op.endswith('.P')
            disp = int(m.group(1) or 0)
            addr = Val(b.e if post else (b.e + disp if disp else b.e), b.t, b.ro)
            self.access(st, i, addr, w, store)
            ns = st
            if post:
                ns = setreg(m.group(2), Val(b.e + disp, b.t, b.ro))
            elif op.endswith('.W'):
                self.unmodelled(i, 'pre-index writeback')
            return [(nxt, ns)]
        if base.startswith('V') or base in ('AESE', 'AESMC', 'SHA256H', 'FMOVD', 'FMOVS', 'FMOVQ'):
            if any('(' in x and not x.startswith('$') for x in a):
                self.unmodelled(i, 'vector instruction with a memory operand')
                return [(nxt, st)]
            if a and a[-1] in self.GPR:       # GPR written from a vector register becomes secret
                return [(nxt, setreg(a[-1], Val(self.fresh('vx'), True)))]
            return [(nxt, st)]
        self.unmodelled(i, 'instruction')
        return [(nxt, st)]

def rodata_sizes(repo, arch='amd64'):
    sizes = {}
    for f in sorted(os.listdir(os.path.join(repo, 'sm4'))):
        if not f.endswith('_%s.s' % arch):
            continue
        p = os.path.join(repo, 'sm4', f)
        if not os.path.exists(p):
            continue
        for m in re.finditer(r'^GLOBL\s+(\w+)<>\(SB\),\s*\(([^)]*)\),\s*\$(\d+)', open(p).read(), re.M):
            sizes[m.group(1)] = int(m.group(3))
    return sizes

def main():
    import argparse
    ap = argparse.ArgumentParser()
    ap.add_argument('repo', nargs='?', default='/repo')
    ap.add_argument('--contracts', default='')
    ap.add_argument('--kinds', default='mem,frame,ct-addr,ct-branch,loop-inc,unmodelled')
    ap.add_argument('--routines', default='')
    ap.add_argument('--json', default='')
    ap.add_argument('--property', default=os.environ.get('VERIF_PROPERTY', 'C09'))
    ap.add_argument('--known', default='/verif/known_findings.txt')
    ap.add_argument('--arch', default='amd64')
    ap.add_argument('--no-replay', action='store_true')
    args = ap.parse_args()
    kinds = set(args.kinds.split(','))
    here = os.path.dirname(os.path.dirname(os.path.abspath(__file__)))
    stubs = go_stubs(args.repo, args.arch)
    cts, allows, extra_stubs, doms, copies = parse_contracts(args.contracts or os.path.join(here, 'spec', 'asm_%s.contracts' % args.arch))
    for k_, v_ in extra_stubs.items():
        stubs.setdefault(k_, v_)
    rod = rodata_sizes(args.repo, args.arch)
    res = Result()
    t0 = time.time()
    routines = []
    for f in sorted(os.listdir(os.path.join(args.repo, 'sm4'))):
        if not f.endswith('_%s.s' % args.arch) or f.startswith('com_'):
            continue
        try:
            funcs = get_listing(args.repo, f, args.arch)
        except Exception as ex:
            print('ERROR: %s' % ex); sys.exit(2)
        for name, ins in funcs.items():
            if args.routines and name not in args.routines.split(','):
                continue
            if name not in stubs:
                res.notes.append('%s: no Go declaration found (test helper?), skipped' % name)
                continue
            if not ins:
                continue
            routines.append(name)
            try:
                guess = {}
                for _round in range(6):
                    sub = Result()
                    m = Machine(name, ins, stubs[name], cts.get(name), allows, rod, sub, taint_guess=guess, arch=args.arch, dom_ptr=doms.get(name), copy=copies.get(name))
                    m.run()
                    if not m.rerun:
                        break
                    guess = m.taint_guess
                res.obligations += sub.obligations; res.discharged += sub.discharged; res.failures += sub.failures
                res.samples += sub.samples[:2]; res.solver_s += sub.solver_s; res.notes += sub.notes
                res.ret_taint.update(sub.ret_taint)
                for kk, vv in sub.by_kind.items():
                    res.by_kind[kk] = res.by_kind.get(kk, 0) + vv
                if m.rerun:
                    raise RuntimeError('taint fixpoint not reached')
            except Exception as ex:
                res.obligations += 1
                res.failures.append({'routine': name, 'kind': 'unmodelled', 'at': '', 'pc': 0, 'instruction': '', 'what': 'analysis error: %r' % ex, 'verdict': 'unknown', 'model': ''})
    fails = [f for f in res.failures if f['kind'] in kinds]
    # known findings
    known = []
    if os.path.exists(args.known):
        for ln in open(args.known):
            ln = ln.strip()
            if ln.startswith('property=%s ' % args.property):
                f = ln.split()
                pat = [x for x in f if x.startswith('obligation=')]
                if pat:
                    known.append((re.compile('^' + pat[0][len('obligation='):] + '$'), ' '.join(f[2:])))
    nviol = 0
    rd = os.path.join(here, 'evidence', 'replay', args.property)
    seen_known = set()
    # replay of refuted mem/frame obligations on the real code: every pointer argument against an inaccessible page
    replay = {}
    bad = sorted(set(f['routine'] for f in fails if f['kind'] in ('mem', 'frame', 'dom', 'copy', 'result')))
    if bad and args.arch == 'amd64' and not args.no_replay:
        env = dict(os.environ, VERIF_FUNCS=','.join(bad), VERIF_TIMEOUT='120')
        try:
            r = subprocess.run([os.path.join(here, 'replay', 'run.sh'), 'sm4guard', args.repo], capture_output=True, text=True, env=env, timeout=300)
            for ln in r.stdout.split('\n'):
                m = re.match(r'^REPLAY-FAIL case=(\w+) (.*)$', ln)
                if m:
                    replay.setdefault(m.group(1), []).append(m.group(2))
            replay_out = (r.stdout + r.stderr)[-1500:]
        except Exception as ex:
            replay_out = 'replay did not run: %r' % ex
    for f in fails:
        oname = 'asm:%s:%s/%s@%s' % (args.arch, f['routine'], f['kind'], f['at'].split('/')[-1])
        kf = [t for (p, t) in known if p.match(oname)]
        if kf:
            if kf[0] not in seen_known:
                print('KNOWN-FINDING: property=%s %s (obligation %s)' % (args.property, kf[0], oname))
                seen_known.add(kf[0])
            continue
        nviol += 1
        os.makedirs(rd, exist_ok=True)
        rp = os.path.join(rd, 'asm_%s_%d.json' % (args.arch, nviol))
        hit = replay.get(f['routine'])
        json.dump(dict(f, property=args.property, obligation=oname, replay_on_real_code=hit or 'no failing input found',
                       replay_cmd='VERIF_FUNCS=%s /verif/replay/run.sh sm4guard %s' % (f['routine'], args.repo)), open(rp, 'w'), indent=1)
        if nviol <= 12:
            tail = ('failing-input: ' + hit[0][:120]) if hit else 'no-failing-input-found'
            print('VIOLATION property=%s replay=%s obligation=%s: %s [%s] %s' % (args.property, rp, oname, f['what'], ' '.join(f['instruction'].split('\t')[1:])[:60], tail))
    print('EXTRA: asmvc routines=%d obligations=%d discharged=%d failures(all kinds)=%d selected-kind failures=%d z3=%.1fs wall=%.1fs' %
          (len(routines), res.obligations, res.discharged, len(res.failures), len(fails), res.solver_s, time.time() - t0))
    for n in res.notes[:10]:
        print('EXTRA: note: ' + n)
    nsel = sum(v for k, v in res.by_kind.items() if k in kinds)
    summary = {'tool': 'asmvc', 'obligations': nsel + len(fails), 'discharged': nsel,
               'by_kind': {k: v for k, v in res.by_kind.items() if k in kinds},
               'functions': ['sm4.%s (%s assembly)' % (r, args.arch) for r in routines],
               'backend': 'z3 %s (python API, linear integer arithmetic)' % z3.get_version_string(), 'solver_seconds': round(res.solver_s, 2),
               'samples': res.samples[:6], 'ret_taint': res.ret_taint,
               'assumptions': ['asmvc operand-shape table for vector mnemonics (width of each memory operand) and the Go assembler listing (go tool asm -S) as the instruction stream',
                               'pointer and length arithmetic does not wrap (lengths below 2^48)',
                               'masked-off elements of AVX-512 masked moves do not access memory',
                               'the data computed by the kernels is abstract: every value loaded from non-RODATA memory and every vector register is treated as secret'],
               'notes': res.notes[:20]}
    print('EXTRA-JSON: ' + json.dumps(summary))
    if args.json:
        json.dump({'routines': routines, 'obligations': res.obligations, 'discharged': res.discharged, 'failures': res.failures,
                   'samples': res.samples, 'notes': res.notes, 'z3_seconds': round(res.solver_s, 2)}, open(args.json, 'w'), indent=1)
    sys.exit(1 if nviol else 0)

if __name__ == '__main__':
    main()
