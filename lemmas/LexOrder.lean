/-
L6: lexicographic order of equal-length byte strings is the numeric order of their big-endian values.
Checked with:  cd /verif/lemmas && lean LexOrder.lean   (Lean 4.33 + Mathlib, offline, about 1.5 min)
lexLt mirrors the recursive spec function lexlt of /verif/spec/bytes_bv.smt2 (first differing byte decides).
-/
import Mathlib.Tactic

/-- big-endian value of a list of digits in base 256 -/
def beVal : List ℕ → ℕ
  | [] => 0
  | d :: ds => d * 256 ^ ds.length + beVal ds

theorem beVal_lt (ds : List ℕ) (h : ∀ d ∈ ds, d < 256) : beVal ds < 256 ^ ds.length := by
  induction ds with
  | nil => simp [beVal]
  | cons d ds ih =>
    have hd : d < 256 := h d (by simp)
    have hds : ∀ x ∈ ds, x < 256 := fun x hx => h x (by simp [hx])
    have := ih hds
    simp only [beVal, List.length_cons, pow_succ]
    nlinarith

/-- strict lexicographic order of equal-length digit strings, defined by recursion -/
def lexLt : List ℕ → List ℕ → Prop
  | [], _ => False
  | _, [] => False
  | a :: as, b :: bs => a < b ∨ (a = b ∧ lexLt as bs)

/-- L6: for equal lengths and digits below 256, lexicographic order is numeric order of the big-endian values. -/
theorem L6_lex_iff_numeric : ∀ (as bs : List ℕ), as.length = bs.length →
    (∀ d ∈ as, d < 256) → (∀ d ∈ bs, d < 256) → (lexLt as bs ↔ beVal as < beVal bs)
  | [], [], _, _, _ => by simp [lexLt, beVal]
  | [], _ :: _, h, _, _ => by simp at h
  | _ :: _, [], h, _, _ => by simp at h
  | a :: as, b :: bs, h, ha, hb => by
    have hlen : as.length = bs.length := by simpa using h
    have has : ∀ d ∈ as, d < 256 := fun x hx => ha x (by simp [hx])
    have hbs : ∀ d ∈ bs, d < 256 := fun x hx => hb x (by simp [hx])
    have ih := L6_lex_iff_numeric as bs hlen has hbs
    have la := beVal_lt as has
    have lb := beVal_lt bs hbs
    simp only [lexLt, beVal, hlen]
    rw [hlen] at la
    constructor
    · rintro (hlt | ⟨heq, hl⟩)
      · have : (a + 1) * 256 ^ bs.length ≤ b * 256 ^ bs.length :=
          Nat.mul_le_mul_right _ hlt
        nlinarith
      · subst heq
        have := ih.mp hl
        omega
    · intro hv
      rcases Nat.lt_trichotomy a b with hlt | heq | hgt
      · exact Or.inl hlt
      · subst heq
        right
        refine ⟨rfl, ih.mpr ?_⟩
        omega
      · exfalso
        have : (b + 1) * 256 ^ bs.length ≤ a * 256 ^ bs.length :=
          Nat.mul_le_mul_right _ hgt
        nlinarith
