/-
Algebraic lemmas used as trusted steps by the contracts of /verif (see DESIGN.md, section 5).
Checked with:  cd /verif/lemmas && lean SM2Lemmas.lean      (Lean 4.33 + Mathlib, offline)
All statements are over an arbitrary commutative ring; they are instantiated in Z/n (scalar field)
or Z/m (m = p or n for the Montgomery lifting lemma).
-/
import Mathlib.Tactic.LinearCombination
import Mathlib.Tactic.Ring
import Mathlib.Algebra.Ring.Basic

/-- L2 (C02): with u the inverse of 1+d, the value the code computes, (k+r)·u − r,
    is the value the standard defines, (1+d)⁻¹·(k − r·d). -/
theorem L2_sign_rearrangement {R : Type*} [CommRing R] (u d k r : R)
    (h : u * (1 + d) = 1) : (k + r) * u - r = u * (k - r * d) := by
  linear_combination r * h

/-- L3a (C01): for s = (1+d)⁻¹(k − r d) and t = r + s the verifier's combination s + t·d equals k,
    so [s]G + [t]P = [k]G for P = [d]G. -/
theorem L3_sign_then_verify {R : Type*} [CommRing R] (u d k r : R)
    (h : u * (1 + d) = 1) :
    u * (k - r * d) + (r + u * (k - r * d)) * d = k := by
  linear_combination (k - r * d) * h

/-- L3b (C01): t·(1+d) = r + k, hence t = 0 exactly when r + k = 0 (1+d is a unit). -/
theorem L3_t_times_unit {R : Type*} [CommRing R] (u d k r : R)
    (h : u * (1 + d) = 1) :
    (r + u * (k - r * d)) * (1 + d) = r + k := by
  linear_combination (k - r * d) * h

/-- L1 (C16, Montgomery lifting): from the word-level identity out·R = a·b + q·m, read in Z/m
    (where m = 0) with R invertible, out = a·b·R⁻¹. -/
theorem L1_montgomery_lifting {S : Type*} [CommRing S] (out a b q m Rr Rinv : S)
    (h1 : out * Rr = a * b + q * m) (h2 : m = 0) (h3 : Rr * Rinv = 1) :
    out = a * b * Rinv := by
  linear_combination Rinv * h1 - out * h3 + q * Rinv * h2

/-- L1to: x ↦ x·R is inverse to x ↦ x·R⁻¹. -/
theorem L1_to_from {S : Type*} [CommRing S] (x Rr Rinv : S) (h3 : Rr * Rinv = 1) :
    (x * Rr) * Rinv = x := by
  linear_combination x * h3
