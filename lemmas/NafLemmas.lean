/-
L8: splitting a remainder at a product of moduli,  V mod (K*X) = V mod X + X * ((V div X) mod K).
Used by the DecomposeNAF contract (/repo/utils/zz_contracts_verif.go, proof steps m1 and m) with X = 2^i and
K = 2 resp. 2^(w+1): the low i+w+1 bits of V are its low i bits plus 2^i times the next w+1 bits.
The solvers prove the other arithmetic instances of that contract themselves; this one is nonlinear in X and is
decided only erratically by them (z3 5.1 proves it for K = 32 and not for K = 2), so it is proved here once.
Also L9 and L10, the two facts about weighted sums that the SMT lemma files spec/lemmas/nsum_*.smt2 prove by an
explicitly encoded induction: they are re-proved here with Lean's own induction principle, which removes the
"induction schema" meta-step from the trusted base of those files.
Checked with:  cd /verif/lemmas && lean NafLemmas.lean   (Lean 4.33 + Mathlib, offline)
-/
import Mathlib.Tactic

theorem L8_mod_mul_split (V X K : ℕ) : V % (K * X) = V % X + X * (V / X % K) := by
  rw [Nat.mul_comm K X]; exact Nat.mod_mul

/-- the same over the integers as SMT-LIB reads div and mod (all three arguments non-negative) -/
theorem L8_int (V X K : ℤ) (hV : 0 ≤ V) (hX : 0 ≤ X) (hK : 0 ≤ K) :
    V % (K * X) = V % X + X * (V / X % K) := by
  lift V to ℕ using hV
  lift X to ℕ using hX
  lift K to ℕ using hK
  exact_mod_cast L8_mod_mul_split V X K

/-- weighted sum of a digit sequence over positions a ≤ j < a + m (nsum of spec/ints.smt2 with b = a + m) -/
def nsum (p2 : ℕ → ℤ) (A : ℕ → ℤ) : ℕ → ℕ → ℤ
  | _, 0 => 0
  | a, m + 1 => A a * p2 a + nsum p2 A (a + 1) m

/-- L9 (point update): changing position i changes the sum by (new - old) * p2 i when a ≤ i < a + m, else not at all -/
theorem L9_nsum_update (p2 : ℕ → ℤ) (A : ℕ → ℤ) (i : ℕ) (v : ℤ) :
    ∀ (m a : ℕ), nsum p2 (Function.update A i v) a m =
      nsum p2 A a m + (if a ≤ i ∧ i < a + m then (v - A i) * p2 i else 0) := by
  intro m
  induction m with
  | zero => intro a; simp [nsum]
  | succ m ih =>
    intro a
    simp only [nsum, ih (a + 1)]
    by_cases h : a = i
    · subst h
      simp
      ring
    · have h1 : Function.update A i v a = A a := Function.update_of_ne h _ _
      rw [h1]
      by_cases h2 : a ≤ i ∧ i < a + (m + 1)
      · have h3 : a + 1 ≤ i ∧ i < a + 1 + m := by omega
        rw [if_pos h2, if_pos h3]
        ring
      · have h3 : ¬ (a + 1 ≤ i ∧ i < a + 1 + m) := by omega
        rw [if_neg h2, if_neg h3]
        ring

/-- L10 (all zero): a sequence that is zero on the range has weighted sum zero -/
theorem L10_nsum_zero (p2 : ℕ → ℤ) (A : ℕ → ℤ) :
    ∀ (m a : ℕ), (∀ j, a ≤ j → j < a + m → A j = 0) → nsum p2 A a m = 0 := by
  intro m
  induction m with
  | zero => intro a _; simp [nsum]
  | succ m ih =>
    intro a h
    have h0 : A a = 0 := h a (le_refl a) (by omega)
    have h1 : nsum p2 A (a + 1) m = 0 := ih (a + 1) (fun j hj1 hj2 => h j (by omega) (by omega))
    simp [nsum, h0, h1]
