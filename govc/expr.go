package main

import (
	"fmt"
	"go/ast"
	"go/constant"
	"go/token"
	"go/types"
	"math/big"
)

func (ex *exec) evalExpr(st *State, e ast.Expr) Value { return ex.evalExprT(st, e, nil) }

// evalExprT evaluates e; want (may be nil) is the type expected by the context.
func (ex *exec) evalExprT(st *State, e ast.Expr, want types.Type) Value {
	info := ex.info()
	if tv, ok := info.Types[e]; ok && tv.Value != nil {
		t := tv.Type
		if b, ok := t.Underlying().(*types.Basic); ok && b.Info()&types.IsUntyped != 0 && want != nil {
			t = want
		}
		return ex.constValue(t, tv.Value, e.Pos())
	}
	switch e := e.(type) {
	case *ast.ParenExpr:
		return ex.evalExprT(st, e.X, want)
	case *ast.Ident:
		switch o := info.ObjectOf(e).(type) {
		case *types.Nil:
			t := info.TypeOf(e)
			if want != nil {
				t = want
			}
			if t == nil || t == types.Typ[types.UntypedNil] {
				return &Opaque{"nil"}
			}
			return ex.zeroValue(t)
		case *types.Var:
			obj := ex.varObj(st, o, e.Pos())
			return st.heap[obj]
		case *types.Func:
			return &Opaque{"func " + o.FullName()}
		}
		ex.fail(e.Pos(), "identifier %s", e.Name)
	case *ast.BasicLit:
		return &Opaque{"literal " + e.Value}
	case *ast.CompositeLit:
		return ex.evalComposite(st, e)
	case *ast.FuncLit:
		ex.fail(e.Pos(), "function literal")
	case *ast.SelectorExpr:
		if sel, ok := info.Selections[e]; ok {
			switch sel.Kind() {
			case types.FieldVal:
				loc := ex.tryLoc(st, e)
				if loc != nil {
					return ex.load(st, loc, e.Pos())
				}
				base := ex.evalExpr(st, e.X)
				return ex.fieldPath(base, sel, e.Pos())
			default:
				ex.fail(e.Pos(), "method value")
			}
		}
		// qualified identifier
		switch o := info.Uses[e.Sel].(type) {
		case *types.Var:
			return st.heap[ex.globalObj(st, o, e.Pos())]
		case *types.Func:
			return &Opaque{"func " + o.FullName()}
		}
		ex.fail(e.Pos(), "selector %s", e.Sel.Name)
	case *ast.IndexExpr:
		return ex.load(st, ex.evalLocOrTemp(st, e), e.Pos())
	case *ast.SliceExpr:
		return ex.evalSliceExpr(st, e)
	case *ast.StarExpr:
		p := ex.evalExpr(st, e.X).(*Ptr)
		ex.checkNonNil(st, p, e.Pos())
		return ex.load(st, p, e.Pos())
	case *ast.UnaryExpr:
		switch e.Op {
		case token.AND:
			if cl, ok := unparen(e.X).(*ast.CompositeLit); ok {
				v := ex.evalComposite(st, cl)
				o := ex.newObj(info.TypeOf(cl), "lit", true)
				st.heap[o] = v
				return &Ptr{Obj: o}
			}
			return ex.evalLoc(st, e.X)
		case token.NOT:
			return Not(ex.evalExpr(st, e.X).(*Term))
		case token.SUB:
			t := info.TypeOf(e)
			x := ex.evalExprT(st, e.X, want).(*Term)
			return ex.binop(st, token.SUB, t, ex.intConst(t, big.NewInt(0)), x, e.Pos())
		case token.XOR:
			t := info.TypeOf(e)
			x := ex.evalExprT(st, e.X, want).(*Term)
			return ex.bitnot(t, x, e.Pos())
		case token.ADD:
			return ex.evalExprT(st, e.X, want)
		}
		ex.fail(e.Pos(), "unary %s", e.Op)
	case *ast.BinaryExpr:
		return ex.evalBinary(st, e)
	case *ast.CallExpr:
		v := ex.evalCall(st, e, true)
		return v
	case *ast.TypeAssertExpr:
		ex.fail(e.Pos(), "type assertion")
	case *ast.KeyValueExpr:
		ex.fail(e.Pos(), "key-value outside composite literal")
	}
	ex.fail(e.Pos(), "unsupported expression %T", e)
	return nil
}

func unparen(e ast.Expr) ast.Expr {
	for {
		p, ok := e.(*ast.ParenExpr)
		if !ok {
			return e
		}
		e = p.X
	}
}

func (ex *exec) constValue(t types.Type, v constant.Value, pos token.Pos) Value {
	switch v.Kind() {
	case constant.Bool:
		return BoolC(constant.BoolVal(v))
	case constant.Int, constant.Float:
		b := constToBig(v)
		if b == nil {
			return &Opaque{"float const"}
		}
		if bt, ok := t.Underlying().(*types.Basic); ok && bt.Info()&types.IsUntyped != 0 {
			t = types.Typ[types.Int]
		}
		if _, _, ok := ex.intWidth(t); !ok {
			return &Opaque{"const " + v.String()}
		}
		return ex.intConst(t, b)
	case constant.String:
		return &Opaque{"string " + v.ExactString()}
	}
	ex.fail(pos, "constant kind %v", v.Kind())
	return nil
}

// coerce adapts a value to a destination type (interface wrapping).
func (ex *exec) coerce(v Value, t types.Type, e ast.Expr) Value {
	if t == nil {
		return v
	}
	if _, isIface := t.Underlying().(*types.Interface); isIface {
		switch x := v.(type) {
		case *Iface, *ErrV:
			return x
		case *Opaque:
			if x.What == "nil" {
				return ex.zeroValue(t)
			}
		}
		var dyn types.Type
		if e != nil {
			dyn = ex.info().TypeOf(e)
		}
		if isErrorType(t) {
			// a concrete non-nil error value
			return &ErrV{NonNil: True, Tag: fmt.Sprint(dyn)}
		}
		return &Iface{T: dyn, V: v}
	}
	return v
}

func (ex *exec) fieldPath(base Value, sel *types.Selection, pos token.Pos) Value {
	v := base
	for _, i := range sel.Index() {
		sv, ok := v.(*Struct)
		if !ok {
			ex.fail(pos, "field of %T", v)
		}
		v = sv.F[i]
	}
	return v
}

func (ex *exec) checkNonNil(st *State, p *Ptr, pos token.Pos) {
	if p.Obj != nil && p.NilC != nil {
		ex.runtimeCheck(st, "nil-deref", "", Not(p.NilC), pos)
		return
	}
	if p.Obj == nil {
		ex.oblige(st, "nil-deref", "", False, pos)
		ex.fail(pos, "nil pointer dereference on every path")
	}
}

// tryLoc returns the location denoted by e if e is addressable, else nil.
func (ex *exec) tryLoc(st *State, e ast.Expr) (p *Ptr) {
	defer func() {
		if r := recover(); r != nil {
			if _, ok := r.(notAddressable); ok {
				p = nil
				return
			}
			panic(r)
		}
	}()
	return ex.evalLoc1(st, e, true)
}

type notAddressable struct{}

func (ex *exec) evalLoc(st *State, e ast.Expr) *Ptr { return ex.evalLoc1(st, e, false) }

// evalLocOrTemp: location for e, materialising a temporary for non-addressable operands.
func (ex *exec) evalLocOrTemp(st *State, e ast.Expr) *Ptr {
	if p := ex.tryLoc(st, e); p != nil {
		return p
	}
	ie, ok := e.(*ast.IndexExpr)
	if !ok {
		ex.fail(e.Pos(), "not addressable")
	}
	// index of a non-addressable array value (e.g. function result)
	base := ex.evalExpr(st, ie.X)
	o := ex.newObj(ex.info().TypeOf(ie.X), "tmp", true)
	st.heap[o] = base
	return ex.indexLoc(st, &Ptr{Obj: o}, ex.info().TypeOf(ie.X), ie, true)
}

func (ex *exec) evalLoc1(st *State, e ast.Expr, soft bool) *Ptr {
	info := ex.info()
	switch e := e.(type) {
	case *ast.ParenExpr:
		return ex.evalLoc1(st, e.X, soft)
	case *ast.Ident:
		v, ok := info.ObjectOf(e).(*types.Var)
		if !ok {
			if soft {
				panic(notAddressable{})
			}
			ex.fail(e.Pos(), "not a variable: %s", e.Name)
		}
		return &Ptr{Obj: ex.varObj(st, v, e.Pos())}
	case *ast.StarExpr:
		p := ex.evalExpr(st, e.X).(*Ptr)
		ex.checkNonNil(st, p, e.Pos())
		return p
	case *ast.SelectorExpr:
		sel, ok := info.Selections[e]
		if !ok {
			if v, ok := info.Uses[e.Sel].(*types.Var); ok {
				return &Ptr{Obj: ex.globalObj(st, v, e.Pos())}
			}
			ex.fail(e.Pos(), "selector location")
		}
		if sel.Kind() != types.FieldVal {
			ex.fail(e.Pos(), "method value location")
		}
		var base *Ptr
		xt := info.TypeOf(e.X)
		if _, isPtr := xt.Underlying().(*types.Pointer); isPtr {
			base = ex.evalExpr(st, e.X).(*Ptr)
			ex.checkNonNil(st, base, e.Pos())
		} else {
			base = ex.evalLoc1(st, e.X, soft)
		}
		// follow the selection path, dereferencing embedded pointers
		cur := base
		curT := xt
		if pt, ok := curT.Underlying().(*types.Pointer); ok {
			curT = pt.Elem()
		}
		for _, i := range sel.Index() {
			if pt, ok := curT.Underlying().(*types.Pointer); ok {
				pv := ex.load(st, cur, e.Pos()).(*Ptr)
				ex.checkNonNil(st, pv, e.Pos())
				cur = pv
				curT = pt.Elem()
			}
			stt := curT.Underlying().(*types.Struct)
			cur = cur.with(Sel{Field: i})
			curT = stt.Field(i).Type()
		}
		return cur
	case *ast.IndexExpr:
		xt := info.TypeOf(e.X)
		switch u := xt.Underlying().(type) {
		case *types.Array:
			base := ex.evalLoc1(st, e.X, soft)
			return ex.indexLoc(st, base, xt, e, true)
		case *types.Pointer:
			base := ex.evalExpr(st, e.X).(*Ptr)
			ex.checkNonNil(st, base, e.Pos())
			return ex.indexLoc(st, base, u.Elem(), e, true)
		case *types.Slice:
			sv := ex.evalExpr(st, e.X).(*Slice)
			idx := ex.evalIndex(st, e.Index)
			ex.boundsCheck(st, idx, sv.Len, e.Pos())
			if sv.Base.Obj == nil {
				ex.fail(e.Pos(), "index of nil slice")
			}
			r := sv.Base.with(Sel{Field: -1, Idx: ex.add(sv.Off, idx)})
			r.Span = ex.sub(sv.Len, idx)
			return r
		}
		ex.fail(e.Pos(), "index of %s", xt)
	case *ast.CompositeLit:
		v := ex.evalComposite(st, e)
		o := ex.newObj(info.TypeOf(e), "lit", true)
		st.heap[o] = v
		return &Ptr{Obj: o}
	}
	if soft {
		panic(notAddressable{})
	}
	ex.fail(e.Pos(), "not addressable: %T", e)
	return nil
}

func (ex *exec) indexLoc(st *State, base *Ptr, arrT types.Type, e *ast.IndexExpr, check bool) *Ptr {
	at := arrT.Underlying().(*types.Array)
	idx := ex.evalIndex(st, e.Index)
	if check {
		ex.boundsCheck(st, idx, ex.idxConst(at.Len()), e.Pos())
	}
	r := base.with(Sel{Field: -1, Idx: idx})
	r.Span = ex.sub(ex.idxConst(at.Len()), idx)
	return r
}

// evalIndex evaluates an index expression and widens it to the index sort.
func (ex *exec) evalIndex(st *State, e ast.Expr) *Term {
	t := ex.info().TypeOf(e)
	v, ok := ex.evalExprT(st, e, types.Typ[types.Int]).(*Term)
	if !ok {
		ex.fail(e.Pos(), "index value")
	}
	if ex.taint {
		ex.checkPublic(st, v, "index", e.Pos())
	}
	return ex.toIndex(v, t)
}

func (ex *exec) toIndex(v *Term, t types.Type) *Term {
	if ex.mode == ModeInt {
		return v
	}
	_, signed, ok := ex.intWidth(t)
	if !ok {
		signed = true
	}
	if v.Sort.W == 64 {
		return v
	}
	if signed {
		return SExt(64, v)
	}
	return ZExt(64, v)
}

func (ex *exec) boundsCheck(st *State, idx, n *Term, pos token.Pos) {
	g := And(ex.le(ex.idxConst(0), idx), ex.lt(idx, n))
	ex.runtimeCheck(st, "index", "", g, pos)
}

// runtimeCheck: a Go run-time check (index, slice bounds, nil, division).  Failing it
// panics, which the contract may allow through panics_if (conditions on entry values).
func (ex *exec) runtimeCheck(st *State, kind, label string, g *Term, pos token.Pos) {
	if g == True {
		ex.oblige(st, kind, label, g, pos)
		return
	}
	ex.oblige(st, kind, label, Or(g, ex.allowedPanic()), pos)
	st.assume(g)
}

func (ex *exec) allowedPanic() *Term {
	if ex.allowed != nil {
		return ex.allowed
	}
	fr := ex.frames[0]
	var conds []*Term
	if ex.ct != nil && fr.entry != nil {
		for _, p := range ex.ct.PanicsIf {
			env := ex.newSpecEnv(fr.entry, fr, nil)
			env.old = fr.entry
			conds = append(conds, env.toBool(env.eval(p.Expr)))
		}
	}
	ex.allowed = Or(conds...)
	return ex.allowed
}

func (ex *exec) evalSliceExpr(st *State, e *ast.SliceExpr) Value {
	info := ex.info()
	xt := info.TypeOf(e.X)
	var base *Ptr
	var off, ln, cp *Term
	var elem types.Type
	nilc := False
	switch u := xt.Underlying().(type) {
	case *types.Slice:
		sv := ex.evalExpr(st, e.X).(*Slice)
		base, off, ln, cp, elem = sv.Base, sv.Off, sv.Len, sv.Cap, u.Elem()
		nilc = sv.Nil
	case *types.Array:
		base = ex.evalLoc(st, e.X)
		off, ln, cp, elem = ex.idxConst(0), ex.idxConst(u.Len()), ex.idxConst(u.Len()), u.Elem()
	case *types.Pointer:
		at, ok := u.Elem().Underlying().(*types.Array)
		if !ok {
			ex.fail(e.Pos(), "slice of %s", xt)
		}
		base = ex.evalExpr(st, e.X).(*Ptr)
		ex.checkNonNil(st, base, e.Pos())
		off, ln, cp, elem = ex.idxConst(0), ex.idxConst(at.Len()), ex.idxConst(at.Len()), at.Elem()
	default:
		ex.fail(e.Pos(), "slice of %s", xt)
	}
	lo := ex.idxConst(0)
	hi := ln
	mx := cp
	if e.Low != nil {
		lo = ex.evalIndex(st, e.Low)
	}
	if e.High != nil {
		hi = ex.evalIndex(st, e.High)
	}
	if e.Max != nil {
		mx = ex.evalIndex(st, e.Max)
	}
	// Go spec: 0 <= lo <= hi <= max <= cap
	g := And(ex.le(ex.idxConst(0), lo), ex.le(lo, hi), ex.le(hi, mx), ex.le(mx, cp))
	if e.Max == nil {
		g = And(ex.le(ex.idxConst(0), lo), ex.le(lo, hi), ex.le(hi, cp))
	}
	ex.runtimeCheck(st, "slice", "", g, e.Pos())
	if ex.strictLen(e.X) {
		// strict_len parameters: Go does not panic when slicing beyond len within cap;
		// that would be a silent out-of-range access, so it must be impossible here
		ex.oblige(st, "slice", "within-len", ex.le(hi, ln), e.Pos())
	}
	return &Slice{Base: base, Off: ex.add(off, lo), Len: ex.sub(hi, lo), Cap: ex.sub(mx, lo), Nil: And(nilc, True), Elem: elem}
}

// strictLen reports whether e is a parameter the contract marks strict_len.
func (ex *exec) strictLen(e ast.Expr) bool {
	id, ok := unparen(e).(*ast.Ident)
	if !ok {
		return false
	}
	fr := ex.fr()
	ct := ex.eng.contracts[fr.fi.Key]
	if ct == nil {
		return false
	}
	return ct.StrictLen[id.Name]
}

func (ex *exec) evalComposite(st *State, e *ast.CompositeLit) Value {
	info := ex.info()
	t := info.TypeOf(e)
	switch u := t.Underlying().(type) {
	case *types.Struct:
		v := ex.zeroValue(t).(*Struct)
		nv := &Struct{T: v.T, F: append([]Value{}, v.F...)}
		for i, el := range e.Elts {
			if kv, ok := el.(*ast.KeyValueExpr); ok {
				name := kv.Key.(*ast.Ident).Name
				for j := 0; j < u.NumFields(); j++ {
					if u.Field(j).Name() == name {
						val := ex.evalExprT(st, kv.Value, u.Field(j).Type())
						nv.F[j] = ex.coerce(val, u.Field(j).Type(), kv.Value)
					}
				}
			} else {
				val := ex.evalExprT(st, el, u.Field(i).Type())
				nv.F[i] = ex.coerce(val, u.Field(i).Type(), el)
			}
		}
		return nv
	case *types.Array:
		return ex.compositeArray(st, e, u.Elem(), u.Len())
	case *types.Slice:
		n := int64(0)
		idx := int64(0)
		for _, el := range e.Elts {
			if kv, ok := el.(*ast.KeyValueExpr); ok {
				if tv, ok := info.Types[kv.Key]; ok && tv.Value != nil {
					idx = constToBig(tv.Value).Int64()
				}
			}
			idx++
			if idx > n {
				n = idx
			}
		}
		arr := ex.compositeArray(st, e, u.Elem(), n)
		o := ex.newObj(types.NewArray(u.Elem(), n), "slicelit", true)
		st.heap[o] = arr
		return &Slice{Base: &Ptr{Obj: o}, Off: ex.idxConst(0), Len: ex.idxConst(n), Cap: ex.idxConst(n), Nil: False, Elem: u.Elem()}
	}
	ex.fail(e.Pos(), "composite literal of %s", t)
	return nil
}

func (ex *exec) compositeArray(st *State, e *ast.CompositeLit, elem types.Type, n int64) Value {
	info := ex.info()
	scalar := ex.scalarSort(elem) != nil && !ex.smallArr(elem, n)
	var arrT *Term
	var arrV *Array
	if scalar {
		arrT = ex.zeroValue(types.NewArray(elem, n)).(*Term)
	} else {
		arrV = ex.zeroValue(types.NewArray(elem, n)).(*Array)
	}
	idx := int64(0)
	for _, el := range e.Elts {
		valE := el
		if kv, ok := el.(*ast.KeyValueExpr); ok {
			if tv, ok := info.Types[kv.Key]; ok && tv.Value != nil {
				idx = constToBig(tv.Value).Int64()
			}
			valE = kv.Value
		}
		var v Value
		if cl, ok := valE.(*ast.CompositeLit); ok && cl.Type == nil {
			// elided type in nested literal
			v = ex.evalCompositeAs(st, cl, elem)
		} else {
			v = ex.evalExprT(st, valE, elem)
		}
		if scalar {
			arrT = Store(arrT, ex.idxConst(idx), v.(*Term))
		} else {
			arrV.E[idx] = v
		}
		idx++
	}
	if scalar {
		return arrT
	}
	return arrV
}

// evalCompositeAs handles composite literals whose type is elided (also &T elision).
func (ex *exec) evalCompositeAs(st *State, e *ast.CompositeLit, t types.Type) Value {
	if pt, ok := t.Underlying().(*types.Pointer); ok {
		v := ex.evalComposite(st, e)
		o := ex.newObj(pt.Elem(), "lit", true)
		st.heap[o] = v
		return &Ptr{Obj: o}
	}
	return ex.evalComposite(st, e)
}

// ---------- arithmetic ----------

func (ex *exec) bitnot(t types.Type, x *Term, pos token.Pos) *Term {
	if ex.mode == ModeBV {
		return BVNot(x)
	}
	w, signed, _ := ex.intWidth(t)
	if signed {
		return IntSub(IntC64(-1), x)
	}
	return IntSub(IntC(mask(w)), x)
}

func (ex *exec) evalBinary(st *State, e *ast.BinaryExpr) Value {
	info := ex.info()
	switch e.Op {
	case token.LAND, token.LOR:
		l := ex.evalExpr(st, e.X).(*Term)
		if (e.Op == token.LAND && l == False) || (e.Op == token.LOR && l == True) {
			return l
		}
		// evaluate the right operand under the guard so its obligations are conditional
		sub := st.clone()
		if e.Op == token.LAND {
			sub.assume(l)
		} else {
			sub.assume(Not(l))
		}
		var r *Term
		guard := l
		if e.Op == token.LOR {
			guard = Not(l)
		}
		npc := len(sub.pc)
		if sub.infeasible() {
			r = BoolC(e.Op == token.LAND)
		} else {
			r = ex.evalExpr(sub, e.Y).(*Term)
			ex.adoptGuarded(st, sub, guard, npc, e.Pos())
		}
		if e.Op == token.LAND {
			return And(l, r)
		}
		return Or(l, r)
	}
	xt, yt := info.TypeOf(e.X), info.TypeOf(e.Y)
	switch e.Op {
	case token.EQL, token.NEQ:
		opT := xt
		if b, ok := xt.Underlying().(*types.Basic); ok && b.Info()&types.IsUntyped != 0 {
			opT = yt
		}
		l := ex.evalExprT(st, e.X, opT)
		r := ex.evalExprT(st, e.Y, opT)
		eq := ex.valuesEqual(st, l, r, e.Pos())
		if e.Op == token.NEQ {
			return Not(eq)
		}
		return eq
	case token.SHL, token.SHR:
		t := info.TypeOf(e)
		if b, ok := t.Underlying().(*types.Basic); ok && b.Info()&types.IsUntyped != 0 {
			t = types.Typ[types.Int]
		}
		l := ex.evalExprT(st, e.X, t).(*Term)
		r := ex.evalExprT(st, e.Y, types.Typ[types.Uint]).(*Term)
		return ex.shift(st, e.Op, t, l, r, yt, e.Pos())
	}
	opT := xt
	if b, ok := xt.Underlying().(*types.Basic); ok && b.Info()&types.IsUntyped != 0 {
		opT = yt
	}
	if b, ok := opT.Underlying().(*types.Basic); ok && b.Info()&types.IsUntyped != 0 {
		opT = types.Typ[types.Int]
	}
	l, lok := ex.evalExprT(st, e.X, opT).(*Term)
	r, rok := ex.evalExprT(st, e.Y, opT).(*Term)
	if !lok || !rok {
		// string concatenation etc.
		return &Opaque{"binary " + e.Op.String()}
	}
	switch e.Op {
	case token.LSS, token.LEQ, token.GTR, token.GEQ:
		return ex.compare(e.Op, opT, l, r)
	}
	return ex.binop(st, e.Op, opT, l, r, e.Pos())
}

// adoptGuarded brings the effects of a guarded sub-evaluation (right operand of && / ||)
// back into st: facts learned hold under the guard, heap changes are merged with ite.
func (ex *exec) adoptGuarded(st, sub *State, guard *Term, npc int, pos token.Pos) {
	for _, p := range sub.pc[npc:] {
		st.assume(Implies(guard, p))
	}
	for o, v := range sub.heap {
		old, ok := st.heap[o]
		if !ok {
			st.heap[o] = v
			continue
		}
		if !valueIdentical(old, v) {
			func() {
				defer func() {
					if r := recover(); r != nil {
						if _, ok := r.(mergeFail); ok {
							ex.fail(pos, "side effect in the right operand of && / || cannot be merged")
						}
						panic(r)
					}
				}()
				st.heap[o] = mergeValue(guard, v, old)
			}()
		}
	}
	for k, v := range sub.ghost {
		if _, ok := st.ghost[k]; !ok {
			st.ghost[k] = v
		}
	}
	for k, v := range sub.gver {
		if v > st.gver[k] {
			st.gver[k] = v
		}
	}
}

func (ex *exec) compare(op token.Token, t types.Type, l, r *Term) *Term {
	_, signed, _ := ex.intWidth(t)
	if ex.mode == ModeInt || l.Sort.K == KInt {
		switch op {
		case token.LSS:
			return IntLt(l, r)
		case token.LEQ:
			return IntLe(l, r)
		case token.GTR:
			return IntLt(r, l)
		default:
			return IntLe(r, l)
		}
	}
	lt, le := BVUlt, BVUle
	if signed {
		lt, le = BVSlt, BVSle
	}
	switch op {
	case token.LSS:
		return lt(l, r)
	case token.LEQ:
		return le(l, r)
	case token.GTR:
		return lt(r, l)
	default:
		return le(r, l)
	}
}

func (ex *exec) valuesEqual(st *State, l, r Value, pos token.Pos) *Term {
	switch x := l.(type) {
	case *Term:
		y, ok := r.(*Term)
		if !ok {
			ex.fail(pos, "comparison of %T with %T", l, r)
		}
		return Eq(x, y)
	case *Ptr:
		switch y := r.(type) {
		case *Ptr:
			if x.Obj == nil && y.Obj == nil {
				return True
			}
			if x.Obj == nil {
				return ptrNil(y)
			}
			if y.Obj == nil {
				return ptrNil(x)
			}
			if x.NilC != nil || y.NilC != nil {
				return And(Eq(ptrNil(x), ptrNil(y)), Or(ptrNil(x), BoolC(samePtr(x, y))))
			}
			return BoolC(samePtr(x, y))
		case *Opaque:
			return ptrNil(x)
		}
	case *Slice:
		// only comparison with nil is legal
		return x.Nil
	case *ErrV:
		switch y := r.(type) {
		case *ErrV:
			if y.NonNil == False {
				return Not(x.NonNil)
			}
			if x.NonNil == False {
				return Not(y.NonNil)
			}
		case *Opaque:
			return Not(x.NonNil)
		}
	case *Iface:
		isNilR := false
		switch y := r.(type) {
		case *Iface:
			isNilR = y.T == nil && y.V == nil && y.Opaque == ""
		case *Opaque:
			isNilR = y.What == "nil"
		}
		if isNilR {
			if x.Opaque != "" {
				if x.NilC != nil {
					return x.NilC
				}
				return False
			}
			return BoolC(x.T == nil && x.V == nil)
		}
	case *Opaque:
		if x.What == "nil" {
			return ex.valuesEqual(st, r, l, pos)
		}
	case *Struct:
		y, ok := r.(*Struct)
		if ok {
			var cs []*Term
			for i := range x.F {
				cs = append(cs, ex.valuesEqual(st, x.F[i], y.F[i], pos))
			}
			return And(cs...)
		}
	}
	ex.fail(pos, "unsupported comparison of %T with %T", l, r)
	return nil
}

func (ex *exec) shift(st *State, op token.Token, t types.Type, l, r *Term, rt types.Type, pos token.Pos) *Term {
	w, signed, _ := ex.intWidth(t)
	if ex.taint {
		ex.checkPublic(st, r, "shift-amount", pos)
	}
	if ex.mode == ModeInt {
		if !r.IsConst() {
			// variable shift amount: exact case analysis over the amounts 0..w-1 (Go: an amount >= the width
			// gives 0 for << and for >> of a non-negative operand; a negative signed amount panics)
			if _, rs, ok := ex.intWidth(rt); ok && rs {
				ex.oblige(st, "shift", "nonneg", IntLe(IntC64(0), r), pos)
			}
			if op == token.SHR {
				if l0, _, ok := Range(l); !ok || l0.Sign() < 0 {
					if !ex.lemma(st, IntLe(IntC64(0), l), "shr-nonneg", pos) {
						ex.fail(pos, "variable right shift of a possibly negative operand in int mode")
					}
				}
			}
			res := IntC64(0)
			for k := w - 1; k >= 0; k-- {
				p := new(big.Int).Lsh(big.NewInt(1), uint(k))
				var v *Term
				if op == token.SHL {
					v = IntScale(l, p)
				} else {
					v = IntDiv(l, IntC(p))
				}
				res = Ite(Eq(r, IntC64(int64(k))), v, res)
			}
			if op == token.SHL {
				return ex.wrap(st, res, w, signed, pos)
			}
			return res
		}
		k := uint(r.Val.Int64())
		p := new(big.Int).Lsh(big.NewInt(1), k)
		if op == token.SHL {
			return ex.wrap(st, IntScale(l, p), w, signed, pos)
		}
		return IntDiv(l, IntC(p))
	}
	// bring shift amount to the operand width (amounts >= width give 0 / sign fill in SMT as in Go)
	var amt *Term
	rw := r.Sort.W
	switch {
	case rw == w:
		amt = r
	case rw < w:
		amt = ZExt(w, r)
	default:
		// saturate: if r >= w then w else r
		big1 := BVC64(rw, int64(w))
		amt = Extract(w-1, 0, Ite(BVUlt(r, big1), r, big1))
	}
	if _, rs, ok := ex.intWidth(rt); ok && rs && !r.IsConst() {
		// negative shift count panics
		ex.oblige(st, "shift", "nonneg", BVSle(BVC64(rw, 0), r), pos)
	}
	if op == token.SHL {
		return BVShl(l, amt)
	}
	if signed {
		return BVAshr(l, amt)
	}
	return BVLshr(l, amt)
}

// wrap reduces an exact integer result to the Go type's range (int mode).
func (ex *exec) wrap(st *State, v *Term, w int, signed bool, pos token.Pos) *Term {
	lo, hi := typeRange(w, signed)
	if l, h, ok := Range(v); ok && l.Cmp(lo) >= 0 && h.Cmp(hi) <= 0 {
		return v
	}
	// ask the solver whether the value stays in range under the path condition (lemma)
	if ex.lemma(st, And(IntLe(IntC(lo), v), IntLe(v, IntC(hi))), "no-overflow", pos) {
		return v
	}
	m := new(big.Int).Lsh(big.NewInt(1), uint(w))
	if signed {
		// ((v + 2^(w-1)) mod 2^w) - 2^(w-1)
		h := new(big.Int).Lsh(big.NewInt(1), uint(w-1))
		return IntSub(IntMod(IntAdd(v, IntC(h)), IntC(m)), IntC(h))
	}
	return IntMod(v, IntC(m))
}

func (ex *exec) binop(st *State, op token.Token, t types.Type, l, r *Term, pos token.Pos) *Term {
	w, signed, ok := ex.intWidth(t)
	if !ok {
		if isBool(t) {
			ex.fail(pos, "boolean binop %s", op)
		}
		ex.fail(pos, "binop on %s", t)
	}
	if ex.mode == ModeInt {
		switch op {
		case token.ADD:
			return ex.wrap(st, IntAdd(l, r), w, signed, pos)
		case token.SUB:
			return ex.wrap(st, IntSub(l, r), w, signed, pos)
		case token.MUL:
			return ex.wrap(st, IntMul(l, r), w, signed, pos)
		case token.AND, token.OR, token.XOR, token.AND_NOT:
			return ex.intBitop(st, op, w, signed, l, r, pos)
		case token.QUO, token.REM:
			if !r.IsConst() || r.Val.Sign() <= 0 {
				ex.fail(pos, "division by non-constant in int mode")
			}
			if lo, _, ok := Range(l); !ok || lo.Sign() < 0 {
				ex.fail(pos, "division of possibly negative value in int mode")
			}
			if op == token.QUO {
				return IntDiv(l, r)
			}
			return IntMod(l, r)
		}
		ex.fail(pos, "int-mode binop %s", op)
	}
	switch op {
	case token.ADD:
		return BVAdd(l, r)
	case token.SUB:
		return BVSub(l, r)
	case token.MUL:
		return BVMul(l, r)
	case token.AND:
		return BVAnd(l, r)
	case token.OR:
		return BVOr(l, r)
	case token.XOR:
		return BVXor(l, r)
	case token.AND_NOT:
		return BVAnd(l, BVNot(r))
	case token.QUO, token.REM:
		ex.runtimeCheck(st, "div", "nonzero", Not(Eq(r, BVC64(w, 0))), pos)
		if ex.taint {
			ex.checkPublic(st, l, "div-operand", pos)
			ex.checkPublic(st, r, "div-operand", pos)
		}
		if signed {
			if op == token.QUO {
				return BVSdiv(l, r)
			}
			return BVSrem(l, r)
		}
		if op == token.QUO {
			return BVUdiv(l, r)
		}
		return BVUrem(l, r)
	}
	ex.fail(pos, "binop %s", op)
	return nil
}

// intBitop: bit operations in int mode.  Masks by 2^k-1 become mod; otherwise the
// operation is an uninterpreted function constrained by the facts the Fiat code needs.
func (ex *exec) intBitop(st *State, op token.Token, w int, signed bool, l, r *Term, pos token.Pos) *Term {
	if signed {
		// two's complement: x & (2^k - 1) is x mod 2^k (Euclidean, non-negative) for every signed x
		if op == token.AND {
			c, v := r, l
			if l.IsConst() && !r.IsConst() {
				c, v = l, r
			}
			if c.IsConst() && c.Val.Sign() >= 0 {
				d := new(big.Int).Add(c.Val, big.NewInt(1))
				if new(big.Int).And(d, c.Val).Sign() == 0 {
					return IntMod(v, IntC(d))
				}
			}
		}
		ex.fail(pos, "signed bit operation in int mode")
	}
	M := mask(w)
	isPow2m1 := func(c *big.Int) (int, bool) {
		d := new(big.Int).Add(c, big.NewInt(1))
		if d.Sign() > 0 && new(big.Int).And(d, c).Sign() == 0 {
			return d.BitLen() - 1, true
		}
		return 0, false
	}
	if op == token.AND_NOT {
		r = IntSub(IntC(M), r)
		op = token.AND
	}
	if l.IsConst() && !r.IsConst() {
		l, r = r, l
	}
	if l.IsConst() && r.IsConst() {
		res := new(big.Int)
		switch op {
		case token.AND:
			res.And(l.Val, r.Val)
		case token.OR:
			res.Or(l.Val, r.Val)
		case token.XOR:
			res.Xor(l.Val, r.Val)
		}
		return IntC(res)
	}
	if op == token.AND && r.IsConst() {
		if k, ok := isPow2m1(r.Val); ok {
			return IntMod(l, IntC(new(big.Int).Lsh(big.NewInt(1), uint(k))))
		}
		if r.Val.Sign() == 0 {
			return IntC64(0)
		}
	}
	if op == token.OR && r.IsConst() && r.Val.Sign() == 0 {
		return l
	}
	name := map[token.Token]string{token.AND: "bitand", token.OR: "bitor", token.XOR: "bitxor"}[op]
	if l.id > r.id {
		l, r = r, l
	}
	res := UF(fmt.Sprintf("%s%d", name, w), IntSort, l, r)
	SetRange(res, big.NewInt(0), M)
	zero, ones := IntC64(0), IntC(M)
	switch op {
	case token.AND:
		st.assume(Implies(Eq(l, zero), Eq(res, zero)))
		st.assume(Implies(Eq(r, zero), Eq(res, zero)))
		st.assume(Implies(Eq(l, ones), Eq(res, r)))
		st.assume(Implies(Eq(r, ones), Eq(res, l)))
		st.assume(IntLe(res, l))
		st.assume(IntLe(res, r))
	case token.OR:
		st.assume(Implies(Eq(l, zero), Eq(res, r)))
		st.assume(Implies(Eq(r, zero), Eq(res, l)))
		st.assume(Eq(Eq(res, zero), And(Eq(l, zero), Eq(r, zero))))
		st.assume(IntLe(l, res))
		st.assume(IntLe(r, res))
	case token.XOR:
		st.assume(Implies(Eq(l, zero), Eq(res, r)))
		st.assume(Implies(Eq(r, zero), Eq(res, l)))
		st.assume(Eq(Eq(res, zero), Eq(l, r)))
	}
	return res
}

// ---------- conversions ----------

func (ex *exec) convert(st *State, v Value, from, to types.Type, pos token.Pos) Value {
	if from == nil {
		return v
	}
	fw, fs, fok := ex.intWidth(from)
	tw, ts, tok := ex.intWidth(to)
	if fok && tok {
		x := v.(*Term)
		if ex.mode == ModeInt {
			lo, hi := typeRange(tw, ts)
			if l, h, ok := Range(x); ok && l.Cmp(lo) >= 0 && h.Cmp(hi) <= 0 {
				return x
			}
			if fw <= tw && fs == ts {
				return x
			}
			return ex.wrap(st, x, tw, ts, pos)
		}
		if tw <= fw {
			return Extract(tw-1, 0, x)
		}
		if fs {
			return SExt(tw, x)
		}
		return ZExt(tw, x)
	}
	if tok {
		if _, isOp := v.(*Opaque); isOp {
			ex.fail(pos, "conversion of non-integer constant to %s", to)
		}
	}
	// identical underlying types, pointer conversions, slice conversions, string(...)
	switch to.Underlying().(type) {
	case *types.Basic:
		if _, ok := v.(*Term); !ok {
			return &Opaque{"converted"}
		}
		if isBool(to) {
			return v
		}
		return &Opaque{"converted"}
	case *types.Interface:
		return ex.coerce(v, to, nil)
	}
	return v
}

func ptrNil(p *Ptr) *Term {
	if p.Obj == nil {
		return True
	}
	if p.NilC != nil {
		return p.NilC
	}
	return False
}
