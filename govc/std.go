package main

// Built-in models of standard-library functions, with their defining equations.

import (
	"go/ast"
	"go/types"
	"math"
	"math/big"
)

func (ex *exec) freshRanged(name string, w int) *Term {
	v := Fresh(name, IntSort)
	SetRange(v, big.NewInt(0), mask(w))
	return v
}

func two(k uint) *big.Int { return new(big.Int).Lsh(big.NewInt(1), k) }

func (ex *exec) stdModel(st *State, key string, fn *types.Func, recv Value, args []Value, call *ast.CallExpr) (Value, bool) {
	pos := call.Pos()
	T := func(i int) *Term { return args[i].(*Term) }
	switch key {
	case "math/bits.Add64", "math/bits.Add32":
		w := 64
		if key == "math/bits.Add32" {
			w = 32
		}
		x, y, c := T(0), T(1), T(2)
		if ex.mode == ModeBV {
			sum := BVAdd(BVAdd(x, y), c)
			co := BVLshr(BVOr(BVAnd(x, y), BVAnd(BVOr(x, y), BVNot(sum))), BVC64(w, int64(w-1)))
			return Tuple{sum, co}, true
		}
		ex.requireCarryBit(st, c, pos)
		tot := IntAdd(IntAdd(x, y), c)
		if _, hi, ok := Range(tot); ok && hi.Cmp(mask(w)) <= 0 {
			return Tuple{tot, IntC64(0)}, true
		}
		sum := ex.freshRanged("sum", w)
		co := ex.freshRanged("carry", 1)
		st.assume(Eq(IntAdd(sum, IntScale(co, two(uint(w)))), tot))
		return Tuple{sum, co}, true
	case "math/bits.Sub64", "math/bits.Sub32":
		w := 64
		if key == "math/bits.Sub32" {
			w = 32
		}
		x, y, b := T(0), T(1), T(2)
		if ex.mode == ModeBV {
			diff := BVSub(BVSub(x, y), b)
			bo := BVLshr(BVOr(BVAnd(BVNot(x), y), BVAnd(BVNot(BVXor(x, y)), diff)), BVC64(w, int64(w-1)))
			return Tuple{diff, bo}, true
		}
		ex.requireCarryBit(st, b, pos)
		tot := IntSub(IntSub(x, y), b)
		if lo, _, ok := Range(tot); ok && lo.Sign() >= 0 {
			return Tuple{tot, IntC64(0)}, true
		}
		diff := ex.freshRanged("diff", w)
		bo := ex.freshRanged("borrow", 1)
		st.assume(Eq(IntSub(diff, IntScale(bo, two(uint(w)))), tot))
		return Tuple{diff, bo}, true
	case "math/bits.Mul64":
		x, y := T(0), T(1)
		if ex.mode == ModeBV {
			p := BVMul(ZExt(128, x), ZExt(128, y))
			return Tuple{Extract(127, 64, p), Extract(63, 0, p)}, true
		}
		prod := IntMul(x, y)
		if y.IsConst() {
			ex.mulLog = append(ex.mulLog, mulRec{x, y})
		} else if x.IsConst() {
			ex.mulLog = append(ex.mulLog, mulRec{y, x})
		}
		if _, hi, ok := Range(prod); ok && hi.Cmp(mask(64)) <= 0 {
			return Tuple{IntC64(0), prod}, true
		}
		hi := Fresh("mulhi", IntSort)
		hmax := mask(64)
		if _, ph, ok := Range(prod); ok {
			hmax = new(big.Int).Rsh(ph, 64)
		}
		SetRange(hi, big.NewInt(0), hmax)
		lo := ex.freshRanged("mullo", 64)
		st.assume(Eq(IntAdd(IntScale(hi, two(64)), lo), prod))
		return Tuple{hi, lo}, true
	case "(encoding/binary.bigEndian).Uint16", "(encoding/binary.bigEndian).Uint32", "(encoding/binary.bigEndian).Uint64":
		n := map[string]int{"Uint16": 2, "Uint32": 4, "Uint64": 8}[fn.Name()]
		b := args[0].(*Slice)
		ex.runtimeCheck(st, "index", "binary."+fn.Name(), ex.le(ex.idxConst(int64(n)), b.Len), pos)
		var acc *Term
		for i := 0; i < n; i++ {
			by := ex.load(st, b.Base.with(Sel{Field: -1, Idx: ex.add(b.Off, ex.idxConst(int64(i)))}), pos).(*Term)
			if ex.mode == ModeBV {
				if acc == nil {
					acc = by
				} else {
					acc = Concat(acc, by)
				}
			} else {
				if acc == nil {
					acc = by
				} else {
					acc = IntAdd(IntScale(acc, big.NewInt(256)), by)
				}
			}
		}
		return acc, true
	case "(encoding/binary.bigEndian).PutUint16", "(encoding/binary.bigEndian).PutUint32", "(encoding/binary.bigEndian).PutUint64":
		n := map[string]int{"PutUint16": 2, "PutUint32": 4, "PutUint64": 8}[fn.Name()]
		b := args[0].(*Slice)
		v := T(1)
		ex.runtimeCheck(st, "index", "binary."+fn.Name(), ex.le(ex.idxConst(int64(n)), b.Len), pos)
		for i := 0; i < n; i++ {
			var by *Term
			sh := 8 * (n - 1 - i)
			if ex.mode == ModeBV {
				by = Extract(sh+7, sh, v)
			} else {
				by = IntMod(IntDiv(v, IntC(two(uint(sh)))), IntC64(256))
			}
			ex.store(st, b.Base.with(Sel{Field: -1, Idx: ex.add(b.Off, ex.idxConst(int64(i)))}), by, pos)
		}
		return nil, true
	case "crypto/subtle.ConstantTimeByteEq":
		t := fn.Type().(*types.Signature).Results().At(0).Type()
		return Ite(Eq(T(0), T(1)), ex.intConst(t, big.NewInt(1)), ex.intConst(t, big.NewInt(0))), true
	case "crypto/subtle.ConstantTimeCompare":
		x, y := args[0].(*Slice), args[1].(*Slice)
		t := fn.Type().(*types.Signature).Results().At(0).Type()
		one, zero := ex.intConst(t, big.NewInt(1)), ex.intConst(t, big.NewInt(0))
		eq := ex.rangeEqual(st, x, y, x.Len, pos)
		return Ite(And(Eq(x.Len, y.Len), eq), one, zero), true
	case "errors.New", "fmt.Errorf":
		return &ErrV{NonNil: True, Tag: ex.pos(pos)}, true
	case "fmt.Sprintf", "strconv.Itoa", "fmt.Sprint":
		return &Opaque{"string"}, true
	case "math.Pow":
		// only constant arguments are supported (the code uses math.Pow(2, float64(window)))
		return nil, false
	}
	_ = math.Pow
	return nil, false
}

func (ex *exec) requireCarryBit(st *State, c *Term, pos interface{}) {
	if _, hi, ok := Range(c); ok && hi.Cmp(big.NewInt(1)) <= 0 {
		return
	}
	ex.fail(call0, "bits.Add/Sub carry operand not known to be 0/1 in int mode")
}

var call0 = ast.NewIdent("").Pos()

// rangeEqual: x[0:n] == y[0:n] element-wise.
func (ex *exec) rangeEqual(st *State, x, y *Slice, n *Term, pos interface{}) *Term {
	p := call0
	if n.IsConst() && n.Val.Int64() <= expandLimit {
		var cs []*Term
		for i := int64(0); i < n.Val.Int64(); i++ {
			a := ex.load(st, x.Base.with(Sel{Field: -1, Idx: ex.add(x.Off, ex.idxConst(i))}), p).(*Term)
			b := ex.load(st, y.Base.with(Sel{Field: -1, Idx: ex.add(y.Off, ex.idxConst(i))}), p).(*Term)
			cs = append(cs, Eq(a, b))
		}
		return And(cs...)
	}
	if x.Base.Obj == nil || y.Base.Obj == nil {
		return Eq(n, ex.idxConst(0))
	}
	xa := ex.load(st, x.Base, p).(*Term)
	ya := ex.load(st, y.Base, p).(*Term)
	j := BoundVar("j!e", ex.idxSort())
	return Forall([]*Term{j}, Implies(And(ex.le(ex.idxConst(0), j), ex.lt(j, n)),
		Eq(Select(xa, ex.add(x.Off, j)), Select(ya, ex.add(y.Off, j)))))
}
