package main

// Constant-time (secret-independence) contracts for Go code: property C08.
//
// Contract clauses, on entries keyed `<function>#ct` in the guarded contract files:
//   secret p, q          the contents of slice/pointer parameters p, q (or the value of scalar parameters) are secret
//   declassify <source text of an expression> : <reason>
//                        the value of that expression is treated as public inside this function (verdicts the
//                        property allows, values that are public by a stated argument); every use is reported in the evidence
//   public_result        the results of the function are public whatever its arguments (verdict functions)
//
// Obligations (one per syntactic site, decided by the information-flow analysis below; no solver involved):
//   ct-branch   condition of if/for/switch, operand of && and ||
//   ct-index    index and slice bounds, make sizes
//   ct-call     receiver/arguments of a function that is variable-time in its operands (math/big, fmt, ...), of an
//               unresolved (dynamic) callee, or arguments passed to parameters that a callee with its own #ct contract
//               does not declare secret
//   ct-div      operands of / and % on variable operands (variable-latency division)
// A function with a #ct contract is analysed once with exactly the declared parameters secret; functions without
// one are analysed in the calling context (per taint vector, memoised), so that every function reachable from the
// roots along which secret data flows is covered, and nothing else.

import (
	"fmt"
	"go/ast"
	"go/constant"
	"go/token"
	"go/types"
	"sort"
	"strings"
)

type tv struct{ v, c bool } // v: the value itself (scalar, header) is secret; c: the contents reachable from it are secret

func (a tv) join(b tv) tv { return tv{a.v || b.v, a.c || b.c} }
func (a tv) any() bool    { return a.v || a.c }

type ctOblig struct {
	Name, ShapeName, Kind, Func, Pos, What string
	OK                          bool
}

type ctAnalysis struct {
	eng      *Engine
	obligs   map[string]*ctOblig // by name
	order    []string
	memo     map[string]*ctSummary
	inprog   map[string]bool
	declUsed map[string]string // "func: text" -> reason
	funcs    map[string]bool   // functions analysed
	notes    []string
	quiet    bool // evaluating an expression only to learn its taint (no obligations recorded)
}

type ctSummary struct {
	results []tv
	outC    []bool // per parameter (receiver first): contents secret after the call
}

type ctEnv struct {
	vars  map[types.Object]tv
	alias map[types.Object]types.Object // union-find parent for content classes
}

func newCtEnv() *ctEnv { return &ctEnv{vars: map[types.Object]tv{}, alias: map[types.Object]types.Object{}} }

func (e *ctEnv) clone() *ctEnv {
	n := newCtEnv()
	for k, v := range e.vars {
		n.vars[k] = v
	}
	for k, v := range e.alias {
		n.alias[k] = v
	}
	return n
}

func (e *ctEnv) root(o types.Object) types.Object {
	for {
		p, ok := e.alias[o]
		if !ok || p == o {
			return o
		}
		o = p
	}
}

func (e *ctEnv) get(o types.Object) tv {
	t := e.vars[o]
	r := e.root(o)
	if r != o {
		t.c = t.c || e.vars[r].c
	}
	return t
}

func (e *ctEnv) setV(o types.Object, t tv) {
	r := e.root(o)
	cur := e.vars[o]
	cur.v = t.v
	e.vars[o] = cur
	rc := e.vars[r]
	rc.c = rc.c || t.c
	e.vars[r] = rc
	if r != o {
		x := e.vars[o]
		x.c = x.c || t.c
		e.vars[o] = x
	}
}

func (e *ctEnv) taintC(o types.Object) {
	r := e.root(o)
	x := e.vars[r]
	x.c = true
	e.vars[r] = x
	y := e.vars[o]
	y.c = true
	e.vars[o] = y
}

func (e *ctEnv) union(a, b types.Object) {
	ra, rb := e.root(a), e.root(b)
	if ra == rb {
		return
	}
	c := e.vars[ra].c || e.vars[rb].c
	e.alias[ra] = rb
	x := e.vars[rb]
	x.c = c
	e.vars[rb] = x
}

// joinInto merges o into e; reports whether e changed.
func (e *ctEnv) joinInto(o *ctEnv) bool {
	ch := false
	for k, v := range o.vars {
		cur := e.vars[k]
		n := cur.join(v)
		if n != cur {
			e.vars[k] = n
			ch = true
		}
	}
	for k, v := range o.alias {
		if _, ok := e.alias[k]; !ok && e.root(k) != e.root(v) {
			e.union(k, v)
			ch = true
		}
	}
	return ch
}

type ctFrame struct {
	an      *ctAnalysis
	fi      *FuncInfo
	info    *types.Info
	ct      *Contract
	env     *ctEnv
	results []tv
	conts   []*ctEnv
	breaks  []*ctEnv
	dead    bool
	ctxName string
	consts  map[types.Object]bool // parameters bound to a boolean constant by the caller (the callee is specialised)
	loopDepth int
	verdictCond int // > 0 while the condition of an allowed verdict-shaped `if` is being evaluated
	retryLoops []bool // per enclosing loop: is it a retry loop (`for {}` drawing fresh randomness)
}

func NewCtAnalysis(eng *Engine) *ctAnalysis {
	return &ctAnalysis{eng: eng, obligs: map[string]*ctOblig{}, memo: map[string]*ctSummary{}, inprog: map[string]bool{}, declUsed: map[string]string{}, funcs: map[string]bool{}}
}

func (an *ctAnalysis) contract(key string) *Contract { return an.eng.contracts[key+"#ct"] }

// AnalyseRoot analyses a function that has a #ct contract with exactly the declared parameters secret.
func (an *ctAnalysis) AnalyseRoot(key string) error {
	fi := an.eng.funcs[key]
	if fi == nil {
		return fmt.Errorf("no function %s", key)
	}
	ct := an.contract(key)
	if ct == nil {
		return fmt.Errorf("no #ct contract for %s", key)
	}
	var in []tv
	names := paramNames(fi)
	for _, n := range names {
		if ct.Secret[n] {
			in = append(in, tv{v: true, c: true})
		} else {
			in = append(in, tv{})
		}
	}
	for n := range ct.Secret {
		found := false
		for _, m := range names {
			if m == n {
				found = true
			}
		}
		if !found {
			return fmt.Errorf("%s#ct: secret %s is not a parameter", key, n)
		}
	}
	an.analyse(fi, in)
	return nil
}

func paramNames(fi *FuncInfo) []string {
	var out []string
	if fi.Decl.Recv != nil {
		for _, f := range fi.Decl.Recv.List {
			if len(f.Names) == 0 {
				out = append(out, "_")
			}
			for _, n := range f.Names {
				out = append(out, n.Name)
			}
		}
	}
	for _, f := range fi.Decl.Type.Params.List {
		if len(f.Names) == 0 {
			out = append(out, "_")
		}
		for _, n := range f.Names {
			out = append(out, n.Name)
		}
	}
	return out
}

func paramObjs(fi *FuncInfo) []types.Object {
	var out []types.Object
	info := fi.Pkg.TypesInfo
	add := func(fl *ast.FieldList) {
		if fl == nil {
			return
		}
		for _, f := range fl.List {
			if len(f.Names) == 0 {
				out = append(out, nil)
			}
			for _, n := range f.Names {
				out = append(out, info.Defs[n])
			}
		}
	}
	add(fi.Decl.Recv)
	add(fi.Decl.Type.Params)
	return out
}

func scalarish(t types.Type) bool {
	switch u := t.Underlying().(type) {
	case *types.Basic:
		return u.Kind() != types.String && u.Kind() != types.UnsafePointer
	}
	return false
}

func (an *ctAnalysis) analyse(fi *FuncInfo, in []tv, consts ...map[int]bool) *ctSummary {
	var sb strings.Builder
	sb.WriteString(fi.Key)
	for _, t := range in {
		fmt.Fprintf(&sb, "|%v%v", t.v, t.c)
	}
	var cmap map[int]bool
	if len(consts) > 0 {
		cmap = consts[0]
		var ks []int
		for k := range cmap {
			ks = append(ks, k)
		}
		sort.Ints(ks)
		for _, k := range ks {
			fmt.Fprintf(&sb, "|c%d=%v", k, cmap[k])
		}
	}
	key := sb.String()
	if s, ok := an.memo[key]; ok {
		return s
	}
	nres := fi.Obj.Type().(*types.Signature).Results().Len()
	if an.inprog[key] || fi.Decl.Body == nil {
		s := &ctSummary{results: make([]tv, nres), outC: make([]bool, len(in))}
		anySecret := false
		for _, t := range in {
			anySecret = anySecret || t.any()
		}
		for i := range s.results {
			s.results[i] = tv{anySecret, anySecret}
		}
		for i := range s.outC {
			s.outC[i] = anySecret
		}
		return s
	}
	an.inprog[key] = true
	defer delete(an.inprog, key)
	an.funcs[fi.Key] = true
	fr := &ctFrame{an: an, fi: fi, info: fi.Pkg.TypesInfo, ct: an.contract(fi.Key), env: newCtEnv(), results: make([]tv, nres)}
	objs := paramObjs(fi)
	fr.consts = map[types.Object]bool{}
	for i, o := range objs {
		if o == nil || i >= len(in) {
			continue
		}
		if cv, ok := cmap[i]; ok {
			fr.consts[o] = cv
		}
		t := in[i]
		if !scalarish(o.Type()) {
			t.v = false // headers (pointer value, length, capacity) are public; only the contents are secret
			if _, isStruct := o.Type().Underlying().(*types.Struct); isStruct {
				t.v = t.c
			}
			if _, isArr := o.Type().Underlying().(*types.Array); isArr {
				t.v = t.c
			}
		} else {
			t.c = false
		}
		fr.env.vars[o] = t
	}
	// named results start public
	fr.block(fi.Decl.Body)
	s := &ctSummary{results: fr.results, outC: make([]bool, len(in))}
	for i, o := range objs {
		if o != nil && i < len(in) {
			s.outC[i] = fr.env.get(o).c
		}
	}
	// named results returned by a bare return are folded in by stmt(Return)
	an.memo[key] = s
	return s
}

// ---------- obligations ----------

func (fr *ctFrame) pos(p token.Pos) string {
	ps := fr.fi.Pkg.Fset.Position(p)
	f := ps.Filename
	if i := strings.LastIndex(f, "/"); i >= 0 {
		f = f[i+1:]
	}
	return fmt.Sprintf("%s:%d", f, ps.Line)
}

func (fr *ctFrame) text(n ast.Node) string {
	s := fr.an.eng.nodeText(fr.fi.Pkg.Fset, n)
	s = strings.Join(strings.Fields(s), " ")
	return s
}

func (fr *ctFrame) oblige(kind string, n ast.Node, ok bool, what string) {
	if fr.an.quiet {
		return
	}
	txt := fr.text(n)
	if len(txt) > 70 {
		txt = txt[:70]
	}
	name := fmt.Sprintf("%s/%s[%s]", fr.fi.Key, kind, txt)
	o := fr.an.obligs[name]
	if o == nil {
		// a second name that does not depend on the names of locals: callee (for calls) and the shape of the expression
		shape := ""
		if e, ok := n.(ast.Expr); ok {
			shape = fr.shapeOf(e, true)
			if c, ok := unparen(e).(*ast.CallExpr); ok {
				var fn *types.Func
				switch f := unparen(c.Fun).(type) {
				case *ast.Ident:
					fn, _ = fr.info.Uses[f].(*types.Func)
				case *ast.SelectorExpr:
					if sel, ok := fr.info.Selections[f]; ok {
						fn, _ = sel.Obj().(*types.Func)
					} else {
						fn, _ = fr.info.Uses[f.Sel].(*types.Func)
					}
				}
				if fn != nil {
					shape = funcKey(fn) + "|" + shape
				}
			}
		}
		o = &ctOblig{Name: name, ShapeName: fmt.Sprintf("%s/%s~[%s]", fr.fi.Key, kind, shape), Kind: kind, Func: fr.fi.Key, Pos: fr.pos(n.Pos()), What: what, OK: true}
		fr.an.obligs[name] = o
		fr.an.order = append(fr.an.order, name)
	}
	if !ok {
		o.OK = false
		o.What = what
	}
}

func (fr *ctFrame) declassified(e ast.Expr) bool {
	if fr.ct == nil {
		return false
	}
	txt := fr.text(e)
	var shape string
	for _, d := range fr.ct.DeclassText {
		i := strings.LastIndex(d, " : ")
		dt, reason := d, ""
		if i >= 0 {
			dt, reason = strings.TrimSpace(d[:i]), strings.TrimSpace(d[i+3:])
		}
		if strings.Join(strings.Fields(dt), " ") == txt {
			fr.an.declUsed[fr.fi.Key+": "+txt] = reason
			return true
		}
		// the same expression up to a consistent renaming of local variables and parameters
		de, err := parseSpecExpr(dt)
		if err != nil {
			continue
		}
		// only for expressions built around a call to a package-level function (e.g. a ConstantTimeCmp verdict): small
		// expressions over locals alone (`acc == 0`, `&s`, `x.Bytes()`) must match literally, or a renaming could declassify anything
		if !fr.hasPkgFuncCall(de) && !fr.moduleMethodCall(e) {
			continue
		}
		if shape == "" {
			shape = fr.shapeOf(e, true)
		}
		if fr.shapeOf(de, false) == shape {
			fr.an.declUsed[fr.fi.Key+": "+txt] = reason + " (matched up to renaming of locals: contract text `" + dt + "`)"
			return true
		}
	}
	return false
}

// moduleMethodCall: the source expression is a call x.M(...) of a method declared in this module on a local variable x
// (e.g. pub.Bytes() with pub an *internal.SM2Point). Renaming the local then keeps the declassification; methods of
// foreign types (x.Bytes() on a *big.Int) still have to match literally.
func (fr *ctFrame) moduleMethodCall(e ast.Expr) bool {
	c, ok := unparen(e).(*ast.CallExpr)
	if !ok {
		return false
	}
	sel, ok := c.Fun.(*ast.SelectorExpr)
	if !ok {
		return false
	}
	if _, ok := unparen(sel.X).(*ast.Ident); !ok {
		return false
	}
	s, ok := fr.info.Selections[sel]
	if !ok {
		return false
	}
	fn, ok := s.Obj().(*types.Func)
	if !ok || fn.Pkg() == nil {
		return false
	}
	return strings.HasPrefix(fn.Pkg().Path(), "github.com/bilibili/smgo")
}

// hasPkgFuncCall: does the (contract text) expression call a package-level function (pkg.F(...) or F(...))?
func (fr *ctFrame) hasPkgFuncCall(e ast.Expr) bool {
	found := false
	ast.Inspect(e, func(n ast.Node) bool {
		c, ok := n.(*ast.CallExpr)
		if !ok {
			return true
		}
		switch f := c.Fun.(type) {
		case *ast.Ident:
			if _, ok := fr.fi.Pkg.Types.Scope().Lookup(f.Name).(*types.Func); ok {
				found = true
			}
		case *ast.SelectorExpr:
			if id, ok := f.X.(*ast.Ident); ok {
				for _, imp := range fr.fi.Pkg.Types.Imports() {
					if imp.Name() == id.Name {
						if _, ok := imp.Scope().Lookup(f.Sel.Name).(*types.Func); ok {
							found = true
						}
					}
				}
			}
		}
		return true
	})
	return found
}

// shapeOf prints an expression with every local variable/parameter replaced by its first-occurrence number, so that two
// expressions that differ only by a consistent renaming of locals have the same shape. typed: identifiers are resolved
// through the type checker (source expressions); otherwise (contract text) a bare identifier is a local unless it names
// something in the package scope, the universe or an imported package.
func (fr *ctFrame) shapeOf(e ast.Expr, typed bool) string {
	num := map[string]int{}
	isLocal := func(id *ast.Ident) bool {
		if typed {
			o := fr.info.Uses[id]
			if o == nil {
				o = fr.info.Defs[id]
			}
			v, ok := o.(*types.Var)
			return ok && !v.IsField() && !isPkgLevel(v)
		}
		if fr.fi.Pkg.Types.Scope().Lookup(id.Name) != nil || types.Universe.Lookup(id.Name) != nil {
			return false
		}
		for _, imp := range fr.fi.Pkg.Types.Imports() {
			if imp.Name() == id.Name {
				return false
			}
		}
		return true
	}
	var sb strings.Builder
	var rec func(n ast.Expr)
	rec = func(n ast.Expr) {
		switch x := n.(type) {
		case nil:
		case *ast.Ident:
			if isLocal(x) {
				k, ok := num[x.Name]
				if !ok {
					k = len(num) + 1
					num[x.Name] = k
				}
				fmt.Fprintf(&sb, "$%d", k)
			} else {
				sb.WriteString(x.Name)
			}
		case *ast.BasicLit:
			sb.WriteString(x.Value)
		case *ast.ParenExpr:
			sb.WriteString("(")
			rec(x.X)
			sb.WriteString(")")
		case *ast.SelectorExpr:
			rec(x.X)
			sb.WriteString("." + x.Sel.Name)
		case *ast.IndexExpr:
			rec(x.X)
			sb.WriteString("[")
			rec(x.Index)
			sb.WriteString("]")
		case *ast.SliceExpr:
			rec(x.X)
			sb.WriteString("[")
			rec(x.Low)
			sb.WriteString(":")
			rec(x.High)
			if x.Max != nil {
				sb.WriteString(":")
				rec(x.Max)
			}
			sb.WriteString("]")
		case *ast.StarExpr:
			sb.WriteString("*")
			rec(x.X)
		case *ast.UnaryExpr:
			sb.WriteString(x.Op.String())
			rec(x.X)
		case *ast.BinaryExpr:
			rec(x.X)
			sb.WriteString(" " + x.Op.String() + " ")
			rec(x.Y)
		case *ast.CallExpr:
			rec(x.Fun)
			sb.WriteString("(")
			for i, a := range x.Args {
				if i > 0 {
					sb.WriteString(", ")
				}
				rec(a)
			}
			sb.WriteString(")")
		default:
			fmt.Fprintf(&sb, "<%T>", n)
		}
	}
	rec(e)
	return sb.String()
}

// ---------- expressions ----------

func (fr *ctFrame) objOf(e ast.Expr) types.Object {
	switch x := unparen(e).(type) {
	case *ast.Ident:
		if o := fr.info.Uses[x]; o != nil {
			return o
		}
		return fr.info.Defs[x]
	}
	return nil
}

// rootObj finds the variable an lvalue/addressable expression is rooted in.
func (fr *ctFrame) rootObj(e ast.Expr) types.Object {
	for {
		switch x := unparen(e).(type) {
		case *ast.Ident:
			return fr.objOf(x)
		case *ast.SelectorExpr:
			if _, ok := fr.info.Selections[x]; ok {
				e = x.X
				continue
			}
			return fr.objOf(x.Sel) // package-qualified identifier
		case *ast.IndexExpr:
			e = x.X
		case *ast.SliceExpr:
			e = x.X
		case *ast.StarExpr:
			e = x.X
		case *ast.UnaryExpr:
			e = x.X
		case *ast.CallExpr:
			// conversion or call: (*T)(p), f(x)
			if tvv, ok := fr.info.Types[x.Fun]; ok && tvv.IsType() && len(x.Args) == 1 {
				e = x.Args[0]
				continue
			}
			return nil
		default:
			return nil
		}
	}
}

func (fr *ctFrame) eval(e ast.Expr) tv {
	if e == nil {
		return tv{}
	}
	t := fr.eval1(e)
	if t.any() && fr.declassified(e) {
		return tv{}
	}
	return t
}

func (fr *ctFrame) eval1(e ast.Expr) tv {
	if tvv, ok := fr.info.Types[e]; ok && tvv.Value != nil {
		return tv{} // constant
	}
	switch x := e.(type) {
	case *ast.ParenExpr:
		return fr.eval(x.X)
	case *ast.BasicLit, *ast.FuncLit:
		return tv{}
	case *ast.Ident:
		o := fr.objOf(x)
		if o == nil {
			return tv{}
		}
		if _, ok := o.(*types.Var); !ok {
			return tv{}
		}
		return fr.env.get(o)
	case *ast.BinaryExpr:
		a, b := fr.eval(x.X), fr.eval(x.Y)
		if x.Op == token.LAND || x.Op == token.LOR {
			// short circuit: the right operand is evaluated depending on the left one
			fr.oblige("ct-branch", x.X, !a.v || fr.verdictCond > 0, "left operand of "+x.Op.String()+" decides whether the right operand is evaluated and depends on a secret")
		}
		if x.Op == token.QUO || x.Op == token.REM {
			if tb, ok := fr.info.Types[x.Y]; !ok || tb.Value == nil {
				fr.oblige("ct-div", x, !(a.v || b.v), "division with a secret operand (variable latency)")
			} else {
				fr.oblige("ct-div", x, !a.v || isPow2Const(tb), "division of a secret by a constant that is not a power of two")
			}
		}
		return tv{v: a.v || b.v}
	case *ast.UnaryExpr:
		if x.Op == token.AND {
			t := fr.eval(x.X)
			return tv{v: false, c: t.v || t.c}
		}
		if x.Op == token.ARROW {
			return tv{}
		}
		return fr.eval(x.X)
	case *ast.StarExpr:
		t := fr.eval(x.X)
		return tv{v: t.c, c: t.c}
	case *ast.IndexExpr:
		if tvv, ok := fr.info.Types[x.X]; ok && tvv.IsType() {
			return tv{} // generic instantiation
		}
		b := fr.eval(x.X)
		i := fr.eval(x.Index)
		if _, isMap := fr.info.TypeOf(x.X).Underlying().(*types.Map); isMap {
			fr.oblige("ct-index", x, !i.v && !b.any(), "map access with secret key or contents")
			return tv{v: b.c, c: b.c}
		}
		fr.oblige("ct-index", x, !i.v, "index depends on a secret")
		return tv{v: b.c || b.v && isArrayVal(fr.info.TypeOf(x.X)), c: b.c}
	case *ast.SliceExpr:
		b := fr.eval(x.X)
		for _, ie := range []ast.Expr{x.Low, x.High, x.Max} {
			if ie != nil {
				fr.oblige("ct-index", ie, !fr.eval(ie).v, "slice bound depends on a secret")
			}
		}
		c := b.c || (isArrayVal(fr.info.TypeOf(x.X)) && b.v)
		return tv{v: false, c: c}
	case *ast.SelectorExpr:
		if sel, ok := fr.info.Selections[x]; ok {
			b := fr.eval(x.X)
			if sel.Kind() == types.MethodVal {
				return tv{}
			}
			if _, isPtr := fr.info.TypeOf(x.X).Underlying().(*types.Pointer); isPtr {
				return tv{v: b.c, c: b.c}
			}
			return tv{v: b.v || b.c, c: b.c}
		}
		// package-qualified
		o := fr.objOf(x.Sel)
		if v, ok := o.(*types.Var); ok {
			return fr.env.get(v)
		}
		return tv{}
	case *ast.TypeAssertExpr:
		return fr.eval(x.X)
	case *ast.CompositeLit:
		var t tv
		for _, el := range x.Elts {
			if kv, ok := el.(*ast.KeyValueExpr); ok {
				el = kv.Value
			}
			et := fr.eval(el)
			t.c = t.c || et.v || et.c
		}
		t.v = t.c
		return t
	case *ast.CallExpr:
		rs := fr.call(x)
		if len(rs) == 0 {
			return tv{}
		}
		return rs[0]
	case *ast.KeyValueExpr:
		return fr.eval(x.Value)
	}
	return tv{}
}

func isArrayVal(t types.Type) bool {
	if t == nil {
		return false
	}
	_, ok := t.Underlying().(*types.Array)
	return ok
}

func isPow2Const(tvv types.TypeAndValue) bool {
	s := tvv.Value.ExactString()
	var n uint64
	if _, err := fmt.Sscan(s, &n); err != nil || n == 0 {
		return false
	}
	return n&(n-1) == 0
}

// ---------- calls ----------

var ctSafePkgs = map[string]bool{"math/bits": true, "encoding/binary": true, "crypto/subtle": true, "unsafe": true}

// variable-time in the values of their operands
var ctVarTimePkgs = map[string]bool{"math/big": true, "fmt": true, "strings": true, "bytes": true, "sort": true, "strconv": true, "encoding/hex": true, "errors": true, "crypto/elliptic": true}

func (fr *ctFrame) call(call *ast.CallExpr) []tv {
	info := fr.info
	// conversion
	if tvv, ok := info.Types[call.Fun]; ok && tvv.IsType() {
		t := fr.eval(call.Args[0])
		return []tv{t}
	}
	argT := make([]tv, len(call.Args))
	for i, a := range call.Args {
		argT[i] = fr.eval(a)
	}
	// builtins
	if id, ok := unparen(call.Fun).(*ast.Ident); ok {
		if _, isB := info.Uses[id].(*types.Builtin); isB {
			switch id.Name {
			case "len", "cap":
				t := argT[0]
				if isArrayVal(info.TypeOf(call.Args[0])) {
					return []tv{{}}
				}
				return []tv{{v: t.v}}
			case "copy":
				if argT[1].c {
					if o := fr.rootObj(call.Args[0]); o != nil {
						fr.env.taintC(o)
					}
				}
				return []tv{{}}
			case "append":
				t := argT[0]
				for _, a := range argT[1:] {
					t.c = t.c || a.v || a.c
				}
				return []tv{{v: t.v, c: t.c}}
			case "make":
				for i, a := range call.Args[1:] {
					fr.oblige("ct-index", a, !argT[i+1].v, "allocation size depends on a secret")
				}
				return []tv{{}}
			case "new":
				return []tv{{}}
			case "panic", "print", "println":
				for i, a := range call.Args {
					fr.oblige("ct-call", a, !argT[i].any(), "secret passed to "+id.Name)
				}
				return nil
			case "min", "max":
				var t tv
				for _, a := range argT {
					t.v = t.v || a.v
				}
				return []tv{t}
			}
			return []tv{{}}
		}
	}
	// callee
	var fn *types.Func
	var recvExpr ast.Expr
	switch f := unparen(call.Fun).(type) {
	case *ast.Ident:
		fn, _ = info.Uses[f].(*types.Func)
	case *ast.SelectorExpr:
		if sel, ok := info.Selections[f]; ok {
			fn, _ = sel.Obj().(*types.Func)
			recvExpr = f.X
		} else {
			fn, _ = info.Uses[f.Sel].(*types.Func)
		}
	}
	var recvT tv
	if recvExpr != nil {
		recvT = fr.eval(recvExpr)
	}
	all := append([]tv{}, argT...)
	allE := append([]ast.Expr{}, call.Args...)
	if recvExpr != nil {
		all = append([]tv{recvT}, all...)
		allE = append([]ast.Expr{recvExpr}, allE...)
	}
	anySecret := false
	for _, t := range all {
		anySecret = anySecret || t.any()
	}
	nres := 1
	if sig, ok := info.TypeOf(call.Fun).(*types.Signature); ok {
		nres = sig.Results().Len()
	}
	mk := func(t tv) []tv {
		out := make([]tv, nres)
		for i := range out {
			out[i] = t
		}
		return out
	}
	taintPtrArgs := func() {
		for i, e := range allE {
			_ = i
			if o := fr.rootObj(e); o != nil && !scalarish(fr.info.TypeOf(e)) {
				fr.env.taintC(o)
			}
		}
	}
	if fn == nil {
		// dynamic call (function value): sound only when nothing secret is passed
		fr.oblige("ct-call", call, !anySecret, "secret passed to a dynamic callee")
		if anySecret {
			taintPtrArgs()
		}
		return mk(tv{anySecret, anySecret})
	}
	key := funcKey(fn)
	pkg := ""
	if fn.Pkg() != nil {
		pkg = fn.Pkg().Path()
	}
	// interface method
	if recvExpr != nil {
		if _, isIface := info.TypeOf(recvExpr).Underlying().(*types.Interface); isIface {
			if fn.Name() == "Read" && len(call.Args) == 1 {
				if o := fr.rootObj(call.Args[0]); o != nil {
					fr.env.taintC(o) // output of a random source
				}
				return mk(tv{})
			}
			fr.oblige("ct-call", call, !anySecret, "secret passed to an interface method ("+fn.Name()+")")
			if anySecret {
				taintPtrArgs()
			}
			return mk(tv{anySecret, anySecret})
		}
	}
	switch {
	case key == "io.ReadFull" || key == "io.ReadAtLeast":
		if o := fr.rootObj(call.Args[1]); o != nil {
			fr.env.taintC(o) // secret source: output of the random reader
		}
		return mk(tv{})
	case ctSafePkgs[pkg]:
		var t tv
		for _, a := range all {
			t.v = t.v || a.v || a.c
		}
		// PutUintNN(b, v) and similar write their first argument
		if anySecret && len(allE) > 0 {
			if o := fr.rootObj(allE[0]); o != nil && !scalarish(fr.info.TypeOf(allE[0])) {
				fr.env.taintC(o)
			}
		}
		return mk(tv{v: t.v, c: t.v})
	case ctVarTimePkgs[pkg]:
		txt := key
		fr.oblige("ct-call", call, !anySecret, "secret operand of "+txt+", which is variable-time in the values of its operands")
		if anySecret {
			if recvExpr != nil {
				if o := fr.rootObj(recvExpr); o != nil {
					fr.env.taintC(o)
				}
			}
		}
		return mk(tv{anySecret, anySecret})
	}
	fi := fr.an.eng.funcs[key]
	if fi == nil || fi.Decl.Body == nil {
		fr.oblige("ct-call", call, !anySecret, "secret passed to "+key+", which has no body or model here")
		if anySecret {
			taintPtrArgs()
		}
		return mk(tv{anySecret, anySecret})
	}
	// callee with its own #ct contract: modular
	if ct := fr.an.contract(key); ct != nil && (len(ct.Secret) > 0 || ct.PublicResult || len(ct.PublicResults) > 0) {
		names := paramNames(fi)
		for i, t := range all {
			if i < len(names) && !ct.Secret[names[i]] {
				fr.oblige("ct-call", allE[i], !t.any(), "secret passed to parameter "+names[i]+" of "+key+", which its contract does not declare secret")
			}
		}
		if anySecret {
			written := fr.an.writtenParams(fi)
			for i, e := range allE {
				if i < len(written) && written[i] {
					if o := fr.rootObj(e); o != nil {
						fr.env.taintC(o)
					}
				}
			}
		}
		if ct.PublicResult {
			return mk(tv{})
		}
		out := mk(tv{anySecret, anySecret})
		for i := range out {
			if ct.PublicResults[i] {
				out[i] = tv{}
			}
		}
		return out
	}
	// analyse in context
	in := make([]tv, len(all))
	copy(in, all)
	cm := map[int]bool{}
	for i, e := range allE {
		if tvv, ok := info.Types[e]; ok && tvv.Value != nil && tvv.Value.Kind() == constant.Bool {
			cm[i] = constant.BoolVal(tvv.Value)
		} else if id, ok := unparen(e).(*ast.Ident); ok {
			if cv, ok2 := fr.consts[fr.objOf(id)]; ok2 {
				cm[i] = cv
			}
		}
	}
	s := fr.an.analyse(fi, in, cm)
	for i, e := range allE {
		if i < len(s.outC) && s.outC[i] && !all[i].c {
			if o := fr.rootObj(e); o != nil {
				fr.env.taintC(o)
			}
		}
	}
	out := make([]tv, nres)
	copy(out, s.results)
	return out
}

// writtenParams: which parameters' contents a function may write (syntactic, transitive through in-repo callees).
func (an *ctAnalysis) writtenParams(fi *FuncInfo) []bool {
	objs := paramObjs(fi)
	out := make([]bool, len(objs))
	idx := map[types.Object]int{}
	for i, o := range objs {
		if o != nil {
			idx[o] = i
		}
	}
	fr := &ctFrame{an: an, fi: fi, info: fi.Pkg.TypesInfo, env: newCtEnv()}
	mark := func(e ast.Expr) {
		if o := fr.rootObj(e); o != nil {
			if i, ok := idx[o]; ok {
				out[i] = true
			}
		}
	}
	if fi.Decl.Body == nil {
		for i := range out {
			out[i] = true
		}
		return out
	}
	ast.Inspect(fi.Decl.Body, func(n ast.Node) bool {
		switch x := n.(type) {
		case *ast.AssignStmt:
			for _, l := range x.Lhs {
				if _, isId := unparen(l).(*ast.Ident); !isId {
					mark(l)
				}
			}
		case *ast.IncDecStmt:
			if _, isId := unparen(x.X).(*ast.Ident); !isId {
				mark(x.X)
			}
		case *ast.CallExpr:
			// conservatively: any pointer-ish argument of any call may be written
			if sel, ok := unparen(x.Fun).(*ast.SelectorExpr); ok {
				if _, isSel := fr.info.Selections[sel]; isSel {
					mark(sel.X)
				}
			}
			for _, a := range x.Args {
				if t := fr.info.TypeOf(a); t != nil && !scalarish(t) {
					mark(a)
				}
			}
		}
		return true
	})
	return out
}

// ---------- statements ----------

func (fr *ctFrame) block(b *ast.BlockStmt) {
	if b == nil {
		return
	}
	for _, s := range b.List {
		fr.stmt(s)
	}
}

func (fr *ctFrame) assignTo(l ast.Expr, t tv, rhs ast.Expr) {
	if id, ok := unparen(l).(*ast.Ident); ok {
		if id.Name == "_" {
			return
		}
		o := fr.objOf(id)
		if o == nil {
			return
		}
		if !scalarish(o.Type()) {
			// pointer-like or aggregate: remember aliasing with the source
			if rhs != nil {
				if ro := fr.rootObj(rhs); ro != nil && ro != o && aliasing(rhs, fr.info.TypeOf(rhs)) {
					fr.env.union(o, ro)
				}
			}
			cur := fr.env.vars[o]
			cur.v = t.v
			fr.env.vars[o] = cur
			if t.c {
				fr.env.taintC(o)
			}
			return
		}
		fr.env.setV(o, tv{v: t.v})
		return
	}
	// store through an lvalue: evaluate index sinks, taint the root's contents
	switch x := unparen(l).(type) {
	case *ast.IndexExpr:
		fr.oblige("ct-index", x, !fr.eval(x.Index).v, "index of a store depends on a secret")
	}
	if t.any() {
		if o := fr.rootObj(l); o != nil {
			fr.env.taintC(o)
			if _, isArr := o.Type().Underlying().(*types.Array); isArr {
				cur := fr.env.vars[o]
				cur.v = true
				fr.env.vars[o] = cur
			}
			if _, isSt := o.Type().Underlying().(*types.Struct); isSt {
				cur := fr.env.vars[o]
				cur.v = true
				fr.env.vars[o] = cur
			}
		}
	}
}

// aliasing: does assigning this expression create a second name for the same contents?
func aliasing(e ast.Expr, t types.Type) bool {
	if t == nil {
		return false
	}
	switch t.Underlying().(type) {
	case *types.Pointer, *types.Slice, *types.Map:
		return true
	}
	return false
}

func (fr *ctFrame) stmt(s ast.Stmt) {
	switch x := s.(type) {
	case *ast.BlockStmt:
		fr.block(x)
	case *ast.ExprStmt:
		fr.eval(x.X)
	case *ast.DeclStmt:
		gd, ok := x.Decl.(*ast.GenDecl)
		if !ok {
			return
		}
		for _, sp := range gd.Specs {
			vs, ok := sp.(*ast.ValueSpec)
			if !ok {
				continue
			}
			for i, n := range vs.Names {
				if i < len(vs.Values) {
					fr.assignTo(n, fr.eval(vs.Values[i]), vs.Values[i])
				} else if len(vs.Values) == 1 && len(vs.Names) > 1 {
					rs := fr.call1(vs.Values[0])
					if i < len(rs) {
						fr.assignTo(n, rs[i], nil)
					}
				} else {
					if o := fr.info.Defs[n]; o != nil {
						fr.env.vars[o] = tv{}
					}
				}
			}
		}
	case *ast.AssignStmt:
		if len(x.Rhs) == 1 && len(x.Lhs) > 1 {
			rs := fr.call1(x.Rhs[0])
			for i, l := range x.Lhs {
				t := tv{}
				if i < len(rs) {
					t = rs[i]
				}
				fr.assignTo(l, t, nil)
			}
			return
		}
		for i, l := range x.Lhs {
			t := fr.eval(x.Rhs[i])
			if x.Tok != token.ASSIGN && x.Tok != token.DEFINE {
				t = t.join(fr.eval(l))
				if x.Tok == token.QUO_ASSIGN || x.Tok == token.REM_ASSIGN {
					fr.oblige("ct-div", x, !t.v, "division with a secret operand")
				}
			}
			fr.assignTo(l, t, x.Rhs[i])
		}
	case *ast.IncDecStmt:
		fr.eval(x.X)
	case *ast.ReturnStmt:
		if len(x.Results) == 0 {
			// named results
			if fr.fi.Decl.Type.Results != nil {
				i := 0
				for _, f := range fr.fi.Decl.Type.Results.List {
					for _, n := range f.Names {
						if o := fr.info.Defs[n]; o != nil && i < len(fr.results) {
							fr.results[i] = fr.results[i].join(fr.env.get(o))
						}
						i++
					}
				}
			}
		} else if len(x.Results) == 1 && len(fr.results) > 1 {
			rs := fr.call1(x.Results[0])
			for i := range fr.results {
				if i < len(rs) {
					fr.results[i] = fr.results[i].join(rs[i])
				}
			}
		} else {
			for i, r := range x.Results {
				if i < len(fr.results) {
					fr.results[i] = fr.results[i].join(fr.eval(r))
				}
			}
		}
	case *ast.IfStmt:
		if x.Init != nil {
			fr.stmt(x.Init)
		}
		if cv, known := fr.constCond(x.Cond); known {
			if cv {
				fr.block(x.Body)
			} else if x.Else != nil {
				fr.stmt(x.Else)
			}
			return
		}
		// is this `if` shaped like a verdict the contract allows? (decided on the shape alone, before the condition is evaluated,
		// so that the short-circuit operands inside the condition belong to the same verdict)
		shapeOK := false
		if fr.ct != nil && fr.ct.Verdicts && fr.loopDepth == 0 && fr.verdictShaped(x) {
			shapeOK = true
		}
		if fr.ct != nil && fr.ct.RetryVerdicts && len(fr.retryLoops) > 0 && fr.retryLoops[len(fr.retryLoops)-1] && x.Else == nil && x.Init == nil && len(x.Body.List) == 1 {
			if br, ok := x.Body.List[0].(*ast.BranchStmt); ok && br.Tok == token.CONTINUE && br.Label == nil {
				shapeOK = true
			}
		}
		if shapeOK {
			fr.verdictCond++
		}
		c := fr.eval(x.Cond)
		if shapeOK {
			fr.verdictCond--
		}
		if c.v && fr.ct != nil && fr.ct.Verdicts && fr.loopDepth == 0 && fr.verdictShaped(x) {
			// the function's accept/reject verdict: outside every loop, and each arm only returns public values
			fr.an.declUsed[fr.fi.Key+": verdict branch `"+fr.text(x.Cond)+"`"] = "verdict-shaped (clause `verdicts`): not inside a loop, every arm only returns values that do not depend on a secret"
			c.v = false
		}
		if c.v && fr.ct != nil && fr.ct.RetryVerdicts && len(fr.retryLoops) > 0 && fr.retryLoops[len(fr.retryLoops)-1] && x.Else == nil && x.Init == nil && len(x.Body.List) == 1 {
			if br, ok := x.Body.List[0].(*ast.BranchStmt); ok && br.Tok == token.CONTINUE && br.Label == nil {
				// rejection of the current candidate in a retry loop: the candidate is discarded and fresh randomness is drawn
				fr.an.declUsed[fr.fi.Key+": rejection `"+fr.text(x.Cond)+"`"] = "candidate rejection in a retry loop (clause `retry_verdicts`): the body is a bare `continue` of a `for {}` loop that draws fresh randomness"
				c.v = false
			}
		}
		fr.oblige("ct-branch", x.Cond, !c.v, "branch condition depends on a secret")
		base := fr.env
		fr.env = base.clone()
		fr.block(x.Body)
		thenEnv := fr.env
		fr.env = base.clone()
		if x.Else != nil {
			fr.stmt(x.Else)
		}
		fr.env.joinInto(thenEnv)
	case *ast.ForStmt:
		if x.Init != nil {
			fr.stmt(x.Init)
		}
		// a retry loop: `for { ... }` whose body draws fresh randomness (rejection sampling)
		isRetry := false
		if x.Init == nil && x.Cond == nil && x.Post == nil {
			ast.Inspect(x.Body, func(n ast.Node) bool {
				if c, ok := n.(*ast.CallExpr); ok {
					if sel, ok := unparen(c.Fun).(*ast.SelectorExpr); ok {
						if fn, ok := fr.info.Uses[sel.Sel].(*types.Func); ok && (funcKey(fn) == "io.ReadFull" || funcKey(fn) == "io.ReadAtLeast") {
							isRetry = true
						}
					}
				}
				return true
			})
		}
		fr.retryLoops = append(fr.retryLoops, isRetry)
		defer func() { fr.retryLoops = fr.retryLoops[:len(fr.retryLoops)-1] }()
		fr.loop(func() {
			if x.Cond != nil {
				c := fr.eval(x.Cond)
				fr.oblige("ct-branch", x.Cond, !c.v, "loop condition depends on a secret")
			}
			fr.block(x.Body)
		}, func() {
			if x.Post != nil {
				fr.stmt(x.Post)
			}
		})
	case *ast.RangeStmt:
		t := fr.eval(x.X)
		fr.retryLoops = append(fr.retryLoops, false)
		defer func() { fr.retryLoops = fr.retryLoops[:len(fr.retryLoops)-1] }()
		fr.loop(func() {
			if x.Key != nil {
				fr.assignTo(x.Key, tv{v: t.v && !isArrayVal(fr.info.TypeOf(x.X)) && scalarish(fr.info.TypeOf(x.X))}, nil)
			}
			if x.Value != nil {
				fr.assignTo(x.Value, tv{v: t.c || (t.v && isArrayVal(fr.info.TypeOf(x.X))), c: t.c}, nil)
			}
			fr.block(x.Body)
		}, func() {})
	case *ast.SwitchStmt:
		if x.Init != nil {
			fr.stmt(x.Init)
		}
		var tag tv
		if x.Tag != nil {
			tag = fr.eval(x.Tag)
			fr.oblige("ct-branch", x.Tag, !tag.v, "switch operand depends on a secret")
		}
		base := fr.env
		acc := base.clone()
		for _, cc := range x.Body.List {
			c := cc.(*ast.CaseClause)
			fr.env = base.clone()
			for _, e := range c.List {
				t := fr.eval(e)
				fr.oblige("ct-branch", e, !t.v, "case expression depends on a secret")
			}
			for _, st := range c.Body {
				fr.stmt(st)
			}
			acc.joinInto(fr.env)
		}
		fr.env = acc
	case *ast.TypeSwitchStmt:
		base := fr.env
		acc := base.clone()
		for _, cc := range x.Body.List {
			c := cc.(*ast.CaseClause)
			fr.env = base.clone()
			for _, st := range c.Body {
				fr.stmt(st)
			}
			acc.joinInto(fr.env)
		}
		fr.env = acc
	case *ast.LabeledStmt:
		fr.stmt(x.Stmt)
	case *ast.BranchStmt:
		switch x.Tok {
		case token.CONTINUE:
			fr.conts = append(fr.conts, fr.env.clone())
		case token.BREAK:
			fr.breaks = append(fr.breaks, fr.env.clone())
		}
	case *ast.DeferStmt:
		fr.call(x.Call)
	case *ast.GoStmt:
		fr.call(x.Call)
	case *ast.EmptyStmt:
	default:
		fr.an.notes = append(fr.an.notes, fmt.Sprintf("%s: statement %T not modelled at %s", fr.fi.Key, s, fr.pos(s.Pos())))
	}
}

// verdictShaped: every arm of the if (recursively through nested ifs) consists only of return statements whose
// results are public in the current environment; an absent else arm is fine (the code after the if is not a verdict arm).
func (fr *ctFrame) verdictShaped(x *ast.IfStmt) bool {
	var armOK func(b ast.Stmt) bool
	armOK = func(b ast.Stmt) bool {
		switch y := b.(type) {
		case *ast.BlockStmt:
			if len(y.List) == 0 {
				return false
			}
			for _, st := range y.List {
				if !armOK(st) {
					return false
				}
			}
			return true
		case *ast.ReturnStmt:
			for _, r := range y.Results {
				saved := fr.an.quiet
				fr.an.quiet = true
				t := fr.eval(r)
				fr.an.quiet = saved
				if t.any() {
					return false
				}
			}
			return true
		case *ast.IfStmt:
			if y.Init != nil {
				return false
			}
			if !armOK(y.Body) {
				return false
			}
			if y.Else != nil {
				return armOK(y.Else)
			}
			return true
		}
		return false
	}
	if x.Init != nil {
		return false
	}
	if !armOK(x.Body) {
		return false
	}
	if x.Else != nil {
		return armOK(x.Else)
	}
	return true
}

// constCond: conditions that are a parameter bound to a boolean constant by the caller (or its negation).
func (fr *ctFrame) constCond(e ast.Expr) (bool, bool) {
	switch x := unparen(e).(type) {
	case *ast.Ident:
		if o := fr.objOf(x); o != nil {
			if v, ok := fr.consts[o]; ok && !fr.assigned(o) {
				return v, true
			}
		}
	case *ast.UnaryExpr:
		if x.Op == token.NOT {
			if v, ok := fr.constCond(x.X); ok {
				return !v, true
			}
		}
	}
	return false, false
}

// assigned: is the parameter ever assigned in the body (then it is not a constant)
func (fr *ctFrame) assigned(o types.Object) bool {
	found := false
	ast.Inspect(fr.fi.Decl.Body, func(n ast.Node) bool {
		if as, ok := n.(*ast.AssignStmt); ok {
			for _, l := range as.Lhs {
				if id, ok := unparen(l).(*ast.Ident); ok && fr.objOf(id) == o {
					found = true
				}
			}
		}
		if u, ok := n.(*ast.UnaryExpr); ok && u.Op == token.AND {
			if id, ok := unparen(u.X).(*ast.Ident); ok && fr.objOf(id) == o {
				found = true
			}
		}
		return !found
	})
	return found
}

func (fr *ctFrame) call1(e ast.Expr) []tv {
	if c, ok := unparen(e).(*ast.CallExpr); ok {
		if tvv, ok2 := fr.info.Types[c.Fun]; !ok2 || !tvv.IsType() {
			return fr.call(c)
		}
	}
	if ta, ok := unparen(e).(*ast.TypeAssertExpr); ok {
		return []tv{fr.eval(ta.X), {}}
	}
	if ix, ok := unparen(e).(*ast.IndexExpr); ok {
		return []tv{fr.eval(ix), {}}
	}
	return []tv{fr.eval(e)}
}

// loop runs body/post to a fixpoint; continue/break environments are merged at the right places.
func (fr *ctFrame) loop(body func(), post func()) {
	fr.loopDepth++
	defer func() { fr.loopDepth-- }()
	savedC, savedB := fr.conts, fr.breaks
	entry := fr.env.clone()
	var exit *ctEnv
	for iter := 0; iter < 12; iter++ {
		fr.conts, fr.breaks = nil, nil
		fr.env = entry.clone()
		body()
		for _, c := range fr.conts {
			fr.env.joinInto(c)
		}
		post()
		exit = entry.clone()
		exit.joinInto(fr.env)
		for _, b := range fr.breaks {
			exit.joinInto(b)
		}
		if !entry.joinInto(fr.env) {
			break
		}
	}
	fr.env = exit
	fr.conts, fr.breaks = savedC, savedB
}

// ---------- report ----------

func (an *ctAnalysis) Obligations() []*ctOblig {
	var out []*ctOblig
	for _, n := range an.order {
		out = append(out, an.obligs[n])
	}
	sort.Slice(out, func(i, j int) bool { return out[i].Name < out[j].Name })
	return out
}
