package main

import (
	"fmt"
	"go/types"
)

// Symbolic Go values.
//   scalars            *Term
//   pointers           *Ptr
//   slices             *Slice
//   structs            *Struct
//   arrays of scalars  *Term (array sort); other arrays *Array
//   interfaces         *Iface
//   errors             *ErrV
//   strings, funcs     *Opaque

type Value interface{}

type Obj struct {
	id    int
	T     types.Type
	name  string
	fresh bool // allocated during the call under verification
	global bool
}

func (o *Obj) String() string { return fmt.Sprintf("%s#%d", o.name, o.id) }

type Sel struct {
	Field int   // >=0: struct field
	Idx   *Term // array index (Field == -1)
}

type Ptr struct {
	Obj  *Obj // nil => nil pointer
	Path []Sel
	NilC *Term // when non-nil: the pointer is nil exactly when NilC holds (Obj is then the non-nil target)
	Span *Term // number of elements addressable from this pointer within the slice/array it was taken from (nil: unknown)
}

type Slice struct {
	Base     *Ptr // location of the backing array; Obj == nil => definitely nil slice
	Off      *Term
	Len, Cap *Term
	Nil      *Term // Bool: slice is nil (symbolic for parameters)
	Elem     types.Type
}

type Struct struct {
	F []Value
	T *types.Struct
}

type Array struct {
	E []Value
}

type Iface struct {
	T types.Type // dynamic type; nil with V == nil => nil interface
	V Value
	// opaque interface values (parameters of interface type) have a name
	Opaque string
	NilC   *Term // Bool: interface is nil (symbolic), may be nil => not nil
}

type ErrV struct {
	NonNil *Term
	Tag    string
}

type Opaque struct {
	What string
}

// LazyRows: contents of a read-only slice of pointer tables; rows are created on first use (shared by all
// states: the rows are never written, so sharing is sound).
type LazyRows struct {
	Elem types.Type
	Name string
	Rows map[int64]*Slice
}

type Tuple []Value

// UntypedConst appears only in spec expressions.
type UConst struct{ V interface{} } // *big.Int or bool

func (p *Ptr) with(s Sel) *Ptr {
	np := &Ptr{Obj: p.Obj, Path: make([]Sel, len(p.Path)+1), NilC: p.NilC}
	copy(np.Path, p.Path)
	np.Path[len(p.Path)] = s
	return np
}

func samePtr(a, b *Ptr) bool {
	if a.Obj != b.Obj || len(a.Path) != len(b.Path) {
		return false
	}
	for i := range a.Path {
		if a.Path[i].Field != b.Path[i].Field || a.Path[i].Idx != b.Path[i].Idx {
			return false
		}
	}
	return true
}

func isScalarType(t types.Type) bool {
	switch u := t.Underlying().(type) {
	case *types.Basic:
		return u.Info()&(types.IsInteger|types.IsBoolean) != 0
	}
	return false
}
