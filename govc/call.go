package main

import (
	"fmt"
	"go/ast"
	"go/token"
	"go/types"
	"math/big"
	"strings"
)

func (ex *exec) execAssign(st *State, s *ast.AssignStmt) {
	info := ex.info()
	if s.Tok != token.ASSIGN && s.Tok != token.DEFINE {
		// op-assign
		loc := ex.evalLoc(st, s.Lhs[0])
		t := info.TypeOf(s.Lhs[0])
		cur := ex.load(st, loc, s.Pos()).(*Term)
		var op token.Token
		switch s.Tok {
		case token.ADD_ASSIGN:
			op = token.ADD
		case token.SUB_ASSIGN:
			op = token.SUB
		case token.MUL_ASSIGN:
			op = token.MUL
		case token.QUO_ASSIGN:
			op = token.QUO
		case token.REM_ASSIGN:
			op = token.REM
		case token.AND_ASSIGN:
			op = token.AND
		case token.OR_ASSIGN:
			op = token.OR
		case token.XOR_ASSIGN:
			op = token.XOR
		case token.AND_NOT_ASSIGN:
			op = token.AND_NOT
		case token.SHL_ASSIGN, token.SHR_ASSIGN:
			r := ex.evalExprT(st, s.Rhs[0], types.Typ[types.Uint]).(*Term)
			sop := token.SHL
			if s.Tok == token.SHR_ASSIGN {
				sop = token.SHR
			}
			ex.store(st, loc, ex.shift(st, sop, t, cur, r, info.TypeOf(s.Rhs[0]), s.Pos()), s.Pos())
			return
		default:
			ex.fail(s.Pos(), "assign op %s", s.Tok)
		}
		r := ex.evalExprT(st, s.Rhs[0], t).(*Term)
		ex.store(st, loc, ex.binop(st, op, t, cur, r, s.Pos()), s.Pos())
		return
	}
	var vals []Value
	if len(s.Rhs) == 1 && len(s.Lhs) > 1 {
		tv, ok := ex.evalExpr(st, s.Rhs[0]).(Tuple)
		if !ok {
			ex.fail(s.Pos(), "multi-value assignment from non-call")
		}
		vals = tv
		// Montgomery reduction discards a low word that is zero by construction:
		// try to establish that as a lemma (sound either way: used only if proved).
		if ex.mode == ModeInt && len(tv) == 2 {
			if id, ok := s.Lhs[0].(*ast.Ident); ok && id.Name == "_" {
				if c, ok := s.Rhs[0].(*ast.CallExpr); ok {
					if sel, ok := c.Fun.(*ast.SelectorExpr); ok && sel.Sel.Name == "Add64" {
						if t, ok := tv[0].(*Term); ok && !t.IsConst() {
							ex.lemmaDepth = 3
							if ex.lemma(st, Eq(t, IntC64(0)), "dropped-word-zero", s.Pos()) {
								st.assume(Eq(t, IntC64(0)))
							}
							ex.lemmaDepth = 0
						}
					}
				}
			}
		}
	} else {
		for i, r := range s.Rhs {
			var want types.Type
			if id, ok := s.Lhs[i].(*ast.Ident); !ok || id.Name != "_" {
				want = info.TypeOf(s.Lhs[i])
			}
			v := ex.evalExprT(st, r, want)
			vals = append(vals, ex.coerce(v, want, r))
		}
	}
	// evaluate all destinations before storing (parallel assignment)
	type dst struct {
		loc  *Ptr
		decl *types.Var
	}
	dsts := make([]dst, len(s.Lhs))
	for i, l := range s.Lhs {
		if id, ok := l.(*ast.Ident); ok {
			if id.Name == "_" {
				continue
			}
			if s.Tok == token.DEFINE {
				if v, ok := info.Defs[id].(*types.Var); ok {
					dsts[i] = dst{decl: v}
					continue
				}
			}
		}
		dsts[i] = dst{loc: ex.evalLoc(st, l)}
	}
	for i, d := range dsts {
		switch {
		case d.decl != nil:
			ex.declare(st, d.decl, vals[i])
		case d.loc != nil:
			ex.store(st, d.loc, vals[i], s.Pos())
		}
	}
}

// funcKey gives the short key of a function object.
func funcKey(f *types.Func) string {
	return strings.ReplaceAll(f.FullName(), "github.com/bilibili/smgo/", "")
}

func (ex *exec) evalCall(st *State, call *ast.CallExpr, want bool) Value {
	info := ex.info()
	// conversion
	if tv, ok := info.Types[call.Fun]; ok && tv.IsType() {
		to := tv.Type
		arg := call.Args[0]
		v := ex.evalExprT(st, arg, nil)
		if atv, ok := info.Types[arg]; ok && atv.Value != nil {
			// constant conversion: evaluate constant at destination type
			if ctv, ok := info.Types[call]; ok && ctv.Value != nil {
				return ex.constValue(to, ctv.Value, call.Pos())
			}
		}
		return ex.convert(st, v, info.TypeOf(arg), to, call.Pos())
	}
	// builtins
	if id, ok := unparen(call.Fun).(*ast.Ident); ok {
		if _, isB := info.Uses[id].(*types.Builtin); isB {
			return ex.evalBuiltin(st, id.Name, call)
		}
	}
	var fn *types.Func
	var recvExpr ast.Expr
	switch f := unparen(call.Fun).(type) {
	case *ast.Ident:
		fn, _ = info.Uses[f].(*types.Func)
	case *ast.SelectorExpr:
		if sel, ok := info.Selections[f]; ok {
			fn, _ = sel.Obj().(*types.Func)
			recvExpr = f.X
			if len(sel.Index()) > 1 {
				// method promoted through embedding: adjust receiver below
			}
		} else {
			fn, _ = info.Uses[f.Sel].(*types.Func)
		}
	}
	if fn == nil {
		ex.fail(call.Pos(), "call of non-static function")
	}
	sig := fn.Type().(*types.Signature)
	key := funcKey(fn)

	// receiver
	var recv Value
	if recvExpr != nil {
		recv = ex.evalReceiver(st, recvExpr, fn, call)
		// interface method: dispatch on dynamic type
		if iv, ok := recv.(*Iface); ok {
			if iv.T != nil && iv.Opaque == "" {
				ms := types.NewMethodSet(iv.T)
				m := ms.Lookup(fn.Pkg(), fn.Name())
				if m == nil {
					ex.fail(call.Pos(), "method %s not found on %s", fn.Name(), iv.T)
				}
				fn = m.Obj().(*types.Func)
				sig = fn.Type().(*types.Signature)
				key = funcKey(fn)
				recv = iv.V
				if _, isPtr := sig.Recv().Type().(*types.Pointer); !isPtr {
					if p, ok := recv.(*Ptr); ok {
						recv = ex.load(st, p, call.Pos())
					}
				}
			}
		}
		if ev, ok := recv.(*ErrV); ok && fn.Name() == "Error" {
			_ = ev
			return &Opaque{"error string"}
		}
	}
	// arguments
	var args []Value
	np := sig.Params().Len()
	if len(call.Args) == 1 && np > 1 {
		args = ex.evalExpr(st, call.Args[0]).(Tuple)
	} else {
		for i, a := range call.Args {
			var pt types.Type
			if sig.Variadic() && i >= np-1 {
				pt = sig.Params().At(np - 1).Type().(*types.Slice).Elem()
				if call.Ellipsis.IsValid() {
					pt = sig.Params().At(np - 1).Type()
				}
			} else {
				pt = sig.Params().At(i).Type()
			}
			v := ex.evalExprT(st, a, pt)
			args = append(args, ex.coerce(v, pt, a))
		}
	}
	if ex.taint {
		if v, ok := ex.taintCall(st, key, fn, recv, args, call); ok {
			return v
		}
	}
	if v, ok := ex.stdModel(st, key, fn, recv, args, call); ok {
		return v
	}
	// views of a contract: #ext is the abstract view for callers in other packages,
	// #int the integer-mode view of a contract whose proof is in bit-vector mode
	if fn.Pkg() != nil && ex.root.Pkg != nil && ex.root.Pkg.Types != fn.Pkg() {
		if ct := ex.eng.contracts[key+"#ext"]; ct != nil {
			return ex.applyContract(st, ct, fn, recv, args, call)
		}
	}
	if ex.mode == ModeInt {
		if ct := ex.eng.contracts[key+"#int"]; ct != nil {
			return ex.applyContract(st, ct, fn, recv, args, call)
		}
	}
	if ct := ex.eng.contracts[key]; ct != nil && !ct.Inline && !(ex.root.Key == key && len(ex.frames) == 0) {
		return ex.applyContract(st, ct, fn, recv, args, call)
	}
	if fi := ex.eng.funcs[key]; fi != nil && fi.Decl.Body != nil {
		return ex.inline(st, fi, recv, args, call)
	}
	ex.fail(call.Pos(), "call to %s: no contract, model or body", key)
	return nil
}

func (ex *exec) evalReceiver(st *State, recvExpr ast.Expr, fn *types.Func, call *ast.CallExpr) Value {
	info := ex.info()
	sig := fn.Type().(*types.Signature)
	rt := sig.Recv().Type()
	xt := info.TypeOf(recvExpr)
	_, wantPtr := rt.(*types.Pointer)
	_, havePtr := xt.Underlying().(*types.Pointer)
	if _, isIface := xt.Underlying().(*types.Interface); isIface {
		return ex.evalExpr(st, recvExpr)
	}
	// promoted methods through embedded fields
	sel := info.Selections[call.Fun.(*ast.SelectorExpr)]
	path := sel.Index()
	var base Value
	switch {
	case wantPtr && havePtr && len(path) == 1:
		return ex.evalExpr(st, recvExpr)
	case wantPtr && !havePtr && len(path) == 1:
		return ex.evalLoc(st, recvExpr)
	case !wantPtr && havePtr && len(path) == 1:
		p := ex.evalExpr(st, recvExpr).(*Ptr)
		ex.checkNonNil(st, p, call.Pos())
		return ex.load(st, p, call.Pos())
	case len(path) == 1:
		return ex.evalExpr(st, recvExpr)
	}
	// embedded: navigate path[:-1] as fields
	var loc *Ptr
	if havePtr {
		loc = ex.evalExpr(st, recvExpr).(*Ptr)
	} else {
		loc = ex.tryLoc(st, recvExpr)
	}
	if loc == nil {
		base = ex.evalExpr(st, recvExpr)
		for _, i := range path[:len(path)-1] {
			base = base.(*Struct).F[i]
		}
		return base
	}
	for _, i := range path[:len(path)-1] {
		loc = loc.with(Sel{Field: i})
	}
	if wantPtr {
		return loc
	}
	return ex.load(st, loc, call.Pos())
}

// ---------- inlining ----------

func (ex *exec) inline(st *State, fi *FuncInfo, recv Value, args []Value, call *ast.CallExpr) Value {
	if len(ex.frames) > 40 {
		ex.fail(call.Pos(), "inline depth exceeded at %s", fi.Key)
	}
	ex.inlinedFns[fi.Key] = true
	sig := fi.Obj.Type().(*types.Signature)
	fr := &frame{fi: fi, inlined: true}
	ex.frames = append(ex.frames, fr)
	defer func() { ex.frames = ex.frames[:len(ex.frames)-1] }()
	info := fi.Pkg.TypesInfo
	// the callee sees only its own variables
	savedVars := st.vars
	st.vars = map[*types.Var]*Obj{}
	if fi.Decl.Recv != nil && len(fi.Decl.Recv.List) > 0 && len(fi.Decl.Recv.List[0].Names) > 0 {
		rv := info.Defs[fi.Decl.Recv.List[0].Names[0]].(*types.Var)
		ex.declare(st, rv, recv)
	}
	ai := 0
	for _, f := range fi.Decl.Type.Params.List {
		for _, n := range f.Names {
			if n.Name != "_" {
				pv := info.Defs[n].(*types.Var)
				if sig.Variadic() && ai == sig.Params().Len()-1 && !call.Ellipsis.IsValid() {
					ex.fail(call.Pos(), "variadic call")
				}
				ex.declare(st, pv, args[ai])
			}
			ai++
		}
	}
	fr.results = ex.declareResults(st, fi)
	fr.entry = st.clone()
	outs := ex.execBlock(st, fi.Decl.Body.List)
	var rets []*State
	var retVals [][]Value
	for _, o := range outs {
		switch o.kind {
		case OReturn:
			rets = append(rets, o.st)
			retVals = append(retVals, o.ret)
		case ONormal:
			if sig.Results().Len() > 0 {
				ex.fail(call.Pos(), "missing return in %s", fi.Key)
			}
			rets = append(rets, o.st)
			retVals = append(retVals, nil)
		case OPanic:
			ex.oblige(o.st, "no-panic", fi.Obj.Name(), False, o.pos)
		default:
			ex.fail(call.Pos(), "stray break/continue in %s", fi.Key)
		}
	}
	if len(rets) == 0 {
		// every path panics
		st.assume(False)
		st.vars = savedVars
		return ex.zeroTuple(sig)
	}
	// stash return values into result objects so merging handles them
	for i, r := range rets {
		for j, ro := range fr.results {
			if retVals[i] != nil {
				r.heap[ro] = retVals[i][j]
			}
		}
	}
	merged := ex.mergeStates(rets)
	if len(merged) > 1 {
		// drop return paths that the solver shows infeasible
		var live []*State
		for _, m := range merged {
			if !ex.lemma(m, False, "infeasible-path", call.Pos()) {
				live = append(live, m)
			}
		}
		merged = live
	}
	if len(merged) != 1 {
		// the return paths cannot be merged into one state (e.g. they return slices of different objects): ask the
		// enclosing simple statement to be re-executed once per path (execStmt), choosing path k each time
		if k, ok := ex.forcedRet[call]; ok && k < len(merged) {
			merged = merged[k : k+1]
		} else if ex.splitOK > 0 {
			panic(splitRequest{call: call, n: len(merged)})
		} else {
			ex.fail(call.Pos(), "cannot merge the %d return paths of inlined %s", len(merged), fi.Key)
		}
	}
	m := merged[0]
	// copy merged state back into st (st is shared by pointer with the caller)
	st.heap = m.heap
	st.pc = m.pc
	st.ghost = m.ghost
	st.vars = savedVars
	var res Tuple
	for _, ro := range fr.results {
		res = append(res, st.heap[ro])
	}
	switch len(res) {
	case 0:
		return nil
	case 1:
		return res[0]
	}
	return res
}

func (ex *exec) zeroTuple(sig *types.Signature) Value {
	var res Tuple
	for i := 0; i < sig.Results().Len(); i++ {
		res = append(res, ex.zeroValue(sig.Results().At(i).Type()))
	}
	switch len(res) {
	case 0:
		return nil
	case 1:
		return res[0]
	}
	return res
}

func (ex *exec) declareResults(st *State, fi *FuncInfo) []*Obj {
	info := fi.Pkg.TypesInfo
	var out []*Obj
	if fi.Decl.Type.Results == nil {
		return nil
	}
	n := 0
	for _, f := range fi.Decl.Type.Results.List {
		t := info.TypeOf(f.Type)
		if len(f.Names) == 0 {
			o := ex.newObj(t, fmt.Sprintf("result%d", n), true)
			st.heap[o] = ex.zeroValue(t)
			out = append(out, o)
			n++
			continue
		}
		for _, nm := range f.Names {
			if nm.Name == "_" {
				o := ex.newObj(t, fmt.Sprintf("result%d", n), true)
				st.heap[o] = ex.zeroValue(t)
				out = append(out, o)
			} else {
				v := info.Defs[nm].(*types.Var)
				out = append(out, ex.declare(st, v, ex.zeroValue(t)))
			}
			n++
		}
	}
	return out
}

// ---------- builtins ----------

func (ex *exec) evalBuiltin(st *State, name string, call *ast.CallExpr) Value {
	info := ex.info()
	switch name {
	case "len", "cap":
		t := info.TypeOf(call.Args[0])
		switch u := t.Underlying().(type) {
		case *types.Slice:
			sv := ex.evalExpr(st, call.Args[0]).(*Slice)
			if name == "len" {
				return sv.Len
			}
			return sv.Cap
		case *types.Array:
			return ex.idxConst(u.Len())
		case *types.Pointer:
			return ex.idxConst(u.Elem().Underlying().(*types.Array).Len())
		case *types.Basic:
			return &Opaque{"len(string)"}
		}
		ex.fail(call.Pos(), "len of %s", t)
	case "new":
		t := info.TypeOf(call.Args[0])
		o := ex.newObj(t, "new", true)
		st.heap[o] = ex.zeroValue(t)
		return &Ptr{Obj: o}
	case "make":
		t := info.TypeOf(call.Args[0])
		sl, ok := t.Underlying().(*types.Slice)
		if !ok {
			ex.fail(call.Pos(), "make of %s", t)
		}
		n := ex.evalIndex(st, call.Args[1])
		c := n
		if len(call.Args) > 2 {
			c = ex.evalIndex(st, call.Args[2])
		}
		ex.runtimeCheck(st, "make", "len", And(ex.le(ex.idxConst(0), n), ex.le(n, c)), call.Pos())
		// an allocation beyond the address space cannot succeed (resource exhaustion is out of scope)
		st.assume(ex.le(c, ex.lenBound()))
		return ex.makeSlice(st, sl.Elem(), n, c, call.Pos())
	case "copy":
		dst := ex.evalExpr(st, call.Args[0]).(*Slice)
		src, ok := ex.evalExpr(st, call.Args[1]).(*Slice)
		if !ok {
			ex.fail(call.Pos(), "copy from string")
		}
		n := Ite(ex.lt(dst.Len, src.Len), dst.Len, src.Len)
		ex.copyElems(st, dst, ex.idxConst(0), src, n, call.Pos())
		return n
	case "append":
		return ex.evalAppend(st, call)
	case "panic":
		ex.fail(call.Pos(), "panic in expression position")
	}
	ex.fail(call.Pos(), "builtin %s", name)
	return nil
}

func (ex *exec) makeSlice(st *State, elem types.Type, n, c *Term, pos token.Pos) *Slice {
	o := ex.newObj(types.NewSlice(elem), "make", true)
	es := ex.scalarSort(elem)
	if es != nil {
		var z *Term
		if es == BoolSort {
			z = False
		} else {
			z = ex.intConst(elem, big.NewInt(0))
		}
		st.heap[o] = ConstArr(ex.arrSort(elem), z)
	} else {
		if !c.IsConst() {
			ex.fail(pos, "make of non-scalar slice with symbolic length")
		}
		cnt := c.Val.Int64()
		a := &Array{E: make([]Value, cnt)}
		for i := range a.E {
			a.E[i] = ex.zeroValue(elem)
		}
		st.heap[o] = a
	}
	return &Slice{Base: &Ptr{Obj: o}, Off: ex.idxConst(0), Len: n, Cap: c, Nil: False, Elem: elem}
}

const expandLimit = 300

// copyElems copies n elements from src[0:] to dst[dstOff:].
func (ex *exec) copyElems(st *State, dst *Slice, dstOff *Term, src *Slice, n *Term, pos token.Pos) {
	if n.IsConst() {
		cnt := n.Val.Int64()
		if cnt == 0 {
			return
		}
		if cnt <= expandLimit {
			vals := make([]Value, cnt)
			for i := int64(0); i < cnt; i++ {
				vals[i] = ex.load(st, src.Base.with(Sel{Field: -1, Idx: ex.add(src.Off, ex.idxConst(i))}), pos)
			}
			for i := int64(0); i < cnt; i++ {
				ex.store(st, dst.Base.with(Sel{Field: -1, Idx: ex.add(ex.add(dst.Off, dstOff), ex.idxConst(i))}), vals[i], pos)
			}
			return
		}
	}
	if dst.Base.Obj == nil {
		// copying zero elements into a nil slice
		st.assume(Eq(n, ex.idxConst(0)))
		return
	}
	// symbolic length: fresh destination array constrained by a quantified frame
	dstArr, ok := ex.load(st, dst.Base, pos).(*Term)
	if !ok {
		ex.fail(pos, "symbolic-length copy of non-scalar elements")
	}
	if src.Base.Obj == nil {
		st.assume(Eq(n, ex.idxConst(0)))
		return
	}
	srcArr, ok := ex.load(st, src.Base, pos).(*Term)
	if !ok {
		ex.fail(pos, "symbolic-length copy of non-scalar elements")
	}
	na := Fresh("copy", dstArr.Sort)
	j := BoundVar("j!c", ex.idxSort())
	start := ex.add(dst.Off, dstOff)
	in := And(ex.le(start, j), ex.lt(j, ex.add(start, n)))
	body := Ite(in,
		Eq(Select(na, j), Select(srcArr, ex.add(src.Off, ex.sub(j, start)))),
		Eq(Select(na, j), Select(dstArr, j)))
	cf := Forall([]*Term{j}, body)
	st.assume(cf)
	ex.copyN++
	st.name(fmt.Sprintf("copy%d", ex.copyN), cf)
	ex.store(st, dst.Base, na, pos)
}

func (ex *exec) evalAppend(st *State, call *ast.CallExpr) Value {
	info := ex.info()
	sv := ex.evalExpr(st, call.Args[0]).(*Slice)
	elem := info.TypeOf(call.Args[0]).Underlying().(*types.Slice).Elem()
	var add *Slice
	var addN *Term
	var single []Value
	if call.Ellipsis.IsValid() {
		a, ok := ex.evalExpr(st, call.Args[1]).(*Slice)
		if !ok {
			ex.fail(call.Pos(), "append of string")
		}
		add = a
		addN = a.Len
	} else {
		for _, a := range call.Args[1:] {
			single = append(single, ex.evalExprT(st, a, elem))
		}
		addN = ex.idxConst(int64(len(single)))
	}
	newLen := ex.add(sv.Len, addN)
	fits := ex.le(newLen, sv.Cap)
	fits = ex.simplifyUnderPC(st, fits)
	if fits != True && fits != False && sv.Base.Obj != nil {
		// ask the solver whether the capacity always (or never) suffices under the path condition: an append inside
		// a loop whose invariant bounds the length stays in place then, instead of being modelled as a reallocation
		saved := ex.lemmaTimeout
		ex.lemmaTimeout = 3
		if ex.lemma(st, fits, "append-fits", call.Pos()) {
			fits = True
		} else if ex.lemma(st, Not(fits), "append-grows", call.Pos()) {
			fits = False
		}
		ex.lemmaTimeout = saved
	}
	write := func(s *State, dst *Slice) {
		if add != nil {
			ex.copyElems(s, dst, sv.Len, add, addN, call.Pos())
		} else {
			for i, v := range single {
				ex.store(s, dst.Base.with(Sel{Field: -1, Idx: ex.add(ex.add(dst.Off, sv.Len), ex.idxConst(int64(i)))}), v, call.Pos())
			}
		}
	}
	if fits == True {
		res := &Slice{Base: sv.Base, Off: sv.Off, Len: newLen, Cap: sv.Cap, Nil: False, Elem: elem}
		write(st, res)
		return res
	}
	if fits == False || sv.Base.Obj == nil {
		// reallocation: fresh array holding old contents then the new elements
		nc := ex.freshLen("append.cap")
		st.assume(ex.le(newLen, nc))
		st.assume(ex.le(nc, ex.lenBound()))
		res := ex.makeSlice(st, elem, newLen, nc, call.Pos())
		if sv.Base.Obj != nil {
			ex.copyElems(st, res, ex.idxConst(0), sv, sv.Len, call.Pos())
		}
		write(st, res)
		return res
	}
	// capacity undecided: the result is modelled as a freshly allocated slice with the right
	// contents, and the spare capacity of the operand (which append may have written) is havocked.
	// (Sharing between the result and the operand is not tracked on this path.)
	if arr, ok := ex.load(st, sv.Base, call.Pos()).(*Term); ok && arr.Sort.K == KArr {
		na := Fresh("append.spare", arr.Sort)
		j := BoundVar(fmt.Sprintf("j!a%d", boundCounter()), ex.idxSort())
		in := And(ex.le(ex.add(sv.Off, sv.Len), j), ex.lt(j, ex.add(sv.Off, sv.Cap)))
		st.assume(Forall([]*Term{j}, Implies(Not(in), Eq(Select(na, j), Select(arr, j)))))
		nc := ex.freshLen("append.cap")
		st.assume(ex.le(newLen, nc))
		st.assume(ex.le(nc, ex.lenBound()))
		res := ex.makeSlice(st, elem, newLen, nc, call.Pos())
		ex.copyElems(st, res, ex.idxConst(0), sv, sv.Len, call.Pos())
		write(st, res)
		ex.store(st, sv.Base, na, call.Pos())
		return res
	}
	ex.fail(call.Pos(), "append with undecided capacity (add a case split on cap)")
	return nil
}
