package main

import (
	"flag"
	"fmt"
	"os"
	"sort"
	"strings"
)

func main() {
	if len(os.Args) < 2 {
		fmt.Fprintln(os.Stderr, "usage: govc verify|check ...")
		os.Exit(2)
	}
	switch os.Args[1] {
	case "verify":
		cmdVerify(os.Args[2:])
	case "check":
		cmdCheck(os.Args[2:])
	case "ct":
		cmdCt(os.Args[2:])
	case "ring":
		cmdRing(os.Args[2:])
	case "eff":
		cmdEff(os.Args[2:])
	default:
		fmt.Fprintln(os.Stderr, "unknown command", os.Args[1])
		os.Exit(2)
	}
}

func cmdVerify(args []string) {
	fs := flag.NewFlagSet("verify", flag.ExitOnError)
	repo := fs.String("repo", "/repo", "repository root")
	spec := fs.String("spec", "/verif/spec", "spec library directory")
	arch := fs.String("goarch", "", "GOARCH")
	funcs := fs.String("funcs", "", "comma separated function keys")
	timeout := fs.Int("timeout", 30, "per-obligation timeout (s)")
	verbose := fs.Bool("v", false, "verbose")
	dump := fs.String("dump", "", "dump query of obligation with this name")
	fs.Parse(args)
	eng, err := NewEngine(*repo, *arch, "verif")
	if err != nil {
		fmt.Fprintln(os.Stderr, "load:", err)
		os.Exit(2)
	}
	eng.timeoutS = *timeout
	if err := LoadSpecLibrary(*spec); err != nil {
		fmt.Fprintln(os.Stderr, "spec:", err)
		os.Exit(2)
	}
	if err := eng.LoadContracts(ContractFilesArch(*repo, *arch, *spec)); err != nil {
		fmt.Fprintln(os.Stderr, "contracts:", err)
		os.Exit(2)
	}
	var keys []string
	if *funcs == "" {
		for k, c := range eng.contracts {
			if !c.Assume {
				keys = append(keys, k)
			}
		}
		sort.Strings(keys)
	} else {
		keys = strings.Split(*funcs, ",")
	}
	bad := 0
	for _, k := range keys {
		rep := eng.VerifyFunc(k)
		if rep.Status != "ok" {
			fmt.Printf("%-50s %s: %s\n", k, rep.Status, rep.Reason)
			bad++
			continue
		}
		eng.SolveAll(rep.Obligs)
		np, nt := 0, 0
		for _, o := range rep.Obligs {
			if o.Res.Verdict == Proved {
				np++
				if o.Trivial {
					nt++
				}
			}
		}
		fmt.Printf("%-50s %d/%d proved (%d by simplifier) %.1fs inlined=%v\n", k, np, len(rep.Obligs), nt, rep.Seconds, rep.Inlined)
		for _, o := range rep.Obligs {
			if o.Res.Verdict != Proved || *verbose {
				fmt.Printf("   %-8s %s [%s] %s %.2fs %s\n", o.Res.Verdict, o.Name, o.Pos, o.Res.Solver, o.Res.Seconds, o.Res.Detail)
			}
			if o.Res.Verdict != Proved {
				bad++
				if o.Res.Model != "" && *verbose {
					fmt.Println(truncate(o.Res.Model, 2000))
				}
			}
			if *dump != "" && o.Name == *dump && o.query != nil {
				os.WriteFile("/tmp/dump.smt2", []byte(o.query.Text), 0o644)
			}
		}
	}
	if bad > 0 {
		os.Exit(1)
	}
}

func truncate(s string, n int) string {
	if len(s) > n {
		return s[:n] + "..."
	}
	return s
}


func cmdCt(args []string) {
	fs := flag.NewFlagSet("ct", flag.ExitOnError)
	repo := fs.String("repo", "/repo", "repository root")
	spec := fs.String("spec", "/verif/spec", "spec library directory")
	roots := fs.String("roots", "", "comma separated function keys with #ct contracts")
	all := fs.Bool("all", false, "print discharged obligations too")
	fs.Parse(args)
	eng, err := NewEngine(*repo, "", "verif")
	if err != nil {
		fmt.Fprintln(os.Stderr, "load:", err)
		os.Exit(2)
	}
	if err := eng.LoadContracts(ContractFilesArch(*repo, "", *spec)); err != nil {
		fmt.Fprintln(os.Stderr, "contracts:", err)
		os.Exit(2)
	}
	an := NewCtAnalysis(eng)
	for _, r := range strings.Split(*roots, ",") {
		if err := an.AnalyseRoot(strings.TrimSpace(r)); err != nil {
			fmt.Println("ERROR:", err)
		}
	}
	n, bad := 0, 0
	for _, o := range an.Obligations() {
		n++
		if !o.OK {
			bad++
			fmt.Printf("FAIL %s at %s: %s\n", o.Name, o.Pos, o.What)
		} else if *all {
			fmt.Printf("ok   %s\n", o.Name)
		}
	}
	var fl []string
	for f := range an.funcs {
		fl = append(fl, f)
	}
	sort.Strings(fl)
	fmt.Printf("%d obligations, %d failed; functions reached: %s\n", n, bad, strings.Join(fl, ", "))
	for k, v := range an.declUsed {
		fmt.Printf("declassified %s -- %s\n", k, v)
	}
	for _, nn := range an.notes {
		fmt.Println("note:", nn)
	}
}

func cmdRing(args []string) {
	fs := flag.NewFlagSet("ring", flag.ExitOnError)
	repo := fs.String("repo", "/repo", "repository root")
	spec := fs.String("spec", "/verif/spec", "spec library directory")
	funcs := fs.String("funcs", "", "comma separated function keys with #ring contracts")
	fs.Parse(args)
	eng, err := NewEngine(*repo, "", "verif")
	if err != nil {
		fmt.Fprintln(os.Stderr, "load:", err)
		os.Exit(2)
	}
	if err := eng.LoadContracts(ContractFilesArch(*repo, "", *spec)); err != nil {
		fmt.Fprintln(os.Stderr, "contracts:", err)
		os.Exit(2)
	}
	for _, f := range strings.Split(*funcs, ",") {
		f = strings.TrimSpace(f)
		var obs []ringObl
		var err error
		if eng.contracts[f+"#gexp"] != nil {
			obs, err = eng.VerifyGexp(f)
		} else if eng.contracts[f+"#exp"] != nil {
			obs, err = eng.VerifyExp(f)
		} else {
			obs, err = eng.VerifyRing(f)
		}
		if err != nil {
			fmt.Println("ERROR:", err)
			continue
		}
		for _, o := range obs {
			if o.OK {
				fmt.Println("ok  ", o.Name)
			} else {
				fmt.Println("FAIL", o.Name, o.Msg)
			}
		}
	}
}

func cmdEff(args []string) {
	fs := flag.NewFlagSet("eff", flag.ExitOnError)
	repo := fs.String("repo", "/repo", "repository root")
	spec := fs.String("spec", "/verif/spec", "spec library directory")
	pkgs := fs.String("pkgs", "utils,sm3,sm4,sm2,sm2/internal,sm2/internal/fiat", "packages")
	all := fs.Bool("all", false, "print discharged obligations too")
	fs.Parse(args)
	eng, err := NewEngine(*repo, "", "verif")
	if err != nil {
		fmt.Fprintln(os.Stderr, "load:", err)
		os.Exit(2)
	}
	if err := eng.LoadContracts(ContractFilesArch(*repo, "", *spec)); err != nil {
		fmt.Fprintln(os.Stderr, "contracts:", err)
		os.Exit(2)
	}
	ea := NewEffAnalysis(eng)
	n, bad := 0, 0
	for _, o := range ea.Check(strings.Split(*pkgs, ",")) {
		n++
		if !o.OK {
			bad++
			fmt.Printf("FAIL %s (%s): %s\n", o.Name, o.Pos, o.What)
		} else if *all {
			fmt.Println("ok  ", o.Name)
		}
	}
	fmt.Printf("%d obligations, %d failed\n", n, bad)
}
