package main

import (
	"fmt"
	"math/big"
	"go/ast"
	"go/token"
	"go/types"
	"os"
	"path/filepath"
	"sort"
	"strings"
	"sync"
	"time"

	"golang.org/x/tools/go/packages"
)

type Engine struct {
	fset      *token.FileSet
	pkgs      []*packages.Package
	funcs     map[string]*FuncInfo
	contracts map[string]*Contract
	macros    map[string]*Macro
	ghosts    map[string]*GhostDecl
	tables      map[string]string // pkg.var -> spec function giving every entry (proved by ground obligations)
	globalFacts []GlobalFact
	axioms      []GlobalFact
	goarch    string
	timeoutS  int
	lemmaMu   sync.Mutex
	lemmaMemo map[string]bool
}

func NewEngine(repo, goarch string, tags string) (*Engine, error) {
	eng := &Engine{funcs: map[string]*FuncInfo{}, contracts: map[string]*Contract{}, macros: map[string]*Macro{}, ghosts: map[string]*GhostDecl{}, tables: map[string]string{}, goarch: goarch, timeoutS: 30, lemmaMemo: map[string]bool{}}
	env := append(os.Environ(), "GOFLAGS=-mod=mod", "GOPROXY=off", "GOSUMDB=off", "GOTOOLCHAIN=local")
	if goarch != "" {
		env = append(env, "GOARCH="+goarch)
	}
	cfg := &packages.Config{
		Mode: packages.NeedName | packages.NeedFiles | packages.NeedSyntax | packages.NeedTypes | packages.NeedTypesInfo | packages.NeedImports | packages.NeedDeps,
		Dir:  repo, Env: env,
	}
	if tags != "" {
		cfg.BuildFlags = []string{"-tags=" + tags}
	}
	pkgs, err := packages.Load(cfg, "./...")
	if err != nil {
		return nil, err
	}
	for _, p := range pkgs {
		if len(p.Errors) > 0 {
			return nil, fmt.Errorf("package %s: %v", p.PkgPath, p.Errors[0])
		}
	}
	eng.pkgs = pkgs
	if len(pkgs) > 0 {
		eng.fset = pkgs[0].Fset
	}
	for _, p := range pkgs {
		for _, f := range p.Syntax {
			for _, d := range f.Decls {
				fd, ok := d.(*ast.FuncDecl)
				if !ok {
					continue
				}
				obj, ok := p.TypesInfo.Defs[fd.Name].(*types.Func)
				if !ok {
					continue
				}
				fi := &FuncInfo{Key: funcKey(obj), Decl: fd, Pkg: p, Obj: obj}
				eng.funcs[fi.Key] = fi
			}
		}
	}
	return eng, nil
}

// ContractFiles lists the guarded contract files of the repository plus extra directories.
func ContractFiles(repo string, extraDirs ...string) []string {
	return ContractFilesArch(repo, "", extraDirs...)
}

// ContractFilesArch skips the assumed contracts of the other architecture's assembly (asm_<arch>.contracts).
func ContractFilesArch(repo, arch string, extraDirs ...string) []string {
	if arch == "" {
		arch = "amd64"
	}
	var out []string
	filepath.Walk(repo, func(p string, info os.FileInfo, err error) error {
		if err == nil && !info.IsDir() && (info.Name() == "zz_contracts_verif.go" || info.Name() == "zz_contracts_verif_"+arch+".go") {
			out = append(out, p)
		}
		return nil
	})
	for _, d := range extraDirs {
		m, _ := filepath.Glob(filepath.Join(d, "*.contracts"))
		for _, f := range m {
			b := filepath.Base(f)
			if strings.HasPrefix(b, "asm_") && b != "asm_"+arch+".contracts" {
				continue
			}
			out = append(out, f)
		}
	}
	sort.Strings(out)
	return out
}

type FuncReport struct {
	Key         string
	Status      string // ok | unsupported | nocontract
	Reason      string
	Obligs      []*Oblig
	Inlined     []string
	UsedContracts []string
	Assumed     []string
	Seconds     float64
}

// globals

func (ex *exec) lookupGlobalByName(st *State, name string) (Value, bool) {
	pkg := ex.root.Pkg
	if len(ex.frames) > 0 {
		pkg = ex.fr().fi.Pkg
	}
	if o := pkg.Types.Scope().Lookup(name); o != nil {
		if v, ok := o.(*types.Var); ok {
			obj := ex.globalObj(st, v, token.NoPos)
			if val, ok := st.heap[obj]; ok {
				return val, true
			}
			return ex.globalInit[obj], true
		}
		if c, ok := o.(*types.Const); ok {
			if b := constToBig(c.Val()); b != nil {
				return &UConst{b}, true
			}
		}
	}
	return nil, false
}

func (ex *exec) globalObj(st *State, v *types.Var, pos token.Pos) *Obj {
	if o, ok := ex.globals[v]; ok {
		if _, in := st.heap[o]; !in {
			st.heap[o] = ex.globalInit[o]
		}
		return o
	}
	o := ex.newObj(v.Type(), v.Pkg().Name()+"."+v.Name(), false)
	o.global = true
	ex.globals[v] = o
	// find the initializer
	var init ast.Expr
	var pkg *packages.Package
	for _, p := range ex.eng.pkgs {
		if p.Types == v.Pkg() {
			pkg = p
		}
	}
	if pkg != nil {
		for _, f := range pkg.Syntax {
			for _, d := range f.Decls {
				gd, ok := d.(*ast.GenDecl)
				if !ok || gd.Tok != token.VAR {
					continue
				}
				for _, sp := range gd.Specs {
					vs := sp.(*ast.ValueSpec)
					for i, n := range vs.Names {
						if pkg.TypesInfo.Defs[n] == v && len(vs.Values) == len(vs.Names) {
							init = vs.Values[i]
						}
					}
				}
			}
		}
	}
	var val Value
	if init != nil && pkg != nil && isLiteralInit(init) && !ex.eng.writtenOutsideInit(pkg, v) {
		// evaluate the constant composite literal in a scratch state
		fi := &FuncInfo{Key: "init:" + v.Name(), Pkg: pkg}
		ex.frames = append(ex.frames, &frame{fi: fi, inlined: true})
		scratch := &State{vars: map[*types.Var]*Obj{}, heap: map[*Obj]Value{}, ghost: map[string]Value{}, gver: map[*Obj]int{}}
		val = ex.evalExprT(scratch, init, v.Type())
		ex.frames = ex.frames[:len(ex.frames)-1]
		for k, x := range scratch.heap {
			ex.globalInit[k] = x
			k.global = true
			k.fresh = false
			st.heap[k] = x
		}
	} else {
		scratch := &State{vars: map[*types.Var]*Obj{}, heap: map[*Obj]Value{}, ghost: map[string]Value{}, gver: map[*Obj]int{}}
		val = ex.freshValue(scratch, v.Type(), v.Pkg().Name()+"."+v.Name(), 0)
		for k, x := range scratch.heap {
			ex.globalInit[k] = x
			k.global = true
			st.heap[k] = x
		}
		for _, p := range scratch.pc {
			st.assume(p)
			ex.globalFacts = append(ex.globalFacts, p)
		}
	}
	ex.globalInit[o] = val
	st.heap[o] = val
	return o
}

func isLiteralInit(e ast.Expr) bool {
	ok := true
	ast.Inspect(e, func(n ast.Node) bool {
		switch x := n.(type) {
		case *ast.CallExpr:
			// conversions of constants are fine; real calls are not
			if id, isId := x.Fun.(*ast.Ident); isId {
				switch id.Name {
				case "uint64", "uint32", "uint8", "byte", "int", "uint", "int64", "int32":
					return true
				}
			}
			if sel, isSel := x.Fun.(*ast.SelectorExpr); isSel {
				if id, isId := sel.X.(*ast.Ident); isId && id.Name == "errors" && sel.Sel.Name == "New" {
					return false // errors.New("...") yields a non-nil error; arguments need no inspection
				}
			}
			ok = false
		case *ast.FuncLit:
			ok = false
		}
		return ok
	})
	return ok
}

// writtenOutsideInit: syntactic scan for assignments to a package-level variable.
func (eng *Engine) writtenOutsideInit(pkg *packages.Package, v *types.Var) bool {
	written := false
	for _, f := range pkg.Syntax {
		ast.Inspect(f, func(n ast.Node) bool {
			check := func(e ast.Expr) {
				for {
					switch x := e.(type) {
					case *ast.Ident:
						if pkg.TypesInfo.ObjectOf(x) == v {
							written = true
						}
						return
					case *ast.IndexExpr:
						e = x.X
					case *ast.SelectorExpr:
						e = x.X
					case *ast.ParenExpr:
						e = x.X
					case *ast.StarExpr:
						e = x.X
					case *ast.SliceExpr:
						e = x.X
					default:
						return
					}
				}
			}
			switch s := n.(type) {
			case *ast.AssignStmt:
				for _, l := range s.Lhs {
					check(l)
				}
			case *ast.IncDecStmt:
				check(s.X)
			case *ast.UnaryExpr:
				if s.Op == token.AND {
					check(s.X)
				}
			}
			return true
		})
	}
	return written
}

// lemma: synchronous side query used by int mode (no-overflow etc.).
func (ex *exec) lemma(st *State, goal *Term, label string, pos token.Pos) bool {
	if goal == True {
		return true
	}
	hyps := st.pc
	if ex.lemmaDepth > 0 {
		hyps = sliceHyps(st.pc, goal, ex.lemmaDepth)
	}
	q := BuildQuery(hyps, goal, ex.ct != nil && ex.ct.Opaque, ex.abstractSpecs())
	ex.eng.lemmaMu.Lock()
	r, ok := ex.eng.lemmaMemo[q.Text]
	ex.eng.lemmaMu.Unlock()
	if !ok {
		t0 := time.Now()
		to := 10
		if ex.lemmaTimeout > 0 {
			to = ex.lemmaTimeout
		}
		res := Solve(q, to, false)
		r = res.Verdict == Proved
		if os.Getenv("GOVC_DEBUG") != "" {
			fmt.Fprintf(os.Stderr, "lemma %s %s: %v %.1fs\n", label, ex.pos(pos), res.Verdict, time.Since(t0).Seconds())
		}
		ex.eng.lemmaMu.Lock()
		ex.eng.lemmaMemo[q.Text] = r
		ex.eng.lemmaMu.Unlock()
		if r {
			o := &Oblig{Name: fmt.Sprintf("%s/lemma:%s@%s", ex.root.Key, label, ex.pos(pos)), Func: ex.root.Key, Kind: "lemma", Label: label, Pos: ex.pos(pos), Res: res, Hyps: hyps, Goal: goal}
			ex.nameN[o.Name]++
			if ex.nameN[o.Name] > 1 {
				o.Name = fmt.Sprintf("%s#%d", o.Name, ex.nameN[o.Name])
			}
			o.presolved = true
			ex.obligs = append(ex.obligs, o)
		}
	}
	return r
}

func (ex *exec) checkPublic(st *State, t *Term, what string, pos token.Pos) {}

func (ex *exec) taintCall(st *State, key string, fn *types.Func, recv Value, args []Value, call *ast.CallExpr) (Value, bool) {
	return nil, false
}

// ---------- contract application at call sites ----------

func (ex *exec) applyContract(st *State, ct *Contract, fn *types.Func, recv Value, args []Value, call *ast.CallExpr) Value {
	sig := fn.Type().(*types.Signature)
	if ex.mode == ModeInt && !strings.Contains(ct.Key, "#") {
		if v, ok := ex.eng.contracts[ct.Key+"#int"]; ok {
			ct = v // numeric view of a contract proved in bit-vector mode (bridging lemma listed as trusted)
		}
	}
	ex.calledContracts[ct.Key] = true
	if ct.Assume {
		ex.assumedCalls[ct.Key] = true
	}
	for _, e := range ct.Ensures {
		if e.Trusted {
			ex.trustedClauses[ct.Key+"/"+e.Label+": "+e.Src] = true
		}
	}
	names := map[string]Value{}
	if sig.Recv() != nil {
		rn := sig.Recv().Name()
		if rn == "" || rn == "_" {
			rn = "recv"
		}
		names[rn] = recv
		names["recv"] = recv
	}
	for i := 0; i < sig.Params().Len() && i < len(args); i++ {
		n := sig.Params().At(i).Name()
		if len(ct.Params) > i {
			n = ct.Params[i]
		}
		if n == "" || n == "_" {
			n = fmt.Sprintf("arg%d", i)
		}
		names[n] = args[i]
	}
	// logical (specification) variables of the callee: instantiated by the caller's `inst`
	// clause for this callee, or by the caller's logical variable of the same name
	if len(ct.Logical) > 0 {
		var insts map[string]ast.Expr
		if cc := ex.eng.contracts[ex.fr().fi.Key]; cc != nil {
			k := ct.Key
			if i := strings.Index(k, "#"); i >= 0 {
				k = k[:i]
			}
			insts = cc.Inst[k]
		}
		saved := ex.midBody
		ex.midBody = true
		cenv := ex.newSpecEnv(st, ex.fr(), nil)
		ex.midBody = saved
		for _, lv := range ct.Logical {
			if e, ok := insts[lv.Name]; ok {
				names[lv.Name] = cenv.eval(e)
			} else if v, ok := ex.fr().params[lv.Name]; ok {
				names[lv.Name] = v
			} else {
				ex.fail(call.Pos(), "call to %s: no instantiation for its logical variable %s", ct.Key, lv.Name)
			}
		}
	}
	pre := st.clone()
	callSerial := freshSerial
	short := ct.Key
	env := &specEnv{ex: ex, st: st, old: pre, names: names, sigOverride: sig, noLocals: true}
	aenv := *env
	aenv.assume = true
	for _, r := range ct.Requires {
		g := env.toBool(env.eval(r.Expr))
		lbl := short
		if r.Label != "" {
			lbl += "." + r.Label
		}
		ex.oblige(st, "pre", lbl, g, call.Pos())
	}
	// panics_if: the caller must show the callee's documented panic conditions do not hold
	for _, p := range ct.PanicsIf {
		g := Not(env.toBool(env.eval(p.Expr)))
		lbl := short + ".nopanic"
		if p.Label != "" {
			lbl += "." + p.Label
		}
		ex.runtimeCheck(st, "pre", lbl, g, call.Pos())
	}
	// havoc assigns
	if ct.TrustedFrame {
		ex.trustedClauses[ct.Key+"/frame (trusted_assigns): used at a call site"] = true
	}
	for _, a := range ct.Assigns {
		ex.havocSpecTarget(st, env, a, call.Pos())
	}
	if !ct.HasAssign {
		// no frame clause: the callee may write everything reachable through its pointer and slice arguments
		// (a contract that wants its caller to know more must say `assigns ...`; its own frame is then checked)
		if recv != nil {
			ex.havocReachable(st, recv, call.Pos())
		}
		for _, a := range args {
			ex.havocReachable(st, a, call.Pos())
		}
	}
	// results
	var res Tuple
	for i := 0; i < sig.Results().Len(); i++ {
		rv := sig.Results().At(i)
		var v Value
		if i == 0 && ct.Returns != nil {
			v = env.eval(ct.Returns)
		} else if i == 0 && len(ct.ReturnsIf) > 0 {
			// the result is an existing value under a condition, otherwise fresh:
			// the condition must be decided at this call site (case-split the caller if not)
			decided := false
			for k, rc := range ct.ReturnsIf {
				c := env.toBool(env.eval(rc.Expr))
				c = ex.simplifyUnderPC(st, c)
				if c != True && c != False {
					if ex.lemma(st, c, "returns_if", call.Pos()) {
						c = True
					} else if ex.lemma(st, Not(c), "returns_if", call.Pos()) {
						c = False
					}
				}
				if c == True {
					v = env.eval(ct.ReturnsIfVal[k])
					decided = true
					break
				}
				if c != False {
					// undecided: a pointer result that is either the given object or nil
					if pv, ok := env.eval(ct.ReturnsIfVal[k]).(*Ptr); ok && len(ct.ReturnsIf) == 1 && ct.ReturnsElse != nil {
						if o, ok := env.eval(ct.ReturnsElse).(*Opaque); ok && o.What == "nil" && pv.Obj != nil && pv.NilC == nil {
							v = &Ptr{Obj: pv.Obj, Path: pv.Path, Span: pv.Span, NilC: Not(c)}
							decided = true
							break
						}
					}
					if _, isSlice := rv.Type().Underlying().(*types.Slice); isSlice {
						// undecided: treat the result as a fresh slice; the regions the callee may
						// write (its assigns clause) have been havocked, so frames stay sound
						break
					}
					ex.fail(call.Pos(), "call to %s: returns_if condition undecided at the call site; add a case split to the caller", ct.Key)
				}
			}
			if !decided {
				if ct.ReturnsElse != nil {
					v = env.eval(ct.ReturnsElse)
					if o, ok := v.(*Opaque); ok && o.What == "nil" {
						v = ex.zeroValue(rv.Type())
					}
				} else {
					v = ex.freshValue(st, rv.Type(), fn.Name()+".result", 0)
					markFresh(st, v)
				}
			}
		} else {
			nm := rv.Name()
			if nm == "" {
				nm = fmt.Sprintf("%s.result%d", fn.Name(), i)
			} else {
				nm = fn.Name() + "." + nm
			}
			v = ex.freshValue(st, rv.Type(), nm, 0)
			markFresh(st, v)
		}
		res = append(res, v)
		if rv.Name() != "" && rv.Name() != "_" {
			names[rv.Name()] = v
		}
		names[fmt.Sprintf("result%d", i)] = v
		if i == 0 {
			names["result"] = v
		}
	}
	aenv.names = names
	prePC := append([]*Term{}, st.pc...)
	serial0 := callSerial
	bind := map[*Term]*Term{}
	for _, e := range ct.Ensures {
		t := aenv.toBool(aenv.eval(e.Expr))
		if len(bind) > 0 {
			t = Subst(t, bind)
		}
		// definitional binding: `v == rhs` for a variable v introduced by this call (havocked
		// location, fresh result, ghost) defines v; substitute instead of keeping an equation
		for _, c := range conjuncts(t) {
			if len(bind) > 0 {
				c = Subst(c, bind)
			}
			if c.Op == "=" {
				a, b := c.Args[0], c.Args[1]
				if !(a.Op == "var" && freshBorn[a] > serial0) {
					a, b = b, a
				}
				if a.Op == "var" && freshBorn[a] > serial0 && !occurs(a, b) && a.Sort.K != KArr {
					m := map[*Term]*Term{a: b}
					if strings.HasPrefix(a.Name, "ghost.") {
						if i := strings.LastIndex(a.Name, "@v"); i > 0 {
							// a ghost field: later reads must see the bound value
							st.ghost[a.Name[len("ghost."):i]] = b
						}
					}
					st.substAll(m)
					for i := len(prePC); i < len(st.pc); i++ {
						st.pc[i] = Subst(st.pc[i], m)
					}
					for k, v := range names {
						names[k] = substValue(v, m)
					}
					for i := range res {
						res[i] = substValue(res[i], m)
					}
					for k, v := range bind {
						bind[k] = Subst(v, m)
					}
					bind[a] = b
					continue
				}
			}
			st.assume(c)
		}
	}
	if len(ct.Ensures) > 0 && !st.infeasible() && !(ex.ct != nil && ex.ct.Opaque) {
		// vacuity guard (skipped where products are opaque: satisfiability of those
		// path conditions is out of the solvers' reach, the cover would always be inconclusive): assuming the callee's postcondition must not make the path contradictory
		o := &Oblig{Name: fmt.Sprintf("%s/cover:after-call:%s", ex.root.Key, ct.Key), Func: ex.root.Key, Kind: "cover", Label: "after-call", Hyps: append([]*Term{}, st.pc...), Goal: False, Pos: ex.pos(call.Pos()), PreHyps: prePC}
		if ex.tag != "" {
			o.Name += "@" + ex.tag
		}
		ex.nameN[o.Name]++
		if ex.nameN[o.Name] > 1 {
			o.Name = fmt.Sprintf("%s#%d", o.Name, ex.nameN[o.Name])
		}
		o.Opaque = ex.ct != nil && ex.ct.Opaque
		ex.obligs = append(ex.obligs, o)
	}
	switch len(res) {
	case 0:
		return nil
	case 1:
		return res[0]
	}
	return res
}

func markFresh(st *State, v Value) {
	switch x := v.(type) {
	case *Ptr:
		if x.Obj != nil {
			x.Obj.fresh = true
			markFresh(st, st.heap[x.Obj])
		}
	case *Slice:
		if x.Base.Obj != nil {
			x.Base.Obj.fresh = true
		}
	case *Struct:
		for _, f := range x.F {
			markFresh(st, f)
		}
	}
}

// havocSpecTarget havocs the location(s) denoted by an assigns expression.
// havocReachable: conservative effect of a callee without a frame clause on one argument value.
func (ex *exec) havocReachable(st *State, v Value, pos token.Pos) {
	defer func() {
		if r := recover(); r != nil {
			if _, ok := r.(unsupported); ok {
				return // read-only tables and opaque backing stores stay as they are
			}
			panic(r)
		}
	}()
	switch t := v.(type) {
	case *Slice:
		if t.Base == nil || t.Base.Obj == nil || ex.readonlyObjs[t.Base.Obj] || ex.ptrTables[t.Base.Obj] != nil {
			return
		}
		if arr, ok := st.heap[t.Base.Obj].(*Term); ok && arr.Sort.K == KArr && len(t.Base.Path) == 0 {
			st.heap[t.Base.Obj] = Fresh(t.Base.Obj.name+"!h", arr.Sort)
		}
	case *Ptr:
		if t.Obj == nil || ex.readonlyObjs[t.Obj] || ex.ptrTables[t.Obj] != nil {
			return
		}
		if _, ok := st.heap[t.Obj].(*LazyRows); ok {
			return
		}
		old := ex.load(st, t, pos)
		ex.store(st, t, ex.havocValue(st, old, ex.typeAt(t.Obj.T, t.Path), t.Obj.name), pos)
		ex.bumpGhost(st, t.Obj)
	}
}

func (ex *exec) havocSpecTarget(st *State, env *specEnv, a ast.Expr, pos token.Pos) {
	if id, ok := a.(*ast.Ident); ok {
		if gd, ok := ex.eng.ghosts[id.Name]; ok && gd.Var {
			st.ghost[id.Name] = Fresh("ghost."+id.Name, gd.Sort)
			return
		}
	}
	if c, ok := a.(*ast.CallExpr); ok {
		if id, ok := c.Fun.(*ast.Ident); ok {
			if gd, ok := ex.eng.ghosts[id.Name]; ok && !gd.Var {
				if gd.Rep != nil && ex.root.Pkg.Name == gd.HomePkg {
					return // represented by concrete state here
				}
				if p, ok := env.eval(c.Args[0]).(*Ptr); ok && p.Obj != nil {
					ex.bumpGhost(st, p.Obj)
				}
				return
			}
		}
	}
	defer func() {
		// ghost fields of the written objects are no longer known
		switch x := a.(type) {
		case *ast.StarExpr:
			if p, ok := env.eval(x.X).(*Ptr); ok && p.Obj != nil {
				ex.bumpGhost(st, p.Obj)
			}
		}
	}()
	// slice range s[lo:hi] or whole slice s
	switch x := a.(type) {
	case *ast.StarExpr:
		p, ok := env.eval(x.X).(*Ptr)
		if !ok || p.Obj == nil {
			ex.fail(pos, "assigns target %s is not a pointer", exprString(a))
		}
		old := ex.load(st, p, pos)
		var t types.Type = p.Obj.T
		ex.store(st, p, ex.havocValue(st, old, ex.typeAt(t, p.Path), p.Obj.name), pos)
		return
	}
	v := env.eval(a)
	switch t := v.(type) {
	case *Slice:
		if t.Base.Obj == nil {
			return
		}
		arr, ok := ex.load(st, t.Base, pos).(*Term)
		if !ok {
			ex.fail(pos, "assigns of non-scalar slice")
		}
		if t.Len.IsConst() && t.Len.Val.Int64() <= expandLimit {
			for i := int64(0); i < t.Len.Val.Int64(); i++ {
				arr = Store(arr, ex.add(t.Off, ex.idxConst(i)), Fresh(t.Base.Obj.name+"!h", arr.Sort.Elem))
			}
			ex.store(st, t.Base, arr, pos)
			return
		}
		na := Fresh(t.Base.Obj.name+"!h", arr.Sort)
		j := BoundVar(fmt.Sprintf("j!h%d", boundCounter()), ex.idxSort())
		in := And(ex.le(t.Off, j), ex.lt(j, ex.add(t.Off, t.Len)))
		st.assume(Forall([]*Term{j}, Implies(Not(in), Eq(Select(na, j), Select(arr, j)))))
		ex.store(st, t.Base, na, pos)
	case *Ptr:
		// a pointer-valued expression: havoc what it points to
		if t.Obj == nil {
			return
		}
		old := ex.load(st, t, pos)
		ex.store(st, t, ex.havocValue(st, old, ex.typeAt(t.Obj.T, t.Path), t.Obj.name), pos)
	default:
		// field of a struct reached through a pointer, e.g. sm3.h : find location
		if p := env.loc(a); p != nil {
			old := ex.load(st, p, pos)
			ex.store(st, p, ex.havocValue(st, old, ex.typeAt(p.Obj.T, p.Path), p.Obj.name), pos)
			return
		}
		ex.fail(pos, "assigns target %s (%T)", exprString(a), v)
	}
}

func (ex *exec) typeAt(t types.Type, path []Sel) types.Type {
	for _, s := range path {
		switch u := t.Underlying().(type) {
		case *types.Struct:
			t = u.Field(s.Field).Type()
		case *types.Array:
			t = u.Elem()
		case *types.Slice:
			t = u.Elem()
		}
	}
	return t
}

// ---------- verification of one function against its contract ----------

func (eng *Engine) VerifyFunc(key string) (rep *FuncReport) {
	t0 := time.Now()
	rep = &FuncReport{Key: key}
	defer func() { rep.Seconds = time.Since(t0).Seconds() }()
	fi := eng.funcs[key]
	ct := eng.contracts[key]
	if fi == nil || fi.Decl.Body == nil {
		rep.Status, rep.Reason = "unsupported", "function not found in the working tree"
		return
	}
	if ct == nil {
		rep.Status = "nocontract"
		return
	}
	ex := &exec{eng: eng, root: fi, ct: ct, mode: ct.Mode, nameN: map[string]int{}, assumedCalls: map[string]bool{}, inlinedFns: map[string]bool{}, calledContracts: map[string]bool{},
		globals: map[*types.Var]*Obj{}, globalInit: map[*Obj]Value{}, usedGlobalFacts: map[string]bool{}, trustedClauses: map[string]bool{}}
	defer func() {
		if r := recover(); r != nil {
			if u, ok := r.(unsupported); ok {
				rep.Status, rep.Reason = "unsupported", u.msg
				rep.Obligs = nil
				return
			}
			panic(r)
		}
	}()
	for _, c := range eng.contracts {
		for i := range c.StmtRules {
			c.StmtRules[i].Used = false
		}
	}
	cases := ex.aliasCases(fi)
	for _, ac := range cases {
		ex.tag = ac.tag
		ex.runCase(fi, ct, ac)
	}
	for i := range ct.StmtRules {
		if !ct.StmtRules[i].Used {
			rep.Status, rep.Reason = "unsupported", "proof step anchored at statement `"+ct.StmtRules[i].Text+"` did not bind to the current source"
			return
		}
	}
	rep.Status = "ok"
	abs := ex.abstractSpecs()
	for _, o := range ex.obligs {
		if o.AbstractOnly != nil {
			o.Abstract = o.AbstractOnly
		} else if !o.NoAbstract {
			o.Abstract = abs
		} else if abs["sm3_cf"] {
			o.Abstract = map[string]bool{"sm3_cf": true} // the compression function itself stays opaque
		}
	}
	rep.Obligs = ex.obligs
	for k := range ex.inlinedFns {
		rep.Inlined = append(rep.Inlined, k)
	}
	for k := range ex.calledContracts {
		rep.UsedContracts = append(rep.UsedContracts, k)
	}
	for k := range ex.assumedCalls {
		rep.Assumed = append(rep.Assumed, k)
	}
	for k := range ex.trustedClauses {
		rep.Assumed = append(rep.Assumed, "trusted clause "+k)
	}
	for k := range ex.usedGlobalFacts {
		rep.Assumed = append(rep.Assumed, "package-initialisation fact / axiom "+k)
	}
	sort.Strings(rep.Inlined)
	sort.Strings(rep.UsedContracts)
	sort.Strings(rep.Assumed)
	return
}

type aliasCase struct {
	tag   string
	class map[string]string // param name -> representative param name
}

// aliasCases enumerates the partitions of pointer parameters with identical pointee types.
func (ex *exec) aliasCases(fi *FuncInfo) []aliasCase {
	sig := fi.Obj.Type().(*types.Signature)
	var ptrs []*types.Var
	if sig.Recv() != nil {
		if _, ok := sig.Recv().Type().Underlying().(*types.Pointer); ok {
			ptrs = append(ptrs, sig.Recv())
		}
	}
	for i := 0; i < sig.Params().Len(); i++ {
		p := sig.Params().At(i)
		if _, ok := p.Type().Underlying().(*types.Pointer); ok && p.Name() != "" && p.Name() != "_" {
			ptrs = append(ptrs, p)
		}
	}
	if ex.ct.NoAlias || len(ptrs) < 2 {
		return []aliasCase{{class: map[string]string{}}}
	}
	compatible := func(a, b *types.Var) bool {
		ta := a.Type().Underlying().(*types.Pointer).Elem().Underlying()
		tb := b.Type().Underlying().(*types.Pointer).Elem().Underlying()
		return types.Identical(ta, tb)
	}
	var out []aliasCase
	assign := make([]int, len(ptrs)) // block index per pointer
	var rec func(i, nblocks int)
	rec = func(i, nblocks int) {
		if i == len(ptrs) {
			cl := map[string]string{}
			var tags []string
			for j, p := range ptrs {
				rep := p.Name()
				for k := 0; k < j; k++ {
					if assign[k] == assign[j] {
						rep = ptrs[k].Name()
						break
					}
				}
				if rep != p.Name() {
					cl[p.Name()] = rep
					tags = append(tags, p.Name()+"="+rep)
				}
			}
			out = append(out, aliasCase{tag: strings.Join(tags, ","), class: cl})
			return
		}
		for b := 0; b <= nblocks; b++ {
			ok := true
			for k := 0; k < i; k++ {
				if assign[k] == b && !compatible(ptrs[k], ptrs[i]) {
					ok = false
				}
			}
			if !ok {
				continue
			}
			assign[i] = b
			nb := nblocks
			if b == nblocks {
				nb++
			}
			rec(i+1, nb)
		}
	}
	rec(0, 0)
	return out
}

func (ex *exec) runCase(fi *FuncInfo, ct *Contract, ac aliasCase) {
	sig := fi.Obj.Type().(*types.Signature)
	info := fi.Pkg.TypesInfo
	st := &State{vars: map[*types.Var]*Obj{}, heap: map[*Obj]Value{}, ghost: map[string]Value{}, gver: map[*Obj]int{}}
	fr := &frame{fi: fi, params: map[string]Value{}}
	ex.frames = []*frame{fr}
	vals := map[string]Value{}
	bind := func(v *types.Var) {
		if v == nil || v.Name() == "" || v.Name() == "_" {
			return
		}
		var val Value
		if rep, ok := ac.class[v.Name()]; ok {
			val = vals[rep]
		} else {
			val = ex.freshValue(st, v.Type(), v.Name(), 0)
		}
		vals[v.Name()] = val
		ex.declare(st, v, val)
		fr.params[v.Name()] = val
		if sl, ok := val.(*Slice); ok && sl.Base.Obj != nil {
			if ex.paramSlices == nil {
				ex.paramSlices = map[*Obj]*Slice{}
			}
			ex.paramSlices[sl.Base.Obj] = sl
		}
	}
	if fi.Decl.Recv != nil && len(fi.Decl.Recv.List) > 0 && len(fi.Decl.Recv.List[0].Names) > 0 {
		bind(info.Defs[fi.Decl.Recv.List[0].Names[0]].(*types.Var))
	}
	for _, f := range fi.Decl.Type.Params.List {
		for _, n := range f.Names {
			if v, ok := info.Defs[n].(*types.Var); ok {
				bind(v)
			}
		}
	}
	fr.results = ex.declareResults(st, fi)
	for _, lv := range ct.Logical {
		fr.params[lv.Name] = ex.freshLogical(st, lv)
	}
	for _, g := range ex.globalFacts {
		st.assume(g)
	}
	for _, gf := range ex.eng.globalFacts {
		if gf.Pkg != fi.Pkg.Name {
			continue
		}
		// a fact that cannot be evaluated here (identifier gone, wrong mode) is simply not used
		func() {
			defer func() {
				if r := recover(); r != nil {
					if _, ok := r.(unsupported); !ok {
						panic(r)
					}
				}
			}()
			env := ex.newSpecEnv(st, fr, nil)
			env.assume = true
			t := env.toBool(env.eval(gf.Clause.Expr))
			st.assume(t)
			ex.usedGlobalFacts[gf.Clause.Label] = true
		}()
	}
	if ct.Mode == ModeInt {
		for _, ax := range ex.eng.axioms {
			use := false
			for _, u := range ct.UseAxioms {
				if u == ax.Clause.Label {
					use = true
				}
			}
			if !use {
				continue
			}
			env := ex.newSpecEnv(st, fr, nil)
			env.assume = true
			st.assume(env.toBool(env.eval(ax.Clause.Expr)))
			ex.usedGlobalFacts["axiom "+ax.Clause.Label] = true
		}
	}
	for _, r := range ct.Requires {
		env := ex.newSpecEnv(st, fr, nil)
		env.assume = true
		t := env.toBool(env.eval(r.Expr))
		st.assume(t)
		st.name("req:"+r.Label, t)
	}
	ex.mulLog = nil
	for _, f := range ct.Facts {
		ex.applyFact(st, fr, f, fi.Decl.Pos())
	}
	// vacuity cover: the precondition must be satisfiable
	ex.cover(st, "requires", fi.Decl.Pos())
	caseList := ct.Cases
	if len(caseList) == 0 {
		caseList = []Clause{{Label: ""}}
	} else {
		var all []*Term
		for _, c := range caseList {
			all = append(all, ex.evalSpecBool(st, fr, c.Expr, nil))
		}
		ex.oblige(st.clone(), "cases", "exhaustive", Or(all...), fi.Decl.Pos())
	}
	baseTag := ex.tag
	for ci, c := range caseList {
		cst := st.clone()
		if c.Expr != nil {
			cst.assume(ex.evalSpecBool(cst, fr, c.Expr, nil))
			lbl := c.Label
			if lbl == "" {
				lbl = fmt.Sprintf("case%d", ci+1)
			}
			if baseTag != "" {
				ex.tag = baseTag + "," + lbl
			} else {
				ex.tag = lbl
			}
			ex.cover(cst, "case", fi.Decl.Pos())
		}
		fr.loopOrd = 0
		fr.entry = cst.clone()
		ex.allowed = nil
		ex.copyN = 0
		outs := ex.execBlock(cst, fi.Decl.Body.List)
		for _, o := range outs {
			switch o.kind {
			case OReturn, ONormal:
				if o.kind == ONormal && sig.Results().Len() > 0 {
					ex.fail(fi.Decl.Pos(), "missing return")
				}
				if !ct.Opaque {
					ex.cover(o.st, "return", o.pos)
				}
				ex.checkPost(o, fi, ct, fr)
			case OPanic:
				var conds []*Term
				for _, p := range ct.PanicsIf {
					env := ex.newSpecEnv(fr.entry, fr, nil)
					env.old = fr.entry
					conds = append(conds, env.toBool(env.eval(p.Expr)))
				}
				ex.oblige(o.st, "panic", "allowed", Or(conds...), o.pos)
			default:
				ex.fail(fi.Decl.Pos(), "stray break/continue")
			}
		}
	}
	ex.tag = baseTag
}

// cover: vacuity check — the current path condition must be satisfiable.
func (ex *exec) cover(st *State, what string, pos token.Pos) {
	o := &Oblig{Name: fmt.Sprintf("%s/cover:%s", ex.root.Key, what), Func: ex.root.Key, Kind: "cover", Label: what, Hyps: append([]*Term{}, st.pc...), Goal: False, Pos: ex.pos(pos)}
	if ex.tag != "" {
		o.Name += "@" + ex.tag
	}
	ex.nameN[o.Name]++
	if ex.nameN[o.Name] > 1 {
		o.Name = fmt.Sprintf("%s#%d", o.Name, ex.nameN[o.Name])
	}
	o.Opaque = ex.ct != nil && ex.ct.Opaque
	ex.obligs = append(ex.obligs, o)
}

func (ex *exec) checkPost(o *Outcome, fi *FuncInfo, ct *Contract, fr *frame) {
	sig := fi.Obj.Type().(*types.Signature)
	st := o.st
	extra := map[string]Value{}
	for i, ro := range fr.results {
		v := st.heap[ro]
		if o.ret != nil {
			v = o.ret[i]
		}
		extra[fmt.Sprintf("result%d", i)] = v
		if i == 0 {
			extra["result"] = v
		}
		if n := sig.Results().At(i).Name(); n != "" && n != "_" {
			extra[n] = v
		}
	}
	proved := map[string]*Term{}
	provedDefs := map[string][]*Term{} // definitional facts introduced while evaluating a labelled ensures
	for _, e := range ct.Ensures {
		if e.Trusted {
			ex.trustedClauses[ct.Key+"/"+e.Label+": "+e.Src] = true
			continue
		}
		env := ex.newSpecEnv(st, fr, extra)
		env.witness = ct.Witness
		npc0 := len(st.pc)
		g := env.toBool(env.eval(e.Expr))
		ownDefs := append([]*Term{}, st.pc[npc0:]...)
		ost := st.clone()
		if len(e.From) > 0 {
			// structured proof step: only the entry assumptions and the named, already
			// established postconditions are used as hypotheses
			ost.pc = append([]*Term{}, fr.entry.pc...)
			for _, p := range st.pc {
				if !hasQuantifier(p) && termSize(p, 60) < 60 {
					ost.pc = append(ost.pc, p)
				}
			}
			ost.pc = append(ost.pc, ownDefs...)
			for _, f := range e.From {
				if f == "-" {
					continue
				}
				if p, ok := proved[f]; ok {
					ost.assume(p)
					ost.pc = append(ost.pc, provedDefs[f]...)
				} else if p, ok := st.named[f]; ok {
					ost.pc = append(ost.pc, p) // a fact named on this path (requires, invariant, copy, proof step)
				}
				// a name that does not exist on this path is simply not available
			}
		}
		n0 := len(ex.obligs)
		ex.oblige(ost, "post", e.Label, g, o.pos)
		if len(e.From) > 0 {
			for _, ob := range ex.obligs[n0:] {
				ob.AltHyps = append([]*Term{}, st.pc...)
			}
		}
		if e.Label != "" {
			proved[e.Label] = g
			provedDefs[e.Label] = ownDefs
		}
	}
	if ct.Returns != nil && len(fr.results) > 0 {
		env := ex.newSpecEnv(st, fr, extra)
		want := env.eval(ct.Returns)
		ex.oblige(st.clone(), "post", "returns", env.valuesEqualSpec(extra["result"], want), o.pos)
	}
	for k, rc := range ct.ReturnsIf {
		env := ex.newSpecEnv(st, fr, extra)
		c := env.toBool(env.eval(rc.Expr))
		want := env.eval(ct.ReturnsIfVal[k])
		ex.oblige(st.clone(), "post", "returns_if", Implies(c, env.valuesEqualSpec(extra["result"], want)), o.pos)
	}
	if len(ct.ReturnsIf) > 0 {
		// otherwise the result must be freshly allocated
		env := ex.newSpecEnv(st, fr, extra)
		var cs []*Term
		for _, rc := range ct.ReturnsIf {
			cs = append(cs, env.toBool(env.eval(rc.Expr)))
		}
		fresh := False
		switch r := extra["result"].(type) {
		case *Slice:
			fresh = BoolC(r.Base.Obj == nil || r.Base.Obj.fresh)
		case *Ptr:
			fresh = BoolC(r.Obj == nil || r.Obj.fresh)
		}
		if ct.ReturnsElse != nil {
			want := env.eval(ct.ReturnsElse)
			fresh = env.valuesEqualSpec(extra["result"], want)
		}
		ex.oblige(st.clone(), "post", "returns_else", Or(Or(cs...), fresh), o.pos)
	}
	ex.checkFrame(st, fi, ct, fr, extra, o.pos)
}

// checkFrame: every pre-existing object that changed must be covered by assigns.
func (ex *exec) checkFrame(st *State, fi *FuncInfo, ct *Contract, fr *frame, extra map[string]Value, pos token.Pos) {
	if !ct.HasAssign {
		return
	}
	if ct.TrustedFrame {
		ex.trustedClauses[ct.Key+"/frame (trusted_assigns): not checked against the body"] = true
		return
	}
	type target struct {
		p  *Ptr
		sl *Slice
	}
	byObj := map[*Obj][]target{}
	env := ex.newSpecEnv(fr.entry, fr, extra)
	env.old = fr.entry
	for _, a := range ct.Assigns {
		if id, ok := a.(*ast.Ident); ok {
			if gd, ok := ex.eng.ghosts[id.Name]; ok && gd.Var {
				continue
			}
		}
		if c, ok := a.(*ast.CallExpr); ok {
			if id, ok := c.Fun.(*ast.Ident); ok {
				if gd, ok := ex.eng.ghosts[id.Name]; ok && !gd.Var {
					continue
				}
			}
		}
		var v Value
		if s, ok := a.(*ast.StarExpr); ok {
			v = env.eval(s.X)
		} else {
			v = env.eval(a)
			if _, isP := v.(*Ptr); !isP {
				if _, isS := v.(*Slice); !isS {
					if p := env.loc(a); p != nil {
						v = p
					}
				}
			}
		}
		switch t := v.(type) {
		case *Ptr:
			if t.Obj != nil {
				byObj[t.Obj] = append(byObj[t.Obj], target{p: t})
			}
		case *Slice:
			if t.Base.Obj != nil {
				byObj[t.Base.Obj] = append(byObj[t.Base.Obj], target{sl: t})
			}
		default:
			ex.fail(pos, "assigns target %s", exprString(a))
		}
	}
	var objs []*Obj
	for o := range fr.entry.heap {
		objs = append(objs, o)
	}
	for o := range ex.globalInit {
		if _, ok := fr.entry.heap[o]; !ok {
			objs = append(objs, o)
		}
	}
	sort.Slice(objs, func(i, j int) bool { return objs[i].id < objs[j].id })
	for _, o := range objs {
		if o.fresh {
			continue
		}
		before, okb := fr.entry.heap[o]
		if !okb {
			before = ex.globalInit[o]
		}
		after, ok := st.heap[o]
		if !ok || valueIdentical(before, after) {
			continue
		}
		// apply the permitted changes to `before` and compare
		expect := before
		whole := false
		var ranges []*Slice
		for _, t := range byObj[o] {
			if t.p != nil {
				if len(t.p.Path) == 0 {
					whole = true
					break
				}
				expect = ex.update(expect, t.p.Path, ex.navigate(after, t.p.Path, pos), pos)
			} else {
				if len(t.sl.Base.Path) == 0 {
					ranges = append(ranges, t.sl)
				} else {
					// slice of an array field: treat as the whole field
					expect = ex.update(expect, t.sl.Base.Path, ex.navigate(after, t.sl.Base.Path, pos), pos)
				}
			}
		}
		if whole {
			continue
		}
		var g *Term
		if ps, isParam := ex.paramSlices[o]; isParam && len(ranges) == 0 {
			// a slice argument: only its bytes [0:len) are protected, not the spare capacity
			ea, ok1 := expect.(*Term)
			aa, ok2 := after.(*Term)
			if ok1 && ok2 {
				j := BoundVar(fmt.Sprintf("j!f%d", boundCounter()), ex.idxSort())
				in := And(ex.le(ps.Off, j), ex.lt(j, ex.add(ps.Off, ps.Len)))
				g = Forall([]*Term{j}, Implies(in, Eq(Select(ea, j), Select(aa, j))))
			} else {
				g = valueEqTerm(expect, after)
			}
		} else if len(ranges) > 0 {
			ea, ok1 := expect.(*Term)
			aa, ok2 := after.(*Term)
			if !ok1 || !ok2 {
				ex.fail(pos, "frame of non-scalar slice object")
			}
			j := BoundVar(fmt.Sprintf("j!f%d", boundCounter()), ex.idxSort())
			var in []*Term
			for _, r := range ranges {
				in = append(in, And(ex.le(r.Off, j), ex.lt(j, ex.add(r.Off, r.Len))))
			}
			g = Forall([]*Term{j}, Implies(And(Not(Or(in...)), ex.le(ex.idxConst(0), j), ex.lt(j, ex.lenBound())), Eq(Select(ea, j), Select(aa, j))))
		} else {
			g = valueEqTerm(expect, after)
		}
		ex.oblige(st.clone(), "frame", o.name, g, pos)
	}
}

func valueIdentical(a, b Value) bool {
	switch x := a.(type) {
	case *Term:
		y, ok := b.(*Term)
		return ok && x == y
	case *Struct:
		y, ok := b.(*Struct)
		if !ok || len(x.F) != len(y.F) {
			return false
		}
		for i := range x.F {
			if !valueIdentical(x.F[i], y.F[i]) {
				return false
			}
		}
		return true
	case *Array:
		y, ok := b.(*Array)
		if !ok || len(x.E) != len(y.E) {
			return false
		}
		for i := range x.E {
			if !valueIdentical(x.E[i], y.E[i]) {
				return false
			}
		}
		return true
	case *Ptr:
		y, ok := b.(*Ptr)
		return ok && samePtr(x, y)
	case *Slice:
		y, ok := b.(*Slice)
		return ok && samePtr(x.Base, y.Base) && x.Off == y.Off && x.Len == y.Len && x.Cap == y.Cap
	case *ErrV:
		y, ok := b.(*ErrV)
		return ok && x.NonNil == y.NonNil
	case *Opaque:
		return true
	case *LazyRows:
		y, ok := b.(*LazyRows)
		return ok && x == y
	case *Iface:
		y, ok := b.(*Iface)
		return ok && x.Opaque == y.Opaque && typesEq(x.T, y.T) && (x.V == nil && y.V == nil || valueIdentical(x.V, y.V))
	case nil:
		return b == nil
	}
	return false
}

func valueEqTerm(a, b Value) *Term {
	switch x := a.(type) {
	case *Term:
		if y, ok := b.(*Term); ok && x.Sort == y.Sort {
			return Eq(x, y)
		}
	case *Struct:
		if y, ok := b.(*Struct); ok && len(x.F) == len(y.F) {
			var cs []*Term
			for i := range x.F {
				cs = append(cs, valueEqTerm(x.F[i], y.F[i]))
			}
			return And(cs...)
		}
	case *Array:
		if y, ok := b.(*Array); ok && len(x.E) == len(y.E) {
			var cs []*Term
			for i := range x.E {
				cs = append(cs, valueEqTerm(x.E[i], y.E[i]))
			}
			return And(cs...)
		}
	}
	return BoolC(valueIdentical(a, b))
}

// SolveAll discharges the obligations of a report in parallel.
func (eng *Engine) SolveAll(obs []*Oblig) {
	var wg sync.WaitGroup
	sem := make(chan struct{}, 10)
	for _, o := range obs {
		if o.Trivial || o.presolved {
			continue
		}
		wg.Add(1)
		o := o
		go func() {
			defer wg.Done()
			sem <- struct{}{}
			defer func() { <-sem }()
			q := BuildQuery(o.Hyps, o.Goal, o.Opaque, o.Abstract)
			o.query = q
			if o.Kind == "cover" {
				// a cover must be satisfiable: sat = covered, unsat = vacuous (failure),
				// unknown = inconclusive (not a failure, reported as such)
				o.Res = Solve(q, 2, false)
				switch o.Res.Verdict {
				case Refuted:
					o.Res.Verdict = Proved
					o.Res.Model = ""
					o.Res.Detail = "covered (sat)"
				case Proved:
					o.Res.Verdict = Refuted
					o.Res.Detail = "vacuous: assumptions are contradictory"
					if o.PreHyps != nil {
						// contradictory only if the path was still satisfiable before the call
						pre := Solve(BuildQuery(o.PreHyps, False, o.Opaque, o.Abstract), 3, false)
						if pre.Verdict == Proved {
							o.Res.Verdict = Proved
							o.Res.Detail = "path already infeasible before the call"
						} else {
							o.Res.Detail = "vacuous: the callee's postcondition contradicts what is known at the call (contract inconsistency)"
						}
					}
				default:
					o.Res.Verdict = Proved
					o.Res.Detail = "cover inconclusive (solver returned unknown; not vacuous as far as known)"
					o.Inconclusive = true
				}
				return
			}
			// tactic: X mod c == Y mod c from a hypothesis A == B (or a disjunction of such) with A - X the zero
			// polynomial and every coefficient of B - Y divisible by the constant c (exact polynomial arithmetic)
			if modCongruence(o.Hyps, o.Goal) {
				o.Res = SolveResult{Verdict: Proved, Solver: "simplifier", Detail: "mod-congruence rule (polynomial normal form)"}
				return
			}
			// first try with the cone of influence of the goal (hypotheses connected to the goal
			// through shared variables; dropping hypotheses is sound), then with everything
			sl := coneOfInfluence(o.Hyps, o.Goal)
			// attempt 0: without quantified hypotheses (often irrelevant and costly)
			var qf []*Term
			for _, h := range sl {
				if !hasQuantifier(h) {
					qf = append(qf, h)
				}
			}
			if len(qf) < len(sl) {
				r := Solve(BuildQuery(qf, o.Goal, o.Opaque, o.Abstract), eng.timeoutS/3+1, false)
				if r.Verdict == Proved {
					r.Detail = fmt.Sprintf("quantifier-free part of the cone of influence: %d of %d hypotheses", len(qf), len(o.Hyps))
					o.Res = r
					return
				}
			}
			if len(sl)*5 < len(o.Hyps)*4 {
				q2 := BuildQuery(sl, o.Goal, o.Opaque, o.Abstract)
				r := Solve(q2, eng.timeoutS/2+1, false)
				if r.Verdict == Proved {
					r.Detail = fmt.Sprintf("cone of influence: %d of %d hypotheses", len(sl), len(o.Hyps))
					o.Res = r
					return
				}
			}
			o.Res = Solve(q, eng.timeoutS, true)
			if o.Res.Verdict != Proved && o.AltHyps != nil {
				r := Solve(BuildQuery(o.AltHyps, o.Goal, o.Opaque, o.Abstract), eng.timeoutS, true)
				if r.Verdict == Proved {
					r.Detail = "proved from the full path condition (structured attempt failed)"
				}
				if r.Verdict != Unknown {
					o.Res = r
				} else {
					o.Res.Verdict = Unknown // a countermodel of the restricted hypotheses is not a countermodel
					o.Res.Model = ""
				}
			}
		}()
	}
	wg.Wait()
	// an `unknown` may be a time-out caused by load: retry those few with twice the time, two at a time
	var retry []*Oblig
	for _, o := range obs {
		if o.Kind != "cover" && !o.Trivial && !o.presolved && o.Res.Verdict == Unknown {
			retry = append(retry, o)
		}
	}
	if len(retry) > 0 && len(retry) <= 12 {
		var wg2 sync.WaitGroup
		sem2 := make(chan struct{}, 2)
		for _, o := range retry {
			wg2.Add(1)
			o := o
			go func() {
				defer wg2.Done()
				sem2 <- struct{}{}
				defer func() { <-sem2 }()
				hy := o.Hyps
				if o.AltHyps != nil {
					hy = o.AltHyps
				}
				r := Solve(BuildQuery(coneOfInfluence(hy, o.Goal), o.Goal, o.Opaque, o.Abstract), 2*eng.timeoutS, true)
				if r.Verdict != Unknown {
					r.Detail = "second attempt (first timed out)"
					o.Res = r
				}
			}()
		}
		wg2.Wait()
		// third attempt, one at a time (no contention with our own solver processes), for the few still undecided
		var again []*Oblig
		for _, o := range retry {
			if o.Res.Verdict == Unknown {
				again = append(again, o)
			}
		}
		if len(again) <= 4 {
			for _, o := range again {
				hy := o.Hyps
				if o.AltHyps != nil {
					hy = o.AltHyps
				}
				r := Solve(BuildQuery(coneOfInfluence(hy, o.Goal), o.Goal, o.Opaque, o.Abstract), 3*eng.timeoutS, true)
				if r.Verdict != Unknown {
					r.Detail = "third attempt, run alone (earlier attempts timed out)"
					o.Res = r
				}
			}
		}
	}
	// return-path covers: a case split makes some return paths infeasible, which is fine;
	// it is a vacuity failure only if *every* return path of a function case is infeasible
	type grp struct{ all, vac []*Oblig }
	groups := map[string]*grp{}
	for _, o := range obs {
		if o.Kind == "cover" && o.Label == "return" {
			k := o.Func + "@" + tagOf(o.Name)
			g := groups[k]
			if g == nil {
				g = &grp{}
				groups[k] = g
			}
			g.all = append(g.all, o)
			if o.Res.Verdict == Refuted {
				g.vac = append(g.vac, o)
			}
		}
	}
	for _, g := range groups {
		if len(g.vac) < len(g.all) {
			for _, o := range g.vac {
				o.Res.Verdict = Proved
				o.Res.Detail = "infeasible return path (other return paths of this case are reachable)"
			}
		}
	}
}

func tagOf(name string) string {
	if i := strings.Index(name, "@"); i >= 0 {
		t := name[i+1:]
		if j := strings.Index(t, "#"); j >= 0 {
			t = t[:j]
		}
		return t
	}
	return ""
}

// applyFact: built-in arithmetic rules that the solvers do not find on their own.
//   mulbound(x, y, cx, cy):  0<=x<=cx, 0<=y<=cy  |-  0 <= x*y <= cx*cy   (monotonicity of * on naturals)
func (ex *exec) applyFact(st *State, fr *frame, f Clause, pos token.Pos) {
	call, ok := f.Expr.(*ast.CallExpr)
	if !ok {
		ex.fail(pos, "fact must be a rule application")
	}
	name := call.Fun.(*ast.Ident).Name
	switch name {
	case "mulbound":
		if ex.mode != ModeInt {
			ex.fail(pos, "mulbound needs int mode")
		}
		x := ex.evalSpecTerm(st, fr, call.Args[0], nil)
		y := ex.evalSpecTerm(st, fr, call.Args[1], nil)
		cx := ex.evalSpecTerm(st, fr, call.Args[2], nil)
		cy := ex.evalSpecTerm(st, fr, call.Args[3], nil)
		if !cx.IsConst() || !cy.IsConst() {
			ex.fail(pos, "mulbound bounds must be constants")
		}
		ex.oblige(st, "fact", f.Label+".x", And(IntLe(IntC64(0), x), IntLe(x, cx)), pos)
		ex.oblige(st, "fact", f.Label+".y", And(IntLe(IntC64(0), y), IntLe(y, cy)), pos)
		p := IntMul(x, y)
		st.assume(IntLe(IntC64(0), p))
		st.assume(IntLe(p, IntMul(cx, cy)))
	default:
		ex.fail(pos, "unknown rule %s", name)
	}
}

// sliceHyps keeps the hypotheses within `depth` steps of the goal in the
// shared-symbol graph.  Dropping hypotheses is always sound.
func sliceHyps(hyps []*Term, goal *Term, depth int) []*Term {
	syms := func(t *Term) map[string]bool {
		vars, ufs := map[string]*Term{}, map[string]*Term{}
		collectSyms(t, vars, ufs, map[*Term]bool{})
		m := map[string]bool{}
		for k := range vars {
			m[k] = true
		}
		return m
	}
	hs := make([]map[string]bool, len(hyps))
	for i, h := range hyps {
		hs[i] = syms(h)
	}
	front := syms(goal)
	in := make([]bool, len(hyps))
	for d := 0; d < depth; d++ {
		next := map[string]bool{}
		for i := range hyps {
			if in[i] {
				continue
			}
			hit := false
			for k := range hs[i] {
				if front[k] {
					hit = true
					break
				}
			}
			if hit {
				in[i] = true
				for k := range hs[i] {
					if !front[k] {
						next[k] = true
					}
				}
			}
		}
		for k := range next {
			front[k] = true
		}
	}
	var out []*Term
	for i, h := range hyps {
		if in[i] {
			out = append(out, h)
		}
	}
	return out
}

func (ex *exec) bumpGhost(st *State, o *Obj) {
	st.gver[o]++
	pre := "(" + o.String()
	for k := range st.ghost {
		if strings.Contains(k, pre) {
			delete(st.ghost, k)
		}
	}
}

// coneOfInfluence keeps the hypotheses transitively connected to the goal through shared
// variables; closed hypotheses (axioms) are kept when they share an uninterpreted function
// with the cone.
func coneOfInfluence(hyps []*Term, goal *Term) []*Term {
	type syms struct{ vars, ufs map[string]bool }
	get := func(t *Term) syms {
		vars, ufs := map[string]*Term{}, map[string]*Term{}
		collectSyms(t, vars, ufs, map[*Term]bool{})
		s := syms{map[string]bool{}, map[string]bool{}}
		for k := range vars {
			s.vars[k] = true
		}
		for k := range ufs {
			s.ufs[k] = true
		}
		return s
	}
	hs := make([]syms, len(hyps))
	for i, h := range hyps {
		hs[i] = get(h)
	}
	g := get(goal)
	front := g.vars
	ufs := g.ufs
	in := make([]bool, len(hyps))
	for changed := true; changed; {
		changed = false
		for i := range hyps {
			if in[i] {
				continue
			}
			hit := false
			if len(hs[i].vars) == 0 {
				for k := range hs[i].ufs {
					if ufs[k] {
						hit = true
						break
					}
				}
			} else {
				for k := range hs[i].vars {
					if front[k] {
						hit = true
						break
					}
				}
			}
			if hit {
				in[i] = true
				changed = true
				for k := range hs[i].vars {
					front[k] = true
				}
				for k := range hs[i].ufs {
					ufs[k] = true
				}
			}
		}
	}
	var out []*Term
	for i, h := range hyps {
		if in[i] {
			out = append(out, h)
		}
	}
	return out
}

func conjuncts(t *Term) []*Term {
	if t.Op == "and" {
		return t.Args
	}
	return []*Term{t}
}

var quantMemo = map[*Term]bool{}
var quantMu sync.Mutex

func hasQuantifier(t *Term) bool {
	quantMu.Lock()
	defer quantMu.Unlock()
	var rec func(t *Term) bool
	rec = func(t *Term) bool {
		if v, ok := quantMemo[t]; ok {
			return v
		}
		r := t.Op == "forall" || t.Op == "exists"
		if !r {
			for _, a := range t.Args {
				if rec(a) {
					r = true
					break
				}
			}
		}
		quantMemo[t] = r
		return r
	}
	return rec(t)
}

func (ex *exec) abstractSpecs() map[string]bool {
	if ex.ct == nil || len(ex.ct.AbstractSpecs) == 0 {
		return nil
	}
	m := map[string]bool{}
	for _, n := range ex.ct.AbstractSpecs {
		m[n] = true
	}
	return m
}

// freshLogical: a universally quantified specification variable of a contract.
func (ex *exec) freshLogical(st *State, lv LogicalVar) Value {
	switch lv.Kind {
	case "bytes":
		o := ex.newObj(nil, "logical."+lv.Name, false)
		var so *Sort
		if ex.mode == ModeInt {
			so = ArrSortR(IntSort, IntSort, big.NewInt(0), big.NewInt(255))
		} else {
			so = ArrSort(BVSort(64), BVSort(8))
		}
		st.heap[o] = Fresh("logical."+lv.Name, so)
		big := ex.lenBound()
		return &Slice{Base: &Ptr{Obj: o}, Off: ex.idxConst(0), Len: big, Cap: big, Nil: False}
	case "int":
		return Fresh("logical."+lv.Name, ex.idxSort())
	}
	ex.fail(token.NoPos, "logical variable kind %s", lv.Kind)
	return nil
}

// modCongruence decides goals of the form (X mod c) == (Y mod c), c a positive constant, from one hypothesis that is an
// equation A == B or a disjunction of equations A_i == B_i such that, for every disjunct, X - A_i is the zero polynomial and
// all coefficients of B_i - Y are multiples of c (or the same with the sides exchanged).
func modCongruence(hyps []*Term, goal *Term) bool {
	if goal == nil || goal.Op != "=" || len(goal.Args) != 2 {
		return false
	}
	l, r := goal.Args[0], goal.Args[1]
	if l.Op != "mod" || r.Op != "mod" || l.Args[1] != r.Args[1] || l.Args[1].Val == nil || l.Args[1].Val.Sign() <= 0 {
		return false
	}
	c := l.Args[1].Val
	X, Y := polyOf(l.Args[0]), polyOf(r.Args[0])
	divisible := func(p *Poly) bool {
		for _, m := range p.ms {
			if new(big.Int).Mod(m.coef, c).Sign() != 0 {
				return false
			}
		}
		return true
	}
	// equations atom == term among the hypotheses, used to normalise differences
	subst := map[*Term]*Term{}
	for _, h := range hyps {
		if h.Op == "=" && len(h.Args) == 2 && h.Args[0].Sort.K == KInt {
			a, b := h.Args[0], h.Args[1]
			if a.Op == "var" && !occurs(a, b) {
				if _, ok := subst[a]; !ok {
					subst[a] = b
				}
			} else if b.Op == "var" && !occurs(b, a) {
				if _, ok := subst[b]; !ok {
					subst[b] = a
				}
			}
		}
	}
	zero := func(p *Poly) bool {
		for i := 0; i < 6 && len(p.ms) > 0; i++ {
			changed := false
			t := p.substTerm(func(a *Term) *Term {
				if r, ok := subst[a]; ok {
					changed = true
					return r
				}
				return a
			})
			p = polyOf(t)
			if !changed {
				break
			}
		}
		return len(p.ms) == 0
	}
	okEq := func(e *Term) bool {
		if e.Op != "=" || len(e.Args) != 2 || e.Args[0].Sort.K != KInt {
			return false
		}
		A, B := polyOf(e.Args[0]), polyOf(e.Args[1])
		if divisible(polySub(B, Y)) && zero(polySub(X, A)) {
			return true
		}
		if divisible(polySub(A, Y)) && zero(polySub(X, B)) {
			return true
		}
		return false
	}
	if os.Getenv("GOVC_DEBUG_MODC") != "" {
		for _, h := range hyps {
			if h.Op == "or" {
				for _, d := range h.Args {
					if d.Op == "=" && d.Args[0].Sort.K == KInt {
						A, B := polyOf(d.Args[0]), polyOf(d.Args[1])
						fmt.Fprintf(os.Stderr, "modc: disjunct |X-A|=%d |X-B|=%d |B-Y|=%d |A-Y|=%d divBY=%v\n", len(polySub(X, A).ms), len(polySub(X, B).ms), len(polySub(B, Y).ms), len(polySub(A, Y).ms), divisible(polySub(B, Y)))
					}
				}
			}
		}
	}
	for _, h := range hyps {
		if okEq(h) {
			return true
		}
		if h.Op == "or" {
			all := len(h.Args) > 0
			for _, d := range h.Args {
				if !okEq(d) {
					all = false
					break
				}
			}
			if all {
				return true
			}
		}
	}
	return false
}
