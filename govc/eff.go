package main

// Write-effect contracts (property C17): which memory a function may write.
//
// Contract clauses on entries keyed `<function>#eff`:
//   writes p, q          the contents of parameters p, q (or the receiver) may be written; every other parameter is read-only
// and on entries keyed `type <pkg>.<Type>#eff`:
//   immutable            no method of the type writes through its receiver (objects shared between goroutines)
//
// Obligations (decided by a flow-insensitive points-to/effect analysis of the typed AST, transitive through callees,
// assembly stubs taken from the assigns clauses of spec/asm_*.contracts):
//   no-global-write:<var>   the function does not assign a package-level variable or write through it (outside init)
//   readonly:<param>        a parameter not listed under `writes` is not written through, directly or by a callee
// With no write to package-level state, to shared receivers or to input buffers, the only memory a call writes is
// memory it allocated itself or its declared destination: concurrent calls on shared objects and shared read-only
// inputs cannot race and each returns what it returns when run alone (Go memory model: concurrent reads do not race).

import (
	"fmt"
	"go/ast"
	"go/token"
	"go/types"
	"sort"
	"strings"
)

type effSummary struct {
	writes  []bool            // per parameter (receiver first): contents may be written
	globals map[string]string // package-level variables written (directly or through callees) -> where
	direct  map[string]string // package-level variables written by this function's own statements
	why     []string          // per parameter: first reason
	rets    map[int]bool      // parameters (receiver first) a pointer-like result may alias
}

type effAnalysis struct {
	eng    *Engine
	memo   map[string]*effSummary
	inprog map[string]bool
	asm    map[string]map[string]bool // assembly stub -> written parameter names
}

func NewEffAnalysis(eng *Engine) *effAnalysis {
	ea := &effAnalysis{eng: eng, memo: map[string]*effSummary{}, inprog: map[string]bool{}, asm: map[string]map[string]bool{}}
	// assembly stubs: written parameters from the assigns clauses of their (assumed, asmvc-checked) contracts
	for key, ct := range eng.contracts {
		if !ct.Assume || strings.Contains(key, "#") {
			continue
		}
		w := map[string]bool{}
		for _, a := range ct.Assigns {
			ast.Inspect(a, func(n ast.Node) bool {
				if c, ok := n.(*ast.CallExpr); ok {
					if id, ok := c.Fun.(*ast.Ident); ok && id.Name == "mem" && len(c.Args) > 0 {
						if p, ok := c.Args[0].(*ast.Ident); ok {
							w[p.Name] = true
						}
					}
				}
				return true
			})
		}
		ea.asm[key] = w
	}
	return ea
}

const effFresh = "<fresh>"

type effFrame struct {
	ea    *effAnalysis
	fi    *FuncInfo
	info  *types.Info
	pidx  map[types.Object]int
	pts   map[types.Object]map[string]bool // local variable -> roots it may point into ("param:i", "global:name", fresh)
	sum   *effSummary
	names []string
}

func isPkgLevel(o types.Object) bool {
	v, ok := o.(*types.Var)
	return ok && v.Parent() != nil && v.Pkg() != nil && v.Parent() == v.Pkg().Scope()
}

func pointerish(t types.Type) bool {
	if t == nil {
		return false
	}
	switch u := t.Underlying().(type) {
	case *types.Pointer, *types.Slice, *types.Map, *types.Interface, *types.Chan, *types.Signature:
		return true
	case *types.Struct:
		for i := 0; i < u.NumFields(); i++ {
			if pointerish(u.Field(i).Type()) {
				return true
			}
		}
	case *types.Array:
		return pointerish(u.Elem())
	}
	return false
}

// roots of an expression: which named memory its value may point into / which it denotes as an lvalue.
func (f *effFrame) roots(e ast.Expr, lvalue bool) map[string]bool {
	out := map[string]bool{}
	var rec func(e ast.Expr, lv bool)
	rec = func(e ast.Expr, lv bool) {
		switch x := unparen(e).(type) {
		case *ast.Ident:
			o := f.info.Uses[x]
			if o == nil {
				o = f.info.Defs[x]
			}
			if o == nil {
				return
			}
			if i, ok := f.pidx[o]; ok {
				// a parameter: writing the parameter variable itself is local; writing through it hits the argument
				if !lv || pointerish(o.Type()) {
					out[fmt.Sprintf("param:%d", i)] = true
				}
				return
			}
			if isPkgLevel(o) {
				out["global:"+o.Pkg().Name()+"."+o.Name()] = true
				return
			}
			for r := range f.pts[o] {
				out[r] = true
			}
		case *ast.SelectorExpr:
			if _, ok := f.info.Selections[x]; ok {
				rec(x.X, lv)
				return
			}
			if o := f.info.Uses[x.Sel]; o != nil && isPkgLevel(o) {
				out["global:"+o.Pkg().Name()+"."+o.Name()] = true
			}
		case *ast.IndexExpr:
			rec(x.X, lv)
		case *ast.SliceExpr:
			rec(x.X, lv)
		case *ast.StarExpr:
			rec(x.X, lv)
		case *ast.UnaryExpr:
			rec(x.X, lv)
		case *ast.TypeAssertExpr:
			rec(x.X, lv)
		case *ast.CompositeLit:
			out[effFresh] = true
			for _, el := range x.Elts {
				if kv, ok := el.(*ast.KeyValueExpr); ok {
					el = kv.Value
				}
				if pointerish(f.info.TypeOf(el)) {
					rec(el, false)
				}
			}
		case *ast.CallExpr:
			if tv, ok := f.info.Types[x.Fun]; ok && tv.IsType() && len(x.Args) == 1 {
				rec(x.Args[0], lv)
				return
			}
			if id, ok := unparen(x.Fun).(*ast.Ident); ok {
				if _, isB := f.info.Uses[id].(*types.Builtin); isB {
					switch id.Name {
					case "make", "new":
						out[effFresh] = true
						return
					case "append":
						out[effFresh] = true
						rec(x.Args[0], false)
						for _, a := range x.Args[1:] {
							if pointerish(f.info.TypeOf(a)) && !isByteSlice(f.info.TypeOf(a)) {
								rec(a, false)
							}
						}
						return
					}
				}
			}
			// result of a call: fresh, or an alias of those arguments the callee may return
			out[effFresh] = true
			var cargs []ast.Expr
			var fn *types.Func
			switch fx := unparen(x.Fun).(type) {
			case *ast.Ident:
				fn, _ = f.info.Uses[fx].(*types.Func)
			case *ast.SelectorExpr:
				if sel, ok := f.info.Selections[fx]; ok {
					fn, _ = sel.Obj().(*types.Func)
					cargs = append(cargs, fx.X)
				} else {
					fn, _ = f.info.Uses[fx.Sel].(*types.Func)
				}
			}
			cargs = append(cargs, x.Args...)
			if fn != nil {
				if cfi := f.ea.eng.funcs[funcKey(fn)]; cfi != nil && cfi.Decl.Body != nil {
					cs := f.ea.summary(cfi)
					for i, a := range cargs {
						if cs.rets[i] && pointerish(f.info.TypeOf(a)) {
							rec(a, false)
						}
					}
					return
				}
				if strings.Contains(funcKey(fn), "math/big.Int)") {
					if len(cargs) > 0 {
						rec(cargs[0], false) // setters return their receiver
					}
					return
				}
			}
			for _, a := range cargs {
				if pointerish(f.info.TypeOf(a)) {
					rec(a, false)
				}
			}
		}
	}
	rec(e, lvalue)
	return out
}

// storeRoots: the named memory an assignment to the lvalue e writes (local storage yields nothing).
func (f *effFrame) storeRoots(e ast.Expr) map[string]bool {
	switch x := unparen(e).(type) {
	case *ast.Ident:
		o := f.info.Uses[x]
		if o == nil {
			o = f.info.Defs[x]
		}
		if o != nil && isPkgLevel(o) {
			return map[string]bool{"global:" + o.Pkg().Name() + "." + o.Name(): true}
		}
		return map[string]bool{}
	case *ast.SelectorExpr:
		if _, ok := f.info.Selections[x]; ok {
			if _, isPtr := f.info.TypeOf(x.X).Underlying().(*types.Pointer); isPtr {
				return f.roots(x.X, false)
			}
			return f.storeRoots(x.X)
		}
		if o := f.info.Uses[x.Sel]; o != nil && isPkgLevel(o) {
			return map[string]bool{"global:" + o.Pkg().Name() + "." + o.Name(): true}
		}
		return map[string]bool{}
	case *ast.IndexExpr:
		switch f.info.TypeOf(x.X).Underlying().(type) {
		case *types.Array:
			return f.storeRoots(x.X)
		}
		return f.roots(x.X, false)
	case *ast.StarExpr:
		return f.roots(x.X, false)
	}
	return f.roots(e, true)
}

func isByteSlice(t types.Type) bool {
	s, ok := t.Underlying().(*types.Slice)
	if !ok {
		return false
	}
	b, ok := s.Elem().Underlying().(*types.Basic)
	return ok && b.Kind() == types.Uint8
}

func (f *effFrame) markWritten(roots map[string]bool, pos token.Pos, why string) {
	for r := range roots {
		switch {
		case strings.HasPrefix(r, "param:"):
			var i int
			fmt.Sscanf(r, "param:%d", &i)
			if !f.sum.writes[i] {
				f.sum.writes[i] = true
				f.sum.why[i] = fmt.Sprintf("%s at %s", why, f.posStr(pos))
			}
		case strings.HasPrefix(r, "global:"):
			g := strings.TrimPrefix(r, "global:")
			if _, ok := f.sum.globals[g]; !ok {
				f.sum.globals[g] = fmt.Sprintf("%s at %s", why, f.posStr(pos))
			}
			// the write happens in (or through a pointer handed out by) this function: copy/append into a package-level
			// buffer, a package-level object passed to a callee that writes its parameter, a method with pointer
			// receiver of an external type called on a package-level variable (sync.Pool, ...)
			if _, ok := f.sum.direct[g]; !ok {
				f.sum.direct[g] = fmt.Sprintf("%s at %s", why, f.posStr(pos))
			}
		}
	}
}

func (f *effFrame) posStr(p token.Pos) string {
	ps := f.fi.Pkg.Fset.Position(p)
	fn := ps.Filename
	if i := strings.LastIndex(fn, "/"); i >= 0 {
		fn = fn[i+1:]
	}
	return fmt.Sprintf("%s:%d", fn, ps.Line)
}

// external callees: indices (receiver first) of the arguments whose contents they write; nil,false = unknown callee
func externalWrites(key string, nargs int, hasRecv bool) ([]int, bool) {
	pkg := key
	if i := strings.LastIndex(key, "."); i >= 0 {
		pkg = key[:i]
	}
	pkg = strings.TrimPrefix(strings.TrimPrefix(pkg, "(*"), "(")
	pkg = strings.TrimSuffix(pkg, ")")
	name := key[strings.LastIndex(key, ".")+1:]
	switch {
	case key == "io.ReadFull" || key == "io.ReadAtLeast":
		return []int{1}, true
	case strings.HasPrefix(key, "math/bits.") || strings.HasPrefix(key, "errors.") || strings.HasPrefix(key, "fmt.") || strings.HasPrefix(key, "strconv.") ||
		strings.HasPrefix(key, "math.") || strings.HasPrefix(key, "strings.") || strings.HasPrefix(key, "encoding/hex.EncodeToString") || strings.HasPrefix(key, "bytes.Equal") || strings.HasPrefix(key, "bytes.Compare"):
		return nil, true
	case strings.HasPrefix(key, "crypto/subtle."):
		if name == "ConstantTimeCopy" {
			return []int{1}, true
		}
		if name == "XORBytes" {
			return []int{0}, true
		}
		return nil, true
	case strings.Contains(key, "encoding/binary."):
		if strings.HasPrefix(name, "Put") || strings.HasPrefix(name, "Append") {
			return []int{1}, true // receiver (byte order) is argument 0
		}
		return nil, true
	case strings.Contains(key, "math/big.Int)"):
		switch name {
		case "Cmp", "CmpAbs", "Sign", "Bytes", "BitLen", "Bit", "Int64", "Uint64", "IsInt64", "IsUint64", "String", "Text", "FillBytes", "ProbablyPrime", "TrailingZeroBits", "Bits", "Format":
			if name == "FillBytes" {
				return []int{1}, true
			}
			return nil, true
		}
		return []int{0}, true // setters write the receiver only
	case key == "math/big.NewInt":
		return nil, true
	case strings.Contains(key, "crypto/elliptic.") || strings.Contains(key, "golang.org/x/sys/cpu") || strings.Contains(key, "cpuid"):
		return nil, true
	}
	_ = pkg
	return nil, false
}

func (ea *effAnalysis) summary(fi *FuncInfo) *effSummary {
	if s, ok := ea.memo[fi.Key]; ok {
		return s
	}
	objs := paramObjs(fi)
	names := paramNames(fi)
	s := &effSummary{writes: make([]bool, len(objs)), why: make([]string, len(objs)), globals: map[string]string{}, direct: map[string]string{}, rets: map[int]bool{}}
	if fi.Decl.Body == nil {
		// assembly stub or external declaration
		if w, ok := ea.asm[fi.Key]; ok {
			for i, n := range names {
				if w[n] {
					s.writes[i] = true
					s.why[i] = "assembly routine (assigns clause of its contract)"
				}
			}
		} else {
			for i := range s.writes {
				if objs[i] != nil && pointerish(objs[i].Type()) {
					s.writes[i] = true
					s.why[i] = "body-less function without an assembly contract"
				}
			}
		}
		ea.memo[fi.Key] = s
		return s
	}
	if ea.inprog[fi.Key] {
		// recursion: assume the worst for pointer parameters
		r := &effSummary{writes: make([]bool, len(objs)), why: make([]string, len(objs)), globals: map[string]string{}, direct: map[string]string{}, rets: map[int]bool{}}
		for i := range r.writes {
			r.writes[i] = objs[i] != nil && pointerish(objs[i].Type())
			r.why[i] = "recursive call"
			r.rets[i] = r.writes[i]
		}
		return r
	}
	ea.inprog[fi.Key] = true
	defer delete(ea.inprog, fi.Key)
	f := &effFrame{ea: ea, fi: fi, info: fi.Pkg.TypesInfo, pidx: map[types.Object]int{}, pts: map[types.Object]map[string]bool{}, sum: s, names: names}
	for i, o := range objs {
		if o != nil {
			f.pidx[o] = i
		}
	}
	// points-to of locals: flow-insensitive fixpoint over assignments
	addPts := func(o types.Object, rs map[string]bool) bool {
		ch := false
		if f.pts[o] == nil {
			f.pts[o] = map[string]bool{}
		}
		for r := range rs {
			if !f.pts[o][r] {
				f.pts[o][r] = true
				ch = true
			}
		}
		return ch
	}
	for iter := 0; iter < 10; iter++ {
		changed := false
		ast.Inspect(fi.Decl.Body, func(n ast.Node) bool {
			switch x := n.(type) {
			case *ast.AssignStmt:
				for i, l := range x.Lhs {
					id, ok := unparen(l).(*ast.Ident)
					if !ok || id.Name == "_" {
						continue
					}
					o := f.info.Defs[id]
					if o == nil {
						o = f.info.Uses[id]
					}
					if o == nil || isPkgLevel(o) {
						continue
					}
					if _, isParam := f.pidx[o]; isParam {
						continue
					}
					if !pointerish(o.Type()) {
						continue
					}
					var rhs ast.Expr
					if len(x.Rhs) == len(x.Lhs) {
						rhs = x.Rhs[i]
					} else {
						rhs = x.Rhs[0]
					}
					if addPts(o, f.roots(rhs, false)) {
						changed = true
					}
				}
			case *ast.ValueSpec:
				for i, id := range x.Names {
					o := f.info.Defs[id]
					if o == nil || !pointerish(o.Type()) {
						continue
					}
					if i < len(x.Values) {
						if addPts(o, f.roots(x.Values[i], false)) {
							changed = true
						}
					} else if len(x.Values) == 1 {
						if addPts(o, f.roots(x.Values[0], false)) {
							changed = true
						}
					} else {
						addPts(o, map[string]bool{effFresh: true})
					}
				}
			case *ast.RangeStmt:
				for _, l := range []ast.Expr{x.Key, x.Value} {
					if id, ok := l.(*ast.Ident); ok && id.Name != "_" {
						if o := f.info.Defs[id]; o != nil && pointerish(o.Type()) {
							if addPts(o, f.roots(x.X, false)) {
								changed = true
							}
						}
					}
				}
			}
			return true
		})
		if !changed {
			break
		}
	}
	// effects
	ast.Inspect(fi.Decl.Body, func(n ast.Node) bool {
		switch x := n.(type) {
		case *ast.AssignStmt:
			for _, l := range x.Lhs {
				if id, ok := unparen(l).(*ast.Ident); ok {
					o := f.info.Uses[id]
					if o != nil && isPkgLevel(o) {
						g := o.Pkg().Name() + "." + o.Name()
						s.globals[g] = "assignment at " + f.posStr(l.Pos())
						s.direct[g] = "assignment at " + f.posStr(l.Pos())
					}
					continue
				}
				rs := f.storeRoots(l)
				f.markWritten(rs, l.Pos(), "store to "+exprString(l))
				for r := range rs {
					if strings.HasPrefix(r, "global:") {
						s.direct[strings.TrimPrefix(r, "global:")] = "store to " + exprString(l) + " at " + f.posStr(l.Pos())
					}
				}
			}
		case *ast.IncDecStmt:
			if _, ok := unparen(x.X).(*ast.Ident); !ok {
				f.markWritten(f.storeRoots(x.X), x.Pos(), "store to "+exprString(x.X))
			} else if o := f.info.Uses[unparen(x.X).(*ast.Ident)]; o != nil && isPkgLevel(o) {
				g := o.Pkg().Name() + "." + o.Name()
				s.globals[g] = "update at " + f.posStr(x.Pos())
				s.direct[g] = s.globals[g]
			}
		case *ast.CallExpr:
			f.call(x)
		}
		return true
	})
	// results: which parameters a pointer-like result may alias
	noteRet := func(e ast.Expr) {
		if !pointerish(f.info.TypeOf(e)) {
			return
		}
		for r := range f.roots(e, false) {
			var i int
			if _, err := fmt.Sscanf(r, "param:%d", &i); err == nil {
				s.rets[i] = true
			}
		}
	}
	ast.Inspect(fi.Decl.Body, func(n ast.Node) bool {
		if _, ok := n.(*ast.FuncLit); ok {
			return false
		}
		if r, ok := n.(*ast.ReturnStmt); ok {
			for _, e := range r.Results {
				noteRet(e)
			}
			if len(r.Results) == 0 && fi.Decl.Type.Results != nil {
				for _, fl := range fi.Decl.Type.Results.List {
					for _, nm := range fl.Names {
						noteRet(nm)
					}
				}
			}
		}
		return true
	})
	ea.memo[fi.Key] = s
	return s
}

func (f *effFrame) call(c *ast.CallExpr) {
	info := f.info
	if tv, ok := info.Types[c.Fun]; ok && tv.IsType() {
		return
	}
	if id, ok := unparen(c.Fun).(*ast.Ident); ok {
		if _, isB := info.Uses[id].(*types.Builtin); isB {
			switch id.Name {
			case "copy":
				f.markWritten(f.roots(c.Args[0], false), c.Pos(), "copy into "+exprString(c.Args[0]))
			case "append":
				// append may write into the spare capacity of its first argument
				f.markWritten(f.roots(c.Args[0], false), c.Pos(), "append to "+exprString(c.Args[0])+" (writes its spare capacity)")
			case "clear":
				f.markWritten(f.roots(c.Args[0], false), c.Pos(), "clear")
			}
			return
		}
	}
	var fn *types.Func
	var recv ast.Expr
	switch fx := unparen(c.Fun).(type) {
	case *ast.Ident:
		fn, _ = info.Uses[fx].(*types.Func)
	case *ast.SelectorExpr:
		if sel, ok := info.Selections[fx]; ok {
			fn, _ = sel.Obj().(*types.Func)
			recv = fx.X
		} else {
			fn, _ = info.Uses[fx.Sel].(*types.Func)
		}
	}
	args := append([]ast.Expr{}, c.Args...)
	if recv != nil {
		args = append([]ast.Expr{recv}, args...)
	}
	writeAll := func(why string) {
		for i, a := range args {
			if pointerish(info.TypeOf(a)) {
				f.markWritten(f.roots(a, false), c.Pos(), why)
			} else if i == 0 && recv != nil && fn != nil {
				// x.M() with M declared on *T and x an addressable T (for example a package-level sync.Pool): &x is passed
				if sig, ok := fn.Type().(*types.Signature); ok && sig.Recv() != nil {
					if _, isPtr := sig.Recv().Type().Underlying().(*types.Pointer); isPtr {
						f.markWritten(f.roots(a, false), c.Pos(), why)
					}
				}
			}
		}
	}
	if fn == nil {
		writeAll("passed to a dynamic callee")
		return
	}
	key := funcKey(fn)
	if recv != nil {
		if _, isIface := info.TypeOf(recv).Underlying().(*types.Interface); isIface {
			switch fn.Name() {
			case "Read":
				f.markWritten(f.roots(c.Args[0], false), c.Pos(), "filled by Read")
			case "Write", "Sum", "Size", "BlockSize", "Reset", "Error", "String":
				// hash.Hash / io.Writer: the arguments are read (Sum appends to its argument)
				if fn.Name() == "Sum" && len(c.Args) == 1 {
					f.markWritten(f.roots(c.Args[0], false), c.Pos(), "Sum appends to its argument")
				}
				if fn.Name() == "Write" || fn.Name() == "Reset" || fn.Name() == "Sum" {
					f.markWritten(f.roots(recv, false), c.Pos(), "hash state")
				}
			case "Encrypt", "Decrypt", "CryptBlocks", "XORKeyStream":
				// crypto/cipher Block/BlockMode/Stream: dst (first argument) is written, the cipher object is not
				// (the stored cipher.Block is this package's own immutable cipher type)
				if len(c.Args) > 0 {
					f.markWritten(f.roots(c.Args[0], false), c.Pos(), "dst of "+fn.Name())
				}
			case "NonceSize", "Overhead":
			default:
				writeAll("passed to interface method " + fn.Name())
			}
			return
		}
	}
	if cfi := f.ea.eng.funcs[key]; cfi != nil {
		cs := f.ea.summary(cfi)
		for i, a := range args {
			if i < len(cs.writes) && cs.writes[i] {
				f.markWritten(f.roots(a, false), c.Pos(), "written by "+key)
			}
		}
		for g, w := range cs.globals {
			if _, ok := f.sum.globals[g]; !ok {
				f.sum.globals[g] = "via " + key + ": " + w
			}
		}
		return
	}
	if idx, ok := externalWrites(key, len(args), recv != nil); ok {
		for _, i := range idx {
			if i < len(args) {
				f.markWritten(f.roots(args[i], false), c.Pos(), "written by "+key)
			}
		}
		return
	}
	writeAll("passed to " + key + " (no effect model)")
}

type effOblig struct {
	Name, Pos, What string
	OK              bool
}

// Check generates the C17 obligations for the given packages (import path suffixes).
func (ea *effAnalysis) Check(pkgs []string) []effOblig {
	var out []effOblig
	var keys []string
	for k := range ea.eng.funcs {
		keys = append(keys, k)
	}
	sort.Strings(keys)
	inScope := func(fi *FuncInfo) bool {
		p := strings.TrimPrefix(fi.Pkg.PkgPath, "github.com/bilibili/smgo/")
		for _, q := range pkgs {
			if p == q {
				return true
			}
		}
		return false
	}
	immutable := map[string]bool{}
	for key, ct := range ea.eng.contracts {
		if strings.HasPrefix(key, "type ") && strings.HasSuffix(key, "#eff") {
			for _, r := range ct.Raw {
				if strings.TrimSpace(r) == "immutable" {
					immutable[strings.TrimSuffix(strings.TrimPrefix(key, "type "), "#eff")] = true
				}
			}
		}
	}
	// functions that run only during package initialisation: init itself and functions all of whose callers do
	callers := map[string]map[string]bool{}
	for k, fi := range ea.eng.funcs {
		if fi.Decl.Body == nil {
			continue
		}
		ast.Inspect(fi.Decl.Body, func(n ast.Node) bool {
			if c, ok := n.(*ast.CallExpr); ok {
				var fn *types.Func
				switch fx := unparen(c.Fun).(type) {
				case *ast.Ident:
					fn, _ = fi.Pkg.TypesInfo.Uses[fx].(*types.Func)
				case *ast.SelectorExpr:
					fn, _ = fi.Pkg.TypesInfo.Uses[fx.Sel].(*types.Func)
				}
				if fn != nil {
					ck := funcKey(fn)
					if callers[ck] == nil {
						callers[ck] = map[string]bool{}
					}
					callers[ck][k] = true
				}
			}
			return true
		})
	}
	initOnly := map[string]bool{}
	for changed := true; changed; {
		changed = false
		for k, fi := range ea.eng.funcs {
			if initOnly[k] {
				continue
			}
			if fi.Decl.Name.Name == "init" && fi.Decl.Recv == nil {
				initOnly[k] = true
				changed = true
				continue
			}
			if len(callers[k]) == 0 || fi.Decl.Name.IsExported() {
				continue
			}
			all := true
			for c := range callers[k] {
				if !initOnly[c] {
					all = false
				}
			}
			// also: referenced as a function value anywhere? (conservative: exported or value use keeps it out)
			if all {
				initOnly[k] = true
				changed = true
			}
		}
	}
	for _, k := range keys {
		fi := ea.eng.funcs[k]
		if !inScope(fi) || initOnly[k] || fi.Decl.Name.Name == "main" {
			continue
		}
		fn := fi.Pkg.Fset.Position(fi.Decl.Pos()).Filename
		if strings.HasSuffix(fn, "_test.go") {
			continue
		}
		s := ea.summary(fi)
		pos := fmt.Sprintf("%s:%d", fn[strings.LastIndex(fn, "/")+1:], fi.Pkg.Fset.Position(fi.Decl.Pos()).Line)
		// package-level state
		if len(s.direct) == 0 {
			out = append(out, effOblig{Name: k + "/no-global-write", Pos: pos, OK: true})
		}
		var gs []string
		for g := range s.direct {
			gs = append(gs, g)
		}
		sort.Strings(gs)
		for _, g := range gs {
			out = append(out, effOblig{Name: k + "/no-global-write:" + g, Pos: pos, OK: false, What: "package-level variable " + g + " is written outside init: " + s.direct[g]})
		}
		names := paramNames(fi)
		objs := paramObjs(fi)
		// receivers of immutable types
		if fi.Decl.Recv != nil && len(objs) > 0 && objs[0] != nil {
			rt := objs[0].Type()
			if p, ok := rt.(*types.Pointer); ok {
				rt = p.Elem()
			}
			if n, ok := rt.(*types.Named); ok {
				tn := strings.TrimPrefix(n.Obj().Pkg().Path(), "github.com/bilibili/smgo/") + "." + n.Obj().Name()
				if immutable[tn] {
					out = append(out, effOblig{Name: k + "/readonly:receiver", Pos: pos, OK: !s.writes[0], What: "method of the shared immutable type " + tn + " writes through its receiver: " + s.why[0]})
				}
			}
		}
		// declared effects
		if ct := ea.eng.contracts[k+"#eff"]; ct != nil {
			allowed := map[string]bool{}
			for _, r := range ct.Raw {
				if strings.HasPrefix(r, "writes") {
					for _, p := range strings.Fields(strings.ReplaceAll(strings.TrimPrefix(r, "writes"), ",", " ")) {
						allowed[p] = true
					}
				}
			}
			staleNames := false
			for a := range allowed {
				found := false
				for _, n := range names {
					if n == a {
						found = true
					}
				}
				if !found {
					staleNames = true
				}
			}
			if staleNames {
				// a `writes` clause names a parameter that no longer exists (renamed): the contract does not bind; undecided
				out = append(out, effOblig{Name: k + "/readonly:(stale writes clause)", Pos: pos, OK: true, What: "stale"})
				continue
			}
			for i, n := range names {
				if objs[i] == nil || !pointerish(objs[i].Type()) || allowed[n] {
					continue
				}
				if fi.Decl.Recv != nil && i == 0 {
					continue // receivers are handled by the type-level clause
				}
				out = append(out, effOblig{Name: k + "/readonly:" + n, Pos: pos, OK: !s.writes[i], What: "read-only parameter " + n + " may be written: " + s.why[i]})
			}
		}
	}
	return out
}
