package main

// Symbolic executor over the typed AST (go/ast + go/types) of the functions
// under contract.  See DESIGN.md section 2.

import (
	"os"
	"runtime/debug"
	"fmt"
	"go/ast"
	"go/constant"
	"go/token"
	"go/types"
	"math/big"
	"sort"
	"strings"

	"golang.org/x/tools/go/packages"
)

type Mode int

const (
	ModeBV Mode = iota
	ModeInt
)

type FuncInfo struct {
	Key  string // short key, e.g. utils.ConstantTimeCmp, (*sm3.SM3).Write
	Decl *ast.FuncDecl
	Pkg  *packages.Package
	Obj  *types.Func
}

type unsupported struct{ msg string }

func (u unsupported) Error() string { return u.msg }

type State struct {
	vars  map[*types.Var]*Obj
	heap  map[*Obj]Value
	pc    []*Term
	ghost map[string]Value
	gver  map[*Obj]int // ghost-field version per object (bumped when the object is havocked)
	br    map[*Term]bool   // path-condition entries that are branch decisions (the rest are facts)
	named map[string]*Term // labelled facts (requires, invariants, proof steps) for `[from ...]` proof steps
	rw    map[*Term]*Term // established equations used as left-to-right rewrites of values (each is also in pc)
}

func (s *State) clone() *State {
	n := &State{vars: make(map[*types.Var]*Obj, len(s.vars)), heap: make(map[*Obj]Value, len(s.heap)), ghost: map[string]Value{}, gver: map[*Obj]int{}}
	for k, v := range s.gver {
		n.gver[k] = v
	}
	if len(s.br) > 0 {
		n.br = make(map[*Term]bool, len(s.br))
		for k := range s.br {
			n.br[k] = true
		}
	}
	if len(s.named) > 0 {
		n.named = make(map[string]*Term, len(s.named))
		for k, v := range s.named {
			n.named[k] = v
		}
	}
	if len(s.rw) > 0 {
		n.rw = make(map[*Term]*Term, len(s.rw))
		for k, v := range s.rw {
			n.rw[k] = v
		}
	}
	for k, v := range s.vars {
		n.vars[k] = v
	}
	for k, v := range s.heap {
		n.heap[k] = v
	}
	for k, v := range s.ghost {
		n.ghost[k] = v
	}
	n.pc = append([]*Term{}, s.pc...)
	return n
}

// assumeBranch records a branch decision (as opposed to a fact learned along the path).
func (s *State) assumeBranch(t *Term) {
	if s.br == nil {
		s.br = map[*Term]bool{}
	}
	if t.Op == "and" {
		for _, a := range t.Args {
			s.br[a] = true
		}
	}
	s.br[t] = true
	s.assume(t)
}

func (s *State) name(label string, t *Term) {
	if label == "" {
		return
	}
	if s.named == nil {
		s.named = map[string]*Term{}
	}
	s.named[label] = t
}

func (s *State) assume(t *Term) {
	if t == True {
		return
	}
	if t.Op == "and" {
		for _, a := range t.Args {
			s.assume(a)
		}
		return
	}
	for _, p := range s.pc {
		if p == t {
			return
		}
	}
	// an equation variable == term is propagated through the values of the state
	// (the equation itself stays in the path condition)
	if t.Op == "=" {
		a, b := t.Args[0], t.Args[1]
		if b.Op == "var" && (a.Op != "var" || freshBorn[b] > freshBorn[a]) {
			a, b = b, a
		}
		if a.Op == "var" && a.Sort.K != KArr && !occurs(a, b) {
			s.substAll(map[*Term]*Term{a: b})
		} else {
			// be(array,...) == value without arrays: read the byte string as that value
			if b.Op == "uf" && b.Name == "be" && !(a.Op == "uf" && a.Name == "be") {
				a, b = b, a
			}
			if a.Op == "uf" && a.Name == "be" && !mentionsArray(b) && !occurs(a, b) && b.Op != "poly" && b.Op != "intconst" {
				s.substAll(map[*Term]*Term{a: b})
			}
		}
	}
	s.pc = append(s.pc, t)
	// implications whose antecedent has just become known release their consequent
	for _, p := range s.pc {
		if p.Op == "=>" && p.Args[0] == t {
			s.assume(p.Args[1])
		}
	}
}

// norm applies the state's rewrites to a value.
func (s *State) norm(v Value) Value {
	if len(s.rw) == 0 {
		return v
	}
	return substValue(v, s.rw)
}

func (s *State) normT(t *Term) *Term {
	if len(s.rw) == 0 {
		return t
	}
	return Subst(t, s.rw)
}

func (s *State) addRewrite(m map[*Term]*Term) {
	if s.rw == nil {
		s.rw = map[*Term]*Term{}
	}
	for k, v := range s.rw {
		s.rw[k] = Subst(v, m)
	}
	for k, v := range m {
		if k != v {
			s.rw[k] = v
		}
	}
}

func (s *State) substAll(m map[*Term]*Term) {
	if len(s.rw) > 0 {
		m2 := make(map[*Term]*Term, len(m))
		for k, v := range m {
			m2[k] = Subst(v, s.rw)
		}
		m = m2
	}
	s.addRewrite(m)
	// values only: the path condition keeps its original terms (and the equation), so that
	// states that share a prefix of the path condition can still be merged
	for o, v := range s.heap {
		s.heap[o] = substValue(v, m)
	}
	for k, v := range s.ghost {
		s.ghost[k] = substValue(v, m)
	}
}

func mentionsArray(t *Term) bool {
	seen := map[*Term]bool{}
	var rec func(t *Term) bool
	rec = func(t *Term) bool {
		if seen[t] {
			return false
		}
		seen[t] = true
		if t.Sort.K == KArr {
			return true
		}
		for _, a := range t.Args {
			if rec(a) {
				return true
			}
		}
		if t.Op == "poly" {
			for _, a := range t.Poly.atoms() {
				if rec(a) {
					return true
				}
			}
		}
		return false
	}
	return rec(t)
}

func substValue(v Value, m map[*Term]*Term) Value {
	switch x := v.(type) {
	case *Term:
		return Subst(x, m)
	case *Ptr:
		ch := false
		np := &Ptr{Obj: x.Obj, Path: make([]Sel, len(x.Path))}
		for i, s := range x.Path {
			np.Path[i] = s
			if s.Idx != nil {
				np.Path[i].Idx = Subst(s.Idx, m)
				if np.Path[i].Idx != s.Idx {
					ch = true
				}
			}
		}
		if x.Span != nil {
			np.Span = Subst(x.Span, m)
			if np.Span != x.Span {
				ch = true
			}
		}
		if !ch {
			return x
		}
		return np
	case *Slice:
		b := substValue(x.Base, m).(*Ptr)
		return &Slice{Base: b, Off: Subst(x.Off, m), Len: Subst(x.Len, m), Cap: Subst(x.Cap, m), Nil: Subst(x.Nil, m), Elem: x.Elem}
	case *Struct:
		n := &Struct{T: x.T, F: make([]Value, len(x.F))}
		for i, f := range x.F {
			n.F[i] = substValue(f, m)
		}
		return n
	case *Array:
		n := &Array{E: make([]Value, len(x.E))}
		for i, f := range x.E {
			n.E[i] = substValue(f, m)
		}
		return n
	case *ErrV:
		return &ErrV{NonNil: Subst(x.NonNil, m), Tag: x.Tag}
	case *Iface:
		if x.V == nil && x.NilC == nil {
			return x
		}
		n := *x
		if x.V != nil {
			n.V = substValue(x.V, m)
		}
		if x.NilC != nil {
			n.NilC = Subst(x.NilC, m)
		}
		return &n
	case Tuple:
		n := make(Tuple, len(x))
		for i, f := range x {
			n[i] = substValue(f, m)
		}
		return n
	}
	return v
}

func (s *State) infeasible() bool {
	for _, p := range s.pc {
		if p == False {
			return true
		}
	}
	return false
}

type OutKind int

const (
	ONormal OutKind = iota
	OBreak
	OContinue
	OReturn
	OPanic
)

type Outcome struct {
	st    *State
	kind  OutKind
	label string
	ret   []Value
	pos   token.Pos
	msg   string
}

type Oblig struct {
	Name    string
	Func    string
	Kind    string
	Label   string
	Hyps    []*Term
	Goal    *Term
	Pos     string
	Opaque  bool
	Trivial bool
	Res     SolveResult
	Inputs  map[string]*Term
	presolved bool
	AltHyps   []*Term // full path condition, tried when the structured (restricted) attempt fails
	NoAbstract bool
	AbstractOnly map[string]bool // with NoAbstract: exactly these spec functions stay uninterpreted
	Abstract  map[string]bool
	PreHyps   []*Term
	Inconclusive bool
	query     *Query
}

type frame struct {
	fi      *FuncInfo
	results []*Obj
	loopOrd int
	inlined bool
	entry   *State // state at entry (for old())
	params  map[string]Value
}

type exec struct {
	eng    *Engine
	root   *FuncInfo
	ct     *Contract
	mode   Mode
	obligs []*Oblig
	frames []*frame
	objN   int
	tag    string // alias-case tag appended to obligation names
	prevSt *State // state before the statement whose proof steps are being run (prev())
	splitOK   int                    // >0 while a simple statement is executed under execSplittable
	forcedRet map[*ast.CallExpr]int // inlined call -> index of the return path to follow
	forcedIdx map[*Term]int64       // symbolic index term -> constant it is assumed to equal in this re-execution
	nameN  map[string]int
	taint  bool
	ptrTables map[*Obj]*types.Array // backing stores of []*[N]scalar tables
	readonlyObjs map[*Obj]bool
	assumedCalls map[string]bool
	inlinedFns   map[string]bool
	calledContracts map[string]bool
	steps  int
	globals     map[*types.Var]*Obj
	globalInit  map[*Obj]Value
	globalFacts []*Term
	mulLog      []mulRec
	lemmaDepth  int
	allowed     *Term
	midBody     bool
	noSplit     bool
	paramSlices map[*Obj]*Slice
	tableDone   map[string]bool
	inPrune     bool
	lemmaTimeout int
	copyN       int
	usedGlobalFacts map[string]bool
	trustedClauses  map[string]bool
}

type mulRec struct{ x, c *Term }

func (ex *exec) fail(pos token.Pos, format string, args ...interface{}) {
	p := ""
	if pos.IsValid() {
		p = ex.eng.fset.Position(pos).String() + ": "
	}
	if os.Getenv("GOVC_DEBUG") != "" {
		debug.PrintStack()
	}
	panic(unsupported{p + fmt.Sprintf(format, args...)})
}

func (ex *exec) fr() *frame        { return ex.frames[len(ex.frames)-1] }
func (ex *exec) info() *types.Info { return ex.fr().fi.Pkg.TypesInfo }

func (ex *exec) newObj(t types.Type, name string, fresh bool) *Obj {
	ex.objN++
	return &Obj{id: ex.objN, T: t, name: name, fresh: fresh}
}

func (ex *exec) pos(p token.Pos) string {
	if !p.IsValid() {
		return ""
	}
	ps := ex.eng.fset.Position(p)
	return fmt.Sprintf("%s:%d", shortPath(ps.Filename), ps.Line)
}

func shortPath(f string) string {
	if i := strings.Index(f, "/repo/"); i >= 0 {
		return f[i+6:]
	}
	return f
}

// oblige records a proof obligation: st.pc ==> goal.  The goal is assumed afterwards.
func (ex *exec) oblige(st *State, kind, label string, goal *Term, pos token.Pos) {
	if st.infeasible() {
		return
	}
	// a conjunctive goal is proved conjunct by conjunct (smaller queries)
	if goal.Op == "and" && len(goal.Args) >= 4 && !ex.noSplit {
		ex.noSplit = true
		for i, c := range goal.Args {
			l := label
			if l == "" {
				l = "part"
			}
			ex.oblige(st.clone(), kind, fmt.Sprintf("%s.%d", l, i+1), c, pos)
		}
		ex.noSplit = false
		st.assume(goal)
		return
	}
	fn := ex.root.Key
	base := fmt.Sprintf("%s/%s", fn, kind)
	if label != "" {
		base += ":" + label
	}
	if ex.tag != "" {
		base += "@" + ex.tag
	}
	ex.nameN[base]++
	name := base
	if ex.nameN[base] > 1 {
		name = fmt.Sprintf("%s#%d", base, ex.nameN[base])
	}
	goal = st.normT(goal)
	o := &Oblig{Name: name, Func: fn, Kind: kind, Label: label, Goal: goal, Pos: ex.pos(pos)}
	if goal == True {
		o.Trivial = true
		o.Res = SolveResult{Verdict: Proved, Solver: "simplifier"}
	} else {
		o.Hyps = append([]*Term{}, st.pc...)
		o.Opaque = ex.ct != nil && ex.ct.Opaque
	}
	ex.obligs = append(ex.obligs, o)
	st.assume(goal)
}

// ---------- sorts and values by type ----------

const maxLenBits = 48 // slices never exceed 2^48 elements on the 64-bit targets (assumption, listed)

func (ex *exec) intWidth(t types.Type) (w int, signed bool, ok bool) {
	b, isB := t.Underlying().(*types.Basic)
	if !isB {
		return 0, false, false
	}
	switch b.Kind() {
	case types.Int8:
		return 8, true, true
	case types.Int16:
		return 16, true, true
	case types.Int32, types.UntypedRune:
		return 32, true, true
	case types.Int64, types.Int, types.UntypedInt:
		return 64, true, true
	case types.Uint8:
		return 8, false, true
	case types.Uint16:
		return 16, false, true
	case types.Uint32:
		return 32, false, true
	case types.Uint64, types.Uint, types.Uintptr:
		return 64, false, true
	}
	return 0, false, false
}

func isBool(t types.Type) bool {
	b, ok := t.Underlying().(*types.Basic)
	return ok && b.Info()&types.IsBoolean != 0
}

func (ex *exec) scalarSort(t types.Type) *Sort {
	if isBool(t) {
		return BoolSort
	}
	w, _, ok := ex.intWidth(t)
	if !ok {
		return nil
	}
	if ex.mode == ModeInt {
		return IntSort
	}
	return BVSort(w)
}

// arrSort gives the SMT array sort for arrays/slices with scalar element type elem.
func (ex *exec) arrSort(elem types.Type) *Sort {
	es := ex.scalarSort(elem)
	if ex.mode == ModeInt && es == IntSort {
		w, sg, _ := ex.intWidth(elem)
		lo, hi := typeRange(w, sg)
		return ArrSortR(IntSort, IntSort, lo, hi)
	}
	return ArrSort(ex.idxSort(), es)
}

const smallArray = 64

// smallArr: in int mode short arrays of words are kept as lists of ranged scalars (Fiat limbs);
// byte arrays stay SMT arrays so that symbolic-length copies work.
func (ex *exec) smallArr(elem types.Type, n int64) bool {
	if ex.mode != ModeInt || n > smallArray {
		return false
	}
	w, _, ok := ex.intWidth(elem)
	return ok && w > 8
}

func (ex *exec) idxSort() *Sort {
	if ex.mode == ModeInt {
		return IntSort
	}
	return BVSort(64)
}

func typeRange(w int, signed bool) (lo, hi *big.Int) {
	if signed {
		hi = new(big.Int).Lsh(big.NewInt(1), uint(w-1))
		lo = new(big.Int).Neg(hi)
		hi = new(big.Int).Sub(hi, big.NewInt(1))
		return
	}
	return big.NewInt(0), mask(w)
}

func (ex *exec) intConst(t types.Type, v *big.Int) *Term {
	if ex.mode == ModeInt {
		return IntC(v)
	}
	w, _, ok := ex.intWidth(t)
	if !ok {
		panic("intConst of non-int type " + t.String())
	}
	return BVC(w, v)
}

func (ex *exec) idxConst(i int64) *Term {
	if ex.mode == ModeInt {
		return IntC64(i)
	}
	return BVC64(64, i)
}

func isAbstractBig(t types.Type) bool {
	n, ok := t.(*types.Named)
	return ok && n.Obj().Pkg() != nil && n.Obj().Pkg().Path() == "math/big" && n.Obj().Name() == "Int"
}

func (ex *exec) zeroValue(t types.Type) Value {
	if isAbstractBig(t) {
		return IntC64(0)
	}
	switch u := t.Underlying().(type) {
	case *types.Basic:
		if s := ex.scalarSort(t); s != nil {
			if s == BoolSort {
				return False
			}
			return ex.intConst(t, big.NewInt(0))
		}
		return &Opaque{"zero " + t.String()}
	case *types.Pointer:
		return &Ptr{}
	case *types.Slice:
		return &Slice{Base: &Ptr{}, Off: ex.idxConst(0), Len: ex.idxConst(0), Cap: ex.idxConst(0), Nil: True, Elem: u.Elem()}
	case *types.Array:
		if es := ex.scalarSort(u.Elem()); es != nil && !ex.smallArr(u.Elem(), u.Len()) {
			var z *Term
			if es == BoolSort {
				z = False
			} else {
				z = ex.intConst(u.Elem(), big.NewInt(0))
			}
			return ConstArr(ex.arrSort(u.Elem()), z)
		}
		a := &Array{E: make([]Value, u.Len())}
		for i := range a.E {
			a.E[i] = ex.zeroValue(u.Elem())
		}
		return a
	case *types.Struct:
		s := &Struct{T: u, F: make([]Value, u.NumFields())}
		for i := range s.F {
			s.F[i] = ex.zeroValue(u.Field(i).Type())
		}
		return s
	case *types.Interface:
		if isErrorType(t) {
			return &ErrV{NonNil: False}
		}
		return &Iface{}
	case *types.Signature:
		return &Opaque{"nil func"}
	}
	ex.fail(token.NoPos, "zero value of %s", t)
	return nil
}

func isErrorType(t types.Type) bool {
	return types.Identical(t, types.Universe.Lookup("error").Type())
}

// freshScalar makes a symbolic scalar of Go type t.
func (ex *exec) freshScalar(t types.Type, name string) *Term {
	s := ex.scalarSort(t)
	if s == nil {
		panic("freshScalar: " + t.String())
	}
	v := Fresh(name, s)
	if s.K == KInt {
		w, sg, _ := ex.intWidth(t)
		lo, hi := typeRange(w, sg)
		SetRange(v, lo, hi)
	}
	return v
}

// freshValue builds an unconstrained symbolic value of type t.  Pointers get
// fresh pointee objects (aliasing between parameters is handled by the caller).
func (ex *exec) freshValue(st *State, t types.Type, name string, depth int) Value {
	if isAbstractBig(t) {
		return Fresh(name+".val", IntSort)
	}
	switch u := t.Underlying().(type) {
	case *types.Basic:
		if ex.scalarSort(t) != nil {
			return ex.freshScalar(t, name)
		}
		return &Opaque{name}
	case *types.Pointer:
		if depth > 6 {
			ex.fail(token.NoPos, "fresh value too deep: %s", t)
		}
		o := ex.newObj(u.Elem(), "*"+name, false)
		st.heap[o] = ex.freshValue(st, u.Elem(), "*"+name, depth+1)
		return &Ptr{Obj: o}
	case *types.Slice:
		return ex.freshSlice(st, u.Elem(), name, depth)
	case *types.Array:
		if es := ex.scalarSort(u.Elem()); es != nil && !ex.smallArr(u.Elem(), u.Len()) {
			return Fresh(name, ex.arrSort(u.Elem()))
		}
		if u.Len() > 4096 {
			ex.fail(token.NoPos, "array too long: %s", t)
		}
		a := &Array{E: make([]Value, u.Len())}
		for i := range a.E {
			a.E[i] = ex.freshValue(st, u.Elem(), fmt.Sprintf("%s[%d]", name, i), depth+1)
		}
		return a
	case *types.Struct:
		s := &Struct{T: u, F: make([]Value, u.NumFields())}
		for i := range s.F {
			s.F[i] = ex.freshValue(st, u.Field(i).Type(), name+"."+u.Field(i).Name(), depth+1)
		}
		return s
	case *types.Interface:
		if isErrorType(t) {
			return &ErrV{NonNil: Fresh(name+".nonnil", BoolSort)}
		}
		return &Iface{Opaque: name, NilC: Fresh(name+".isnil", BoolSort)}
	case *types.Signature:
		return &Opaque{name}
	}
	ex.fail(token.NoPos, "fresh value of %s", t)
	return nil
}

func (ex *exec) lenBound() *Term {
	if ex.mode == ModeInt {
		return IntC(new(big.Int).Lsh(big.NewInt(1), maxLenBits))
	}
	return BVC(64, new(big.Int).Lsh(big.NewInt(1), maxLenBits))
}

func (ex *exec) freshSlice(st *State, elem types.Type, name string, depth int) *Slice {
	es := ex.scalarSort(elem)
	o := ex.newObj(types.NewSlice(elem), name+".arr", false)
	if es != nil {
		st.heap[o] = Fresh(name+".arr", ex.arrSort(elem))
	} else if at := ptrToScalarArray(elem); at != nil && ex.scalarSort(at.Elem()) != nil {
		// read-only table of pointers to small scalar arrays ([]*[N]uintX): modelled as a two-dimensional array; an
		// element load yields a pointer to a read-only temporary holding that row (entries are assumed non-nil and
		// are never written through; a store into a row is rejected as unsupported)
		st.heap[o] = Fresh(name+".tab", ArrSort(ex.idxSort(), ex.arrSort(at.Elem())))
		if ex.ptrTables == nil {
			ex.ptrTables = map[*Obj]*types.Array{}
		}
		ex.ptrTables[o] = at
	} else if isl, ok := elem.Underlying().(*types.Slice); ok && lazyRowsElem(isl.Elem()) && depth < 3 {
		// slice of read-only pointer tables ([][]*[N]uintX, the transposed precomputation tables): the rows are
		// created on first use, one fresh pointer table per constant outer index; never written
		lz := &LazyRows{Elem: isl.Elem(), Name: name, Rows: map[int64]*Slice{}}
		for k := int64(0); k < 4; k++ {
			// rows 0..3 are created now, so that their basic facts are part of the entry state
			r := ex.freshSlice(st, lz.Elem, fmt.Sprintf("%s[%d]", name, k), depth+1)
			st.assume(Not(r.Nil))
			lz.Rows[k] = r
		}
		st.heap[o] = lz
	} else {
		// slices of non-scalars: contents unknown; modelled lazily
		st.heap[o] = &Opaque{"backing array of " + name}
	}
	ln := ex.freshLen(name + ".len")
	cp := ex.freshLen(name + ".cap")
	nl := Fresh(name+".isnil", BoolSort)
	st.assume(ex.le(ex.idxConst(0), ln))
	st.assume(ex.le(ln, cp))
	st.assume(ex.le(cp, ex.lenBound()))
	st.assume(Implies(nl, Eq(cp, ex.idxConst(0))))
	return &Slice{Base: &Ptr{Obj: o}, Off: ex.idxConst(0), Len: ln, Cap: cp, Nil: nl, Elem: elem}
}

func (ex *exec) freshLen(name string) *Term {
	v := Fresh(name, ex.idxSort())
	if ex.mode == ModeInt {
		SetRange(v, big.NewInt(0), new(big.Int).Lsh(big.NewInt(1), maxLenBits))
	}
	return v
}

// signed comparison helpers on index-sorted terms
func (ex *exec) le(a, b *Term) *Term {
	if ex.mode == ModeInt {
		return IntLe(a, b)
	}
	return BVSle(a, b)
}
func (ex *exec) lt(a, b *Term) *Term {
	if ex.mode == ModeInt {
		return IntLt(a, b)
	}
	return BVSlt(a, b)
}
func (ex *exec) add(a, b *Term) *Term {
	if ex.mode == ModeInt {
		return IntAdd(a, b)
	}
	return BVAdd(a, b)
}
func (ex *exec) sub(a, b *Term) *Term {
	if ex.mode == ModeInt {
		return IntSub(a, b)
	}
	return BVSub(a, b)
}

// ---------- heap access ----------

func (ex *exec) navigate(v Value, path []Sel, pos token.Pos) Value {
	for _, s := range path {
		if s.Field >= 0 {
			sv, ok := v.(*Struct)
			if !ok {
				ex.fail(pos, "field access on %T", v)
			}
			v = sv.F[s.Field]
			continue
		}
		switch a := v.(type) {
		case *Term:
			v = Select(a, s.Idx)
		case *Array:
			if !s.Idx.IsConst() {
				// a small array of pointers/structs indexed by a symbolic value: the enclosing simple statement is
				// executed once per index value k under the assumption idx == k (execSplittable)
				if k, ok := ex.forcedIdx[s.Idx]; ok && k < int64(len(a.E)) {
					v = a.E[k]
					continue
				}
				if ex.splitOK > 0 && len(a.E) <= 16 {
					panic(splitRequest{idx: s.Idx, n: len(a.E)})
				}
				ex.fail(pos, "symbolic index into array of non-scalars")
			}
			i := int(s.Idx.Val.Int64())
			if i < 0 || i >= len(a.E) {
				ex.fail(pos, "constant index %d out of range %d", i, len(a.E))
			}
			v = a.E[i]
		default:
			ex.fail(pos, "index into %T", v)
		}
	}
	return v
}

func (ex *exec) update(v Value, path []Sel, nv Value, pos token.Pos) Value {
	if len(path) == 0 {
		return nv
	}
	s := path[0]
	if s.Field >= 0 {
		sv, ok := v.(*Struct)
		if !ok {
			ex.fail(pos, "field update on %T", v)
		}
		ns := &Struct{T: sv.T, F: append([]Value{}, sv.F...)}
		ns.F[s.Field] = ex.update(sv.F[s.Field], path[1:], nv, pos)
		return ns
	}
	switch a := v.(type) {
	case *Term:
		if len(path) != 1 {
			ex.fail(pos, "nested update through scalar array")
		}
		t, ok := nv.(*Term)
		if !ok {
			ex.fail(pos, "store of %T into scalar array", nv)
		}
		return Store(a, s.Idx, t)
	case *Array:
		if !s.Idx.IsConst() {
			ex.fail(pos, "symbolic index store into array of non-scalars")
		}
		i := int(s.Idx.Val.Int64())
		na := &Array{E: append([]Value{}, a.E...)}
		na.E[i] = ex.update(a.E[i], path[1:], nv, pos)
		return na
	}
	ex.fail(pos, "index update on %T", v)
	return nil
}

func (ex *exec) load(st *State, p *Ptr, pos token.Pos) Value {
	if p.Obj == nil {
		ex.fail(pos, "load through nil pointer")
	}
	if p.Obj.global && len(p.Path) == 1 && p.Path[0].Field < 0 && !p.Path[0].Idx.IsConst() && ex.mode == ModeBV {
		if fn, ok := ex.eng.tables[p.Obj.name]; ok {
			if v := ex.tableRead(st, p.Obj, fn, p.Path[0].Idx, pos); v != nil {
				return v
			}
		}
	}
	v, ok := st.heap[p.Obj]
	if !ok {
		if v, ok = ex.globalInit[p.Obj]; !ok {
			ex.fail(pos, "object %s not in heap", p.Obj)
		}
	}
	if lz, ok := v.(*LazyRows); ok {
		if len(p.Path) == 0 {
			return lz
		}
		if len(p.Path) != 1 || p.Path[0].Field >= 0 || !p.Path[0].Idx.IsConst() {
			ex.fail(pos, "slice of pointer tables indexed by a non-constant")
		}
		k := p.Path[0].Idx.Val.Int64()
		if r, ok := lz.Rows[k]; ok {
			return r
		}
		ex.fail(pos, "slice of pointer tables indexed beyond row 3")
		return nil
	}
	if at, ok := ex.ptrTables[p.Obj]; ok && len(p.Path) == 1 && p.Path[0].Field < 0 {
		row, ok := ex.navigate(v, p.Path, pos).(*Term)
		if !ok {
			ex.fail(pos, "pointer table row is not an array term")
		}
		tmp := ex.newObj(at, p.Obj.name+"[row]", false)
		st.heap[tmp] = row
		if ex.readonlyObjs == nil {
			ex.readonlyObjs = map[*Obj]bool{}
		}
		ex.readonlyObjs[tmp] = true
		return &Ptr{Obj: tmp}
	}
	return ex.navigate(v, p.Path, pos)
}

// lazyRowsElem: t is *[N]E (a pointer table row) or a slice of such element types (nested tables)
func lazyRowsElem(t types.Type) bool {
	if ptrToScalarArray(t) != nil {
		return true
	}
	if sl, ok := t.Underlying().(*types.Slice); ok {
		return lazyRowsElem(sl.Elem())
	}
	return false
}

// ptrToScalarArray: t == *[N]E for a small N
func ptrToScalarArray(t types.Type) *types.Array {
	p, ok := t.Underlying().(*types.Pointer)
	if !ok {
		return nil
	}
	a, ok := p.Elem().Underlying().(*types.Array)
	if !ok || a.Len() > 64 {
		return nil
	}
	return a
}

func (ex *exec) store(st *State, p *Ptr, nv Value, pos token.Pos) {
	if p.Obj == nil {
		ex.fail(pos, "store through nil pointer")
	}
	if ex.readonlyObjs[p.Obj] || ex.ptrTables[p.Obj] != nil {
		ex.fail(pos, "store into a pointer table or one of its rows (modelled read-only)")
	}
	if _, ok := st.heap[p.Obj].(*LazyRows); ok {
		ex.fail(pos, "store into a slice of pointer tables (modelled read-only)")
	}
	v, ok := st.heap[p.Obj]
	if !ok {
		ex.fail(pos, "object %s not in heap", p.Obj)
	}
	st.heap[p.Obj] = ex.update(v, p.Path, st.norm(nv), pos)
}

// copyValue: Go value semantics for assignment (arrays and structs are copied;
// our representations are immutable so sharing is fine).
func copyValue(v Value) Value { return v }

// ---------- variables ----------

func (ex *exec) declare(st *State, v *types.Var, val Value) *Obj {
	o := ex.newObj(v.Type(), v.Name(), true)
	st.vars[v] = o
	st.heap[o] = st.norm(val)
	return o
}

func (ex *exec) varObj(st *State, v *types.Var, pos token.Pos) *Obj {
	if o, ok := st.vars[v]; ok {
		return o
	}
	// package-level variable
	if v.Parent() != nil && v.Parent() == v.Pkg().Scope() {
		return ex.globalObj(st, v, pos)
	}
	ex.fail(pos, "unknown variable %s", v.Name())
	return nil
}

// ---------- statements ----------

func (ex *exec) execBlock(st *State, stmts []ast.Stmt) []*Outcome {
	cur := []*State{st}
	var outs []*Outcome
	for _, s := range stmts {
		var next []*State
		for _, c := range cur {
			if c.infeasible() {
				continue
			}
			for _, o := range ex.execStmt(c, s) {
				if o.kind == ONormal {
					next = append(next, o.st)
				} else {
					outs = append(outs, o)
				}
			}
		}
		cur = ex.mergeStates(next)
		if len(cur) == 0 {
			break
		}
	}
	for _, c := range cur {
		outs = append(outs, &Outcome{st: c, kind: ONormal})
	}
	return outs
}

func normal(st *State) []*Outcome { return []*Outcome{{st: st, kind: ONormal}} }

func (ex *exec) execStmt(st *State, s ast.Stmt) []*Outcome {
	ex.steps++
	if ex.steps > 2000000 {
		ex.fail(s.Pos(), "step budget exceeded")
	}
	ex.applyGhost(st, s, "before")
	if outs, done := ex.execSplittable(st, s); done {
		return outs
	}
	var pre *State
	if ex.stmtHasRules(s) {
		pre = st.clone() // the state just before the statement, for prev() in its proof steps
	}
	outs := ex.execStmt1(st, s)
	for _, o := range outs {
		if o.kind == ONormal {
			saved := ex.prevSt
			ex.prevSt = pre
			ex.applyGhost(o.st, s, "after")
			ex.prevSt = saved
		}
	}
	return outs
}

// splitRequest: an inlined call inside a simple statement ended in n return paths that cannot be merged.
type splitRequest struct {
	call *ast.CallExpr // inlined call with n unmergeable return paths, or
	idx  *Term         // symbolic index into an array of n non-scalar elements
	n    int
}

// execSplittable runs a simple statement that contains calls so that an unmergeable inlined call splits the
// statement into one execution per return path (each from a copy of the state before the statement).
func (ex *exec) execSplittable(st *State, s ast.Stmt) ([]*Outcome, bool) {
	switch s.(type) {
	case *ast.ExprStmt, *ast.AssignStmt, *ast.ReturnStmt, *ast.DeclStmt, *ast.IncDecStmt:
	default:
		return nil, false
	}
	hasCall := false
	ast.Inspect(s, func(n ast.Node) bool {
		if _, ok := n.(*ast.CallExpr); ok {
			hasCall = true
		}
		if _, ok := n.(*ast.FuncLit); ok {
			return false
		}
		return !hasCall
	})
	if !hasCall || ex.stmtHasRules(s) {
		return nil, false
	}
	backup := st.clone()
	nObl := len(ex.obligs)
	var req *splitRequest
	var outs []*Outcome
	func() {
		defer func() {
			if r := recover(); r != nil {
				if sr, ok := r.(splitRequest); ok {
					req = &sr
					return
				}
				panic(r)
			}
		}()
		ex.splitOK++
		defer func() { ex.splitOK-- }()
		nf := len(ex.frames)
		defer func() { ex.frames = ex.frames[:nf] }()
		outs = ex.execStmt1(st, s)
	}()
	if req == nil {
		for _, o := range outs {
			if o.kind == ONormal {
				ex.applyGhost(o.st, s, "after")
			}
		}
		return outs, true
	}
	// discard the partial attempt and run the statement once per return path of that call
	ex.obligs = ex.obligs[:nObl]
	if ex.forcedRet == nil {
		ex.forcedRet = map[*ast.CallExpr]int{}
	}
	if len(ex.forcedRet) > 6 {
		ex.fail(s.Pos(), "too many nested unmergeable inlined calls in one statement")
	}
	var all []*Outcome
	if req.idx != nil {
		if ex.forcedIdx == nil {
			ex.forcedIdx = map[*Term]int64{}
		}
		for k := 0; k < req.n; k++ {
			ex.forcedIdx[req.idx] = int64(k)
			c := backup.clone()
			// an if / else-if cascade of branch decisions (idx != 0, ..., idx != k-1, idx == k), so that the
			// resulting states can be merged again like the arms of a conditional
			for j := 0; j < k; j++ {
				c.assumeBranch(Not(Eq(req.idx, ex.idxConst(int64(j)))))
			}
			if k < req.n-1 {
				c.assumeBranch(Eq(req.idx, ex.idxConst(int64(k))))
			} else {
				c.assume(Eq(req.idx, ex.idxConst(int64(k)))) // the index obligation has shown idx < n
			}
			sub, _ := ex.execSplittableAgain(c, s)
			all = append(all, sub...)
		}
		delete(ex.forcedIdx, req.idx)
		// merge the normal outcomes back into as few states as possible
		var normals []*State
		var rest []*Outcome
		for _, o := range all {
			if o.kind == ONormal {
				normals = append(normals, o.st)
			} else {
				rest = append(rest, o)
			}
		}
		for _, m := range ex.mergeStates(normals) {
			rest = append(rest, &Outcome{st: m, kind: ONormal})
		}
		return rest, true
	}
	for k := 0; k < req.n; k++ {
		ex.forcedRet[req.call] = k
		c := backup.clone()
		sub, _ := ex.execSplittableAgain(c, s)
		all = append(all, sub...)
	}
	delete(ex.forcedRet, req.call)
	return all, true
}

func (ex *exec) execSplittableAgain(st *State, s ast.Stmt) ([]*Outcome, bool) {
	return ex.execSplittable(st, s)
}

func (ex *exec) execStmt1(st *State, s ast.Stmt) []*Outcome {
	switch s := s.(type) {
	case *ast.BlockStmt:
		return ex.execBlock(st, s.List)
	case *ast.EmptyStmt:
		return normal(st)
	case *ast.ExprStmt:
		if call, ok := s.X.(*ast.CallExpr); ok {
			if id, ok := call.Fun.(*ast.Ident); ok && id.Name == "panic" {
				if _, isB := ex.info().Uses[id].(*types.Builtin); isB {
					return []*Outcome{{st: st, kind: OPanic, pos: s.Pos(), msg: "explicit panic"}}
				}
			}
			ex.evalCall(st, call, false)
			return normal(st)
		}
		ex.evalExpr(st, s.X)
		return normal(st)
	case *ast.DeclStmt:
		gd := s.Decl.(*ast.GenDecl)
		if gd.Tok == token.CONST || gd.Tok == token.TYPE {
			return normal(st)
		}
		for _, sp := range gd.Specs {
			vs := sp.(*ast.ValueSpec)
			if len(vs.Values) == 0 {
				for _, n := range vs.Names {
					if n.Name == "_" {
						continue
					}
					v := ex.info().Defs[n].(*types.Var)
					ex.declare(st, v, ex.zeroValue(v.Type()))
				}
			} else if len(vs.Values) == len(vs.Names) {
				vals := make([]Value, len(vs.Names))
				for i := range vs.Names {
					vals[i] = ex.evalExprT(st, vs.Values[i], nil)
				}
				for i, n := range vs.Names {
					if n.Name == "_" {
						continue
					}
					v := ex.info().Defs[n].(*types.Var)
					ex.declare(st, v, ex.coerce(vals[i], v.Type(), vs.Values[i]))
				}
			} else {
				tv := ex.evalExpr(st, vs.Values[0]).(Tuple)
				for i, n := range vs.Names {
					if n.Name == "_" {
						continue
					}
					v := ex.info().Defs[n].(*types.Var)
					ex.declare(st, v, tv[i])
				}
			}
		}
		return normal(st)
	case *ast.AssignStmt:
		ex.execAssign(st, s)
		return normal(st)
	case *ast.IncDecStmt:
		loc := ex.evalLoc(st, s.X)
		t := ex.info().TypeOf(s.X)
		cur := ex.load(st, loc, s.Pos()).(*Term)
		one := ex.intConst(t, big.NewInt(1))
		op := token.ADD
		if s.Tok == token.DEC {
			op = token.SUB
		}
		ex.store(st, loc, ex.binop(st, op, t, cur, one, s.Pos()), s.Pos())
		return normal(st)
	case *ast.ReturnStmt:
		fr := ex.fr()
		var vals []Value
		if len(s.Results) == 0 {
			for _, r := range fr.results {
				vals = append(vals, st.heap[r])
			}
		} else if len(s.Results) == 1 && len(fr.results) > 1 {
			vals = ex.evalExpr(st, s.Results[0]).(Tuple)
		} else {
			for i, r := range s.Results {
				v := ex.evalExprT(st, r, fr.results[i].T)
				vals = append(vals, ex.coerce(v, fr.results[i].T, r))
			}
		}
		for i, r := range fr.results {
			st.heap[r] = vals[i]
		}
		return []*Outcome{{st: st, kind: OReturn, ret: vals, pos: s.Pos()}}
	case *ast.BranchStmt:
		lbl := ""
		if s.Label != nil {
			lbl = s.Label.Name
		}
		switch s.Tok {
		case token.BREAK:
			return []*Outcome{{st: st, kind: OBreak, label: lbl}}
		case token.CONTINUE:
			return []*Outcome{{st: st, kind: OContinue, label: lbl}}
		}
		ex.fail(s.Pos(), "unsupported branch %s", s.Tok)
	case *ast.IfStmt:
		return ex.execIf(st, s)
	case *ast.ForStmt:
		return ex.execFor(st, s, "")
	case *ast.RangeStmt:
		return ex.execRange(st, s, "")
	case *ast.SwitchStmt:
		return ex.execSwitch(st, s)
	case *ast.LabeledStmt:
		switch b := s.Stmt.(type) {
		case *ast.ForStmt:
			return ex.execFor(st, b, s.Label.Name)
		case *ast.RangeStmt:
			return ex.execRange(st, b, s.Label.Name)
		}
		return ex.execStmt(st, s.Stmt)
	}
	ex.fail(s.Pos(), "unsupported statement %T", s)
	return nil
}

func (ex *exec) execIf(st *State, s *ast.IfStmt) []*Outcome {
	if s.Init != nil {
		outs := ex.execStmt(st, s.Init)
		if len(outs) != 1 || outs[0].kind != ONormal {
			ex.fail(s.Pos(), "complex if-init")
		}
		st = outs[0].st
	}
	c := ex.evalCond(st, s.Cond)
	var outs []*Outcome
	if c != False {
		ts := st
		if c != True {
			ts = st.clone()
			ts.assumeBranch(c)
		}
		if !ts.infeasible() {
			outs = append(outs, ex.execBlock(ts, s.Body.List)...)
		}
	}
	if c != True {
		es := st
		es.assumeBranch(Not(c))
		if !es.infeasible() {
			if s.Else != nil {
				outs = append(outs, ex.execStmt(es, s.Else)...)
			} else {
				outs = append(outs, &Outcome{st: es, kind: ONormal})
			}
		}
	}
	return outs
}

func (ex *exec) evalCond(st *State, e ast.Expr) *Term {
	v := ex.evalExpr(st, e)
	t, ok := v.(*Term)
	if !ok || t.Sort != BoolSort {
		ex.fail(e.Pos(), "condition is not boolean: %T", v)
	}
	if ex.taint {
		ex.checkPublic(st, t, "branch", e.Pos())
	}
	return ex.simplifyUnderPC(st, t)
}

// simplifyUnderPC resolves a condition that is syntactically decided by the path condition.
func (ex *exec) simplifyUnderPC(st *State, t *Term) *Term {
	if t.IsConst() {
		return t
	}
	n := Not(t)
	for _, p := range st.pc {
		if p == t {
			return True
		}
		if p == n {
			return False
		}
	}
	if ex.ct != nil && ex.ct.Prune && !ex.inPrune {
		ex.inPrune = true
		defer func() { ex.inPrune = false }()
		saved := ex.lemmaTimeout
		ex.lemmaTimeout = 3
		defer func() { ex.lemmaTimeout = saved }()
		if ex.lemma(st, t, "branch-always", token.NoPos) {
			return True
		}
		if ex.lemma(st, n, "branch-never", token.NoPos) {
			return False
		}
	}
	return t
}

func (ex *exec) execSwitch(st *State, s *ast.SwitchStmt) []*Outcome {
	if s.Init != nil {
		outs := ex.execStmt(st, s.Init)
		st = outs[0].st
	}
	var tag Value
	if s.Tag != nil {
		tag = ex.evalExpr(st, s.Tag)
	}
	var outs []*Outcome
	cur := st
	var deflt *ast.CaseClause
	finish := func(os []*Outcome) {
		for _, o := range os {
			if o.kind == OBreak && o.label == "" {
				o.kind = ONormal
			}
			outs = append(outs, o)
		}
	}
	for _, c := range s.Body.List {
		cc := c.(*ast.CaseClause)
		if cc.List == nil {
			deflt = cc
			continue
		}
		var conds []*Term
		for _, e := range cc.List {
			if tag == nil {
				conds = append(conds, ex.evalCond(cur, e))
			} else {
				v := ex.evalExpr(cur, e)
				conds = append(conds, ex.valuesEqual(cur, tag, v, e.Pos()))
			}
		}
		c := Or(conds...)
		if c != False {
			ts := cur.clone()
			ts.assumeBranch(c)
			if !ts.infeasible() {
				finish(ex.execBlock(ts, cc.Body))
			}
		}
		cur.assumeBranch(Not(c))
		if cur.infeasible() {
			return outs
		}
	}
	if deflt != nil {
		finish(ex.execBlock(cur, deflt.Body))
	} else {
		outs = append(outs, &Outcome{st: cur, kind: ONormal})
	}
	return outs
}

// ---------- loops ----------

const unrollCap = 100000

func (ex *exec) execFor(st *State, s *ast.ForStmt, label string) []*Outcome {
	fr := ex.fr()
	fr.loopOrd++
	ord := fr.loopOrd
	if s.Init != nil {
		outs := ex.execStmt(st, s.Init)
		st = outs[0].st
	}
	var lc *LoopContract
	if !fr.inlined || true {
		lc = ex.loopContract(fr, ord)
	}
	if lc != nil && len(lc.Invariants) > 0 {
		return ex.execLoopCut(st, s.Cond, s.Body, s.Post, label, lc, s.Pos(), nil)
	}
	// exact unrolling while the condition is decided
	var exits []*Outcome
	cur := []*State{st}
	for iter := 0; ; iter++ {
		if iter > unrollCap {
			ex.fail(s.Pos(), "unrolling cap exceeded")
		}
		if s.Cond == nil && iter > 64 {
			// `for { ... }` without a loop contract that keeps going: it needs an invariant (never unroll it up to the cap)
			ex.fail(s.Pos(), "loop %d of %s needs an invariant (no condition, still running after 64 unrolled iterations)", ord, fr.fi.Key)
		}
		var next []*State
		for _, c := range cur {
			cond := True
			if s.Cond != nil {
				cond = ex.evalCond(c, s.Cond)
			}
			if cond == False {
				exits = append(exits, &Outcome{st: c, kind: ONormal})
				continue
			}
			if cond != True {
				ex.fail(s.Pos(), "loop %d of %s needs an invariant (condition not decided: %s)", ord, fr.fi.Key, cond)
			}
			saved := fr.loopOrd
			for _, o := range ex.execBlock(c, s.Body.List) {
				switch {
				case o.kind == ONormal || (o.kind == OContinue && (o.label == "" || o.label == label)):
					ps := o.st
					if s.Post != nil {
						po := ex.execStmt(ps, s.Post)
						ps = po[0].st
					}
					next = append(next, ps)
				case o.kind == OBreak && (o.label == "" || o.label == label):
					exits = append(exits, &Outcome{st: o.st, kind: ONormal})
				default:
					exits = append(exits, o)
				}
			}
			fr.loopOrd = saved
		}
		if len(next) == 0 {
			break
		}
		cur = ex.mergeStates(next)
	}
	// nested loops inside the body were numbered during the first iteration only
	ex.skipNestedLoops(fr, s.Body)
	return exits
}

// skipNestedLoops advances the loop ordinal past loops nested in body so that
// ordinals follow source order regardless of how many iterations were unrolled.
func (ex *exec) skipNestedLoops(fr *frame, body *ast.BlockStmt) {
	n := 0
	ast.Inspect(body, func(x ast.Node) bool {
		switch x.(type) {
		case *ast.ForStmt, *ast.RangeStmt:
			n++
		case *ast.FuncLit:
			return false
		}
		return true
	})
	fr.loopOrd += n
}

// execLoopCut: invariant-based loop verification.  rangeHook, when non-nil,
// is called at the start of each abstract iteration to bind range variables.
func (ex *exec) execLoopCut(st *State, cond ast.Expr, body *ast.BlockStmt, post ast.Stmt, label string, lc *LoopContract, pos token.Pos, bind func(st *State)) []*Outcome {
	ex.midBody = true
	defer func() { ex.midBody = false }()
	fr := ex.fr()
	saved := fr.loopOrd
	// establish
	for _, inv := range lc.Invariants {
		g := ex.evalSpecBool(st, fr, inv.Expr, nil)
		ex.oblige(st, fmt.Sprintf("loop%d.inv-init", lc.Ord), inv.Label, g, pos)
	}
	// havoc
	hst := st
	ex.havocLoopTargets(hst, body, post, lc, pos)
	for _, inv := range lc.Invariants {
		t := ex.evalSpecBool(hst, fr, inv.Expr, nil)
		hst.assume(t)
		hst.name("inv:"+inv.Label, t)
	}
	var exits []*Outcome
	// exit path
	c := True
	bodySt := hst.clone()
	if cond != nil {
		c = ex.evalCond(bodySt, cond)
		est := hst
		ec := ex.evalCond(est, cond)
		est.assumeBranch(Not(ec))
		if !est.infeasible() {
			exits = append(exits, &Outcome{st: est, kind: ONormal})
		}
		bodySt.assumeBranch(c)
	}
	if bind != nil {
		bind(bodySt)
	}
	if !bodySt.infeasible() {
		var dec0 *Term
		if lc.Decreases != nil {
			dec0 = ex.evalSpecTerm(bodySt, fr, lc.Decreases, nil)
		}
		for _, o := range ex.execBlock(bodySt, body.List) {
			switch {
			case o.kind == ONormal || (o.kind == OContinue && (o.label == "" || o.label == label)):
				ps := o.st
				if post != nil {
					po := ex.execStmt(ps, post)
					ps = po[0].st
				}
				for _, inv := range lc.Invariants {
					g := ex.evalSpecBool(ps, fr, inv.Expr, nil)
					ex.oblige(ps, fmt.Sprintf("loop%d.inv-step", lc.Ord), inv.Label, g, pos)
				}
				if dec0 != nil {
					d1 := ex.evalSpecTerm(ps, fr, lc.Decreases, nil)
					ex.oblige(ps, fmt.Sprintf("loop%d.decreases", lc.Ord), "", And(ex.lt(d1, dec0), ex.le(zeroLike(dec0), dec0)), pos)
				}
			case o.kind == OBreak && (o.label == "" || o.label == label):
				exits = append(exits, &Outcome{st: o.st, kind: ONormal})
			default:
				exits = append(exits, o)
			}
		}
	}
	fr.loopOrd = saved
	ex.skipNestedLoops(fr, body)
	return exits
}

func zeroLike(t *Term) *Term {
	if t.Sort.K == KInt {
		return IntC64(0)
	}
	return BVC64(t.Sort.W, 0)
}

// havocLoopTargets replaces everything the loop may assign by fresh values.
func (ex *exec) havocLoopTargets(st *State, body *ast.BlockStmt, post ast.Stmt, lc *LoopContract, pos token.Pos) {
	info := ex.info()
	targets := map[*Obj]bool{}
	addRoot := func(e ast.Expr) {
		// find the root identifier of an lvalue and decide which object is written
		for {
			switch x := e.(type) {
			case *ast.ParenExpr:
				e = x.X
				continue
			case *ast.Ident:
				if x.Name == "_" {
					return
				}
				v, ok := info.ObjectOf(x).(*types.Var)
				if !ok {
					return
				}
				if o, ok := st.vars[v]; ok {
					targets[o] = true
				} else if v.Parent() == v.Pkg().Scope() {
					targets[ex.globalObj(st, v, pos)] = true
				}
				return
			case *ast.IndexExpr:
				t := info.TypeOf(x.X)
				switch t.Underlying().(type) {
				case *types.Slice, *types.Pointer:
					ex.havocPointee(st, x.X, targets)
					return
				}
				e = x.X
				continue
			case *ast.SelectorExpr:
				t := info.TypeOf(x.X)
				if _, ok := t.Underlying().(*types.Pointer); ok {
					ex.havocPointee(st, x.X, targets)
					return
				}
				e = x.X
				continue
			case *ast.StarExpr:
				ex.havocPointee(st, x.X, targets)
				return
			case *ast.SliceExpr:
				e = x.X
				continue
			}
			return
		}
	}
	var scan func(n ast.Node)
	scan = func(n ast.Node) {
		ast.Inspect(n, func(x ast.Node) bool {
			switch s := x.(type) {
			case *ast.AssignStmt:
				if s.Tok != token.DEFINE {
					for _, l := range s.Lhs {
						addRoot(l)
					}
				}
			case *ast.IncDecStmt:
				addRoot(s.X)
			case *ast.RangeStmt:
				if s.Tok == token.ASSIGN {
					if s.Key != nil {
						addRoot(s.Key)
					}
					if s.Value != nil {
						addRoot(s.Value)
					}
				}
			case *ast.CallExpr:
				// builtin copy writes its first argument; calls may write through pointer arguments
				if id, ok := s.Fun.(*ast.Ident); ok {
					if _, isB := info.Uses[id].(*types.Builtin); isB {
						if id.Name == "copy" {
							addRoot(s.Args[0])
							ex.havocPointee(st, s.Args[0], targets)
						}
						return true
					}
				}
				if tv, ok := info.Types[s.Fun]; ok && tv.IsType() {
					return true
				}
				// use the callee's assigns clause when it has one: only the arguments bound to
				// parameters mentioned there can be written
				var written map[string]bool
				var fnObj *types.Func
				switch f := unparen(s.Fun).(type) {
				case *ast.Ident:
					fnObj, _ = info.Uses[f].(*types.Func)
				case *ast.SelectorExpr:
					if sl, ok := info.Selections[f]; ok {
						fnObj, _ = sl.Obj().(*types.Func)
					} else {
						fnObj, _ = info.Uses[f.Sel].(*types.Func)
					}
				}
				if fnObj != nil {
					key := funcKey(fnObj)
					ct := ex.eng.contracts[key]
					if ex.mode == ModeInt {
						if c2 := ex.eng.contracts[key+"#int"]; c2 != nil {
							ct = c2
						}
					}
					if fnObj.Pkg() != nil && ex.root.Pkg != nil && ex.root.Pkg.Types != fnObj.Pkg() {
						if c2 := ex.eng.contracts[key+"#ext"]; c2 != nil {
							ct = c2
						}
					}
					if ct != nil && ct.HasAssign {
						written = map[string]bool{}
						for _, a := range ct.Assigns {
							ast.Inspect(a, func(n ast.Node) bool {
								if id, ok := n.(*ast.Ident); ok {
									written[id.Name] = true
									if gd, ok := ex.eng.ghosts[id.Name]; ok && gd.Var {
										st.ghost[id.Name] = Fresh("ghost."+id.Name, gd.Sort)
									}
								}
								return true
							})
						}
					}
				}
				if written == nil {
					for _, a := range s.Args {
						ex.havocIfRef(st, a, targets, addRoot)
					}
					if sel, ok := s.Fun.(*ast.SelectorExpr); ok {
						if _, isSel := info.Selections[sel]; isSel {
							ex.havocIfRef(st, sel.X, targets, addRoot)
						}
					}
				} else {
					sig := fnObj.Type().(*types.Signature)
					for i, a := range s.Args {
						if i < sig.Params().Len() && written[sig.Params().At(i).Name()] {
							ex.havocIfRef(st, a, targets, addRoot)
						}
					}
					if sel, ok := s.Fun.(*ast.SelectorExpr); ok && sig.Recv() != nil {
						if _, isSel := info.Selections[sel]; isSel && (written[sig.Recv().Name()] || written["recv"]) {
							ex.havocIfRef(st, sel.X, targets, addRoot)
						}
					}
				}
			case *ast.FuncLit:
				return false
			}
			return true
		})
	}
	scan(body)
	if post != nil {
		scan(post)
	}
	for _, m := range lc.Modifies {
		if id, ok := m.(*ast.Ident); ok {
			if gd, ok := ex.eng.ghosts[id.Name]; ok && gd.Var {
				st.ghost[id.Name] = Fresh("ghost."+id.Name, gd.Sort)
				continue
			}
		}
		ex.havocPointee(st, m, targets)
		addRoot(m)
	}
	var objs []*Obj
	for o := range targets {
		objs = append(objs, o)
	}
	sort.Slice(objs, func(i, j int) bool { return objs[i].id < objs[j].id })
	for _, o := range objs {
		if _, ok := st.heap[o]; !ok {
			continue
		}
		st.heap[o] = ex.havocValue(st, st.heap[o], o.T, o.name)
	}
}

// havocValue gives a fresh value of the same shape, keeping pointer/slice
// structure that cannot be re-derived (pointers stay, pointees are separate objects).
func (ex *exec) havocValue(st *State, old Value, t types.Type, name string) Value {
	switch o := old.(type) {
	case *Term:
		if o.Sort.K == KArr {
			return Fresh(name, o.Sort)
		}
		if isAbstractBig(t) {
			return Fresh(name+".val", IntSort)
		}
		if ex.scalarSort(t) != nil {
			return ex.freshScalar(t, name)
		}
		return Fresh(name, o.Sort)
	case *Struct:
		ns := &Struct{T: o.T, F: make([]Value, len(o.F))}
		for i := range o.F {
			ns.F[i] = ex.havocValue(st, o.F[i], o.T.Field(i).Type(), name+"."+o.T.Field(i).Name())
		}
		return ns
	case *Array:
		na := &Array{E: make([]Value, len(o.E))}
		var et types.Type
		switch u := t.Underlying().(type) {
		case *types.Array:
			et = u.Elem()
		case *types.Slice:
			et = u.Elem()
		}
		for i := range o.E {
			na.E[i] = ex.havocValue(st, o.E[i], et, fmt.Sprintf("%s[%d]", name, i))
		}
		return na
	case *Slice:
		// a slice variable assigned in a loop: same backing array, fresh bounds
		off := ex.freshLen(name + ".off")
		ln := ex.freshLen(name + ".len")
		cp := ex.freshLen(name + ".cap")
		st.assume(ex.le(ex.idxConst(0), off))
		st.assume(ex.le(ex.idxConst(0), ln))
		st.assume(ex.le(ln, cp))
		st.assume(ex.le(cp, ex.lenBound()))
		st.assume(ex.le(off, ex.lenBound()))
		return &Slice{Base: o.Base, Off: off, Len: ln, Cap: cp, Nil: Fresh(name+".isnil", BoolSort), Elem: o.Elem}
	case *ErrV:
		return &ErrV{NonNil: Fresh(name+".nonnil", BoolSort)}
	case *Ptr:
		return o // pointer variables reassigned in loops are not supported precisely; keep
	}
	return old
}

func (ex *exec) havocPointee(st *State, e ast.Expr, targets map[*Obj]bool) {
	defer func() {
		if r := recover(); r != nil {
			if _, ok := r.(unsupported); !ok {
				panic(r)
			}
		}
	}()
	tmp := st.clone()
	saved := ex.obligs
	savedN := map[string]int{}
	for k, v := range ex.nameN {
		savedN[k] = v
	}
	v := ex.evalExpr(tmp, e)
	ex.obligs = saved
	ex.nameN = savedN
	switch p := v.(type) {
	case *Ptr:
		if p.Obj != nil {
			targets[p.Obj] = true
		}
	case *Slice:
		if p.Base.Obj != nil {
			targets[p.Base.Obj] = true
		}
	}
}

func (ex *exec) havocIfRef(st *State, e ast.Expr, targets map[*Obj]bool, addRoot func(ast.Expr)) {
	t := ex.info().TypeOf(e)
	if t == nil {
		return
	}
	switch t.Underlying().(type) {
	case *types.Pointer, *types.Slice:
		if u, ok := e.(*ast.UnaryExpr); ok && u.Op == token.AND {
			addRoot(u.X)
			return
		}
		if s, ok := e.(*ast.SliceExpr); ok {
			addRoot(s.X)
			ex.havocPointee(st, e, targets)
			return
		}
		ex.havocPointee(st, e, targets)
	}
}

func (ex *exec) execRange(st *State, s *ast.RangeStmt, label string) []*Outcome {
	fr := ex.fr()
	fr.loopOrd++
	ord := fr.loopOrd
	info := ex.info()
	xt := info.TypeOf(s.X)
	var n *Term
	var elemAt func(st *State, i *Term) Value
	switch u := xt.Underlying().(type) {
	case *types.Slice:
		sv := ex.evalExpr(st, s.X).(*Slice)
		n = sv.Len
		elemAt = func(st *State, i *Term) Value {
			return ex.load(st, sv.Base.with(Sel{Field: -1, Idx: ex.add(sv.Off, i)}), s.Pos())
		}
	case *types.Array:
		av := ex.evalExpr(st, s.X)
		n = ex.idxConst(u.Len())
		elemAt = func(st *State, i *Term) Value { return ex.navigate(av, []Sel{{Field: -1, Idx: i}}, s.Pos()) }
	case *types.Basic:
		if u.Info()&types.IsInteger == 0 {
			ex.fail(s.Pos(), "range over %s", xt)
		}
		n = ex.evalExpr(st, s.X).(*Term)
	default:
		ex.fail(s.Pos(), "range over %s", xt)
	}
	keyT := types.Typ[types.Int]
	bindVars := func(st *State, i *Term) {
		set := func(e ast.Expr, v Value) {
			id, ok := e.(*ast.Ident)
			if !ok {
				ex.fail(s.Pos(), "range target")
			}
			if id.Name == "_" {
				return
			}
			if s.Tok == token.DEFINE {
				ex.declare(st, info.Defs[id].(*types.Var), v)
			} else {
				ex.store(st, ex.evalLoc(st, e), v, s.Pos())
			}
		}
		if s.Key != nil {
			set(s.Key, i)
		}
		if s.Value != nil {
			set(s.Value, elemAt(st, i))
		}
	}
	lc := ex.loopContract(fr, ord)
	if lc != nil && len(lc.Invariants) > 0 {
		// abstract iteration with the hidden index named $i
		idx := ex.newObj(keyT, "$range", true)
		st.heap[idx] = ex.idxConst(0)
		st.ghost["range_i"] = &Ptr{Obj: idx}
		// encode as: for $i < n { bind; body; $i++ }
		// establish/havoc/preserve handled by a synthetic loop
		return ex.execRangeCut(st, s, label, lc, idx, n, bindVars)
	}
	if !n.IsConst() {
		ex.fail(s.Pos(), "range loop %d of %s needs an invariant (symbolic length)", ord, fr.fi.Key)
	}
	cnt := n.Val.Int64()
	if ex.mode == ModeBV {
		cnt = signedVal(n).Int64()
	}
	var exits []*Outcome
	cur := []*State{st}
	for i := int64(0); i < cnt; i++ {
		var next []*State
		for _, c := range cur {
			bindVars(c, ex.idxConst(i))
			saved := fr.loopOrd
			for _, o := range ex.execBlock(c, s.Body.List) {
				switch {
				case o.kind == ONormal || (o.kind == OContinue && (o.label == "" || o.label == label)):
					next = append(next, o.st)
				case o.kind == OBreak && (o.label == "" || o.label == label):
					exits = append(exits, &Outcome{st: o.st, kind: ONormal})
				default:
					exits = append(exits, o)
				}
			}
			fr.loopOrd = saved
		}
		cur = ex.mergeStates(next)
		if len(cur) == 0 {
			break
		}
	}
	ex.skipNestedLoops(fr, s.Body)
	for _, c := range cur {
		exits = append(exits, &Outcome{st: c, kind: ONormal})
	}
	return exits
}

func (ex *exec) execRangeCut(st *State, s *ast.RangeStmt, label string, lc *LoopContract, idx *Obj, n *Term, bindVars func(*State, *Term)) []*Outcome {
	ex.midBody = true
	defer func() { ex.midBody = false }()
	fr := ex.fr()
	pos := s.Pos()
	saved := fr.loopOrd
	inRange := func(st *State) *Term {
		i := st.heap[idx].(*Term)
		return And(ex.le(ex.idxConst(0), i), ex.le(i, n))
	}
	for _, inv := range lc.Invariants {
		ex.oblige(st, fmt.Sprintf("loop%d.inv-init", lc.Ord), inv.Label, ex.evalSpecBool(st, fr, inv.Expr, nil), pos)
	}
	ex.havocLoopTargets(st, s.Body, nil, lc, pos)
	st.heap[idx] = ex.freshLen("range_i")
	st.assume(inRange(st))
	for _, inv := range lc.Invariants {
		st.assume(ex.evalSpecBool(st, fr, inv.Expr, nil))
	}
	var exits []*Outcome
	i := st.heap[idx].(*Term)
	bodySt := st.clone()
	est := st
	est.assume(Eq(i, n))
	if !est.infeasible() {
		exits = append(exits, &Outcome{st: est, kind: ONormal})
	}
	bodySt.assume(ex.lt(i, n))
	if !bodySt.infeasible() {
		bindVars(bodySt, i)
		for _, o := range ex.execBlock(bodySt, s.Body.List) {
			switch {
			case o.kind == ONormal || (o.kind == OContinue && (o.label == "" || o.label == label)):
				ps := o.st
				ps.heap[idx] = ex.add(i, ex.idxConst(1))
				for _, inv := range lc.Invariants {
					ex.oblige(ps, fmt.Sprintf("loop%d.inv-step", lc.Ord), inv.Label, ex.evalSpecBool(ps, fr, inv.Expr, nil), pos)
				}
			case o.kind == OBreak && (o.label == "" || o.label == label):
				exits = append(exits, &Outcome{st: o.st, kind: ONormal})
			default:
				exits = append(exits, o)
			}
		}
	}
	fr.loopOrd = saved
	ex.skipNestedLoops(fr, s.Body)
	return exits
}

// ---------- state merging ----------

func (ex *exec) mergeStates(sts []*State) []*State {
	var live []*State
	for _, s := range sts {
		if !s.infeasible() {
			live = append(live, s)
		}
	}
	if len(live) <= 1 {
		return live
	}
	if ex.ct != nil && ex.ct.NoMerge && len(ex.frames) == 1 {
		return live
	}
	// fold from the end: adjacent states share the longest path-condition prefixes
	out := []*State{live[len(live)-1]}
	for i := len(live) - 2; i >= 0; i-- {
		if m := ex.tryMerge(live[i], out[0]); m != nil {
			out[0] = m
		} else {
			out = append([]*State{live[i]}, out...)
		}
	}
	return out
}

func (ex *exec) tryMerge(a, b *State) (res *State) {
	defer func() {
		if r := recover(); r != nil {
			if _, ok := r.(mergeFail); ok {
				res = nil
				return
			}
			panic(r)
		}
	}()
	k := 0
	for k < len(a.pc) && k < len(b.pc) && a.pc[k] == b.pc[k] {
		k++
	}
	if k == len(a.pc) || k == len(b.pc) {
		if len(a.pc) == len(b.pc) {
			// identical path conditions: states must be identical
			ca := True
			return ex.mergeWith(a, b, ca, a.pc)
		}
		return nil
	}
	if a.pc[k] != Not(b.pc[k]) {
		return nil
	}
	// the distinguishing condition consists of the branch decisions since the paths diverged;
	// facts learned on one path only are kept, guarded by that path's condition
	split := func(s *State) (br, facts []*Term) {
		for i, p := range s.pc[k:] {
			if i == 0 || s.br[p] {
				br = append(br, p)
			} else {
				facts = append(facts, p)
			}
		}
		return
	}
	bra, fa := split(a)
	brb, fb := split(b)
	ca := And(bra...)
	cb := And(brb...)
	pc := append(append([]*Term{}, a.pc[:k]...), Or(ca, cb))
	inB := map[*Term]bool{}
	for _, f := range fb {
		inB[f] = true
	}
	inA := map[*Term]bool{}
	for _, f := range fa {
		inA[f] = true
		if inB[f] {
			pc = append(pc, f)
		} else {
			pc = append(pc, Implies(ca, f))
		}
	}
	for _, f := range fb {
		if !inA[f] {
			pc = append(pc, Implies(cb, f))
		}
	}
	var pc2 []*Term
	for _, p := range pc {
		if p != True {
			pc2 = append(pc2, p)
		}
	}
	m := ex.mergeWith(a, b, ca, pc2)
	if m != nil {
		m.br = map[*Term]bool{}
		for t := range a.br {
			m.br[t] = true
		}
		for t := range b.br {
			m.br[t] = true
		}
		m.br[Or(ca, cb)] = true
	}
	return m
}

type mergeFail struct{}

func (ex *exec) mergeWith(a, b *State, ca *Term, pc []*Term) *State {
	n := &State{vars: map[*types.Var]*Obj{}, heap: map[*Obj]Value{}, ghost: map[string]Value{}, pc: pc, gver: map[*Obj]int{}}
	for k, v := range a.gver {
		n.gver[k] = v
	}
	for k, v := range b.gver {
		if v > n.gver[k] {
			n.gver[k] = v
		}
	}
	// labelled facts survive a merge guarded by the condition of the path they hold on
	for k, v := range a.named {
		if b.named[k] == v {
			n.name(k, v)
		} else if bv, ok := b.named[k]; ok {
			n.name(k, Ite(ca, v, bv))
		} else {
			n.name(k, Implies(ca, v))
		}
	}
	for k, v := range b.named {
		if _, ok := a.named[k]; !ok {
			n.name(k, Implies(Not(ca), v))
		}
	}
	for k, v := range a.rw {
		if b.rw[k] == v {
			if n.rw == nil {
				n.rw = map[*Term]*Term{}
			}
			n.rw[k] = v
		}
	}
	for v, o := range a.vars {
		if bo, ok := b.vars[v]; ok {
			if bo != o {
				panic(mergeFail{})
			}
			n.vars[v] = o
		}
	}
	for o, av := range a.heap {
		bv, ok := b.heap[o]
		if !ok {
			continue // object only alive on one path: unreachable afterwards unless pointed to
		}
		n.heap[o] = mergeValue(ca, av, bv)
	}
	for o, bv := range b.heap {
		if _, ok := a.heap[o]; !ok {
			_ = bv
		}
	}
	// objects that exist on one side only are kept (pointers to them would fail to merge anyway)
	for o, av := range a.heap {
		if _, ok := b.heap[o]; !ok {
			n.heap[o] = av
		}
	}
	for o, bv := range b.heap {
		if _, ok := a.heap[o]; !ok {
			n.heap[o] = bv
		}
	}
	for k, av := range a.ghost {
		if bv, ok := b.ghost[k]; ok {
			n.ghost[k] = mergeValue(ca, av, bv)
		}
	}
	return n
}

func mergeValue(c *Term, a, b Value) Value {
	switch x := a.(type) {
	case *Term:
		y, ok := b.(*Term)
		if !ok || x.Sort != y.Sort {
			panic(mergeFail{})
		}
		return Ite(c, x, y)
	case *Ptr:
		y, ok := b.(*Ptr)
		if !ok {
			panic(mergeFail{})
		}
		if x.Obj == nil && y.Obj == nil {
			return x
		}
		// nil on one side: conditional pointer
		if x.Obj == nil && y.Obj != nil {
			return &Ptr{Obj: y.Obj, Path: y.Path, Span: y.Span, NilC: Or(c, ptrNil(y))}
		}
		if y.Obj == nil && x.Obj != nil {
			return &Ptr{Obj: x.Obj, Path: x.Path, Span: x.Span, NilC: Or(Not(c), ptrNil(x))}
		}
		if !samePtr(x, y) {
			panic(mergeFail{})
		}
		if x.NilC != nil || y.NilC != nil {
			return &Ptr{Obj: x.Obj, Path: x.Path, Span: x.Span, NilC: Ite(c, ptrNil(x), ptrNil(y))}
		}
		return x
	case *Slice:
		y, ok := b.(*Slice)
		if !ok || !samePtr(x.Base, y.Base) {
			panic(mergeFail{})
		}
		return &Slice{Base: x.Base, Off: Ite(c, x.Off, y.Off), Len: Ite(c, x.Len, y.Len), Cap: Ite(c, x.Cap, y.Cap), Nil: Ite(c, x.Nil, y.Nil), Elem: x.Elem}
	case *Struct:
		y, ok := b.(*Struct)
		if !ok || len(x.F) != len(y.F) {
			panic(mergeFail{})
		}
		n := &Struct{T: x.T, F: make([]Value, len(x.F))}
		for i := range x.F {
			n.F[i] = mergeValue(c, x.F[i], y.F[i])
		}
		return n
	case *Array:
		y, ok := b.(*Array)
		if !ok || len(x.E) != len(y.E) {
			panic(mergeFail{})
		}
		n := &Array{E: make([]Value, len(x.E))}
		for i := range x.E {
			n.E[i] = mergeValue(c, x.E[i], y.E[i])
		}
		return n
	case *ErrV:
		y, ok := b.(*ErrV)
		if !ok {
			panic(mergeFail{})
		}
		return &ErrV{NonNil: Ite(c, x.NonNil, y.NonNil)}
	case *Opaque:
		return x
	case *Iface:
		y, ok := b.(*Iface)
		if !ok || x.Opaque != y.Opaque || !typesEq(x.T, y.T) {
			panic(mergeFail{})
		}
		if x.V == nil && y.V == nil {
			return x
		}
		return &Iface{T: x.T, V: mergeValue(c, x.V, y.V), Opaque: x.Opaque, NilC: x.NilC}
	case Tuple:
		y, ok := b.(Tuple)
		if !ok || len(x) != len(y) {
			panic(mergeFail{})
		}
		n := make(Tuple, len(x))
		for i := range x {
			n[i] = mergeValue(c, x[i], y[i])
		}
		return n
	case nil:
		if b == nil {
			return nil
		}
	}
	panic(mergeFail{})
}

func typesEq(a, b types.Type) bool {
	if a == nil || b == nil {
		return a == b
	}
	return types.Identical(a, b)
}

// ---------- constants ----------

func constToBig(v constant.Value) *big.Int {
	switch v.Kind() {
	case constant.Int:
		if i, ok := constant.Int64Val(v); ok {
			return big.NewInt(i)
		}
		b, _ := new(big.Int).SetString(v.ExactString(), 10)
		return b
	case constant.Float:
		f := constant.ToInt(v)
		if f.Kind() == constant.Int {
			return constToBig(f)
		}
	}
	return nil
}

// tableRead: a read of a constant package-level table at a symbolic index is the table's
// specification function applied to the index.  The ground obligation "every entry equals the
// function at that index" is generated once per function (decided by evaluating all entries).
func (ex *exec) tableRead(st *State, o *Obj, fn string, idx *Term, pos token.Pos) Value {
	arr, ok := ex.globalInit[o].(*Term)
	if !ok || arr.Sort.K != KArr {
		return nil
	}
	at, ok := o.T.Underlying().(*types.Array)
	if !ok {
		return nil
	}
	n := at.Len()
	bits := 0
	for (int64(1) << uint(bits)) < n {
		bits++
	}
	if int64(1)<<uint(bits) != n {
		return nil
	}
	res := specResult[fn]
	if res == nil || res != arr.Sort.Elem {
		return nil
	}
	if !ex.tableDone[o.name] {
		if ex.tableDone == nil {
			ex.tableDone = map[string]bool{}
		}
		ex.tableDone[o.name] = true
		var cs []*Term
		for x := int64(0); x < n; x++ {
			cs = append(cs, Eq(Select(arr, BVC64(64, x)), UF(fn, res, BVC64(bits, x))))
		}
		empty := &State{vars: st.vars, heap: st.heap, ghost: st.ghost, gver: st.gver}
		saved := ex.noSplit
		ex.noSplit = true
		ex.oblige(empty, "table", o.name, And(cs...), pos)
		ex.noSplit = saved
		ex.obligs[len(ex.obligs)-1].NoAbstract = true
	}
	return UF(fn, res, Extract(bits-1, 0, idx))
}
