package main

// Contract files, the contract expression language, and contract application.

import (
	"fmt"
	"go/ast"
	"go/parser"
	"go/token"
	"go/types"
	"math/big"
	"os"
	"path/filepath"
	"regexp"
	"sort"
	"strconv"
	"strings"
)

type Clause struct {
	Label string
	Expr  ast.Expr
	Src   string
	Trusted bool   // not checked against the body: assumed for callers and listed as trusted
	From  []string // prove this clause from the named earlier clauses (and the requires) only
}

type LoopContract struct {
	Ord        int
	Invariants []Clause
	Decreases  ast.Expr
	Modifies   []ast.Expr
}

type GhostStmt struct {
	When string // before | after
	Stmt int    // statement ordinal (pre-order index among statements of the body)
	Var  string
	Expr ast.Expr
}

// StmtRule is a proof step anchored after the statement with the given source text:
//   //@ after <statement text> :: leftpad(dst, src)
//   //@ after <statement text> :: trust <label>: <formula>
type StmtRule struct {
	Text    string
	Rule    string // leftpad | trust | assert
	Label   string
	Args    []ast.Expr
	From    []string
	Used    bool
}

type LogicalVar struct{ Name, Kind string }

type GhostDecl struct {
	Name string
	Sort *Sort
	Var  bool // global ghost variable rather than a per-object field
	// representation: inside the home package the field is not ghost state but this
	// expression over the concrete object (named self); outside it is abstract state
	Rep     ast.Expr
	HomePkg string
}

type Macro struct {
	Name   string
	Params []string
	Body   ast.Expr
	Opaque *Sort // non-nil: calls evaluate to an uninterpreted application; the definition is
	// available only where a `reveal` proof step asks for it
}

type Contract struct {
	Key       string
	File      string
	Mode      Mode
	Requires  []Clause
	Ensures   []Clause
	PanicsIf  []Clause
	Assigns   []ast.Expr
	HasAssign bool
	TrustedFrame bool
	Returns   ast.Expr
	ReturnsIf []Clause // returns_if cond: expr  (Label unused; Expr = cond, From[0] = source of value expr)
	ReturnsIfVal []ast.Expr
	ReturnsElse  ast.Expr
	UseAxioms    []string
	NoMerge      bool // keep execution paths separate instead of merging them with ite
	Prune        bool // decide branch conditions with the solver where the path condition settles them
	StmtRules    []StmtRule
	AbstractSpecs []string
	Logical      []LogicalVar
	Inst         map[string]map[string]ast.Expr // callee key -> logical variable -> instantiation
	Loops     map[int]*LoopContract
	Inline    bool
	Assume    bool
	Opaque    bool
	StrictLen map[string]bool
	Cases     []Clause
	Public    map[string]bool
	Secret    map[string]bool
	Lemmas    []Clause
	Facts     []Clause // mulmono facts etc.
	Witness   map[string][]ast.Expr
	Fresh     []string // results that are freshly allocated
	NoAlias   bool
	Declass   []string
	DeclassText  []string // raw `declassify <expr text> : <reason>` clauses (constant-time contracts)
	PublicResult bool
	RetryVerdicts bool // #ct: `if secret { continue }` directly inside a `for {}` loop that draws fresh randomness is a candidate rejection
	Verdicts     bool // #ct: secret-dependent ifs outside loops whose arms only return public values are the function's verdicts
	PublicResults map[int]bool
	GhostVars []GhostStmt
	Ghost     []GhostStmt
	Params    []string // for assumed externals: parameter names override
	Raw       []string
}

var labelRe = regexp.MustCompile(`^([A-Za-z_][A-Za-z0-9_.\-]*):\s+(.*)$`)
var labelFromRe = regexp.MustCompile(`^([A-Za-z_][A-Za-z0-9_.\-]*)\s*\[from ([^\]]*)\]:\s+(.*)$`)

func parseClause(s string) (Clause, error) {
	c := Clause{Src: s}
	if m := labelFromRe.FindStringSubmatch(s); m != nil {
		c.Label = m[1]
		for _, f := range strings.Split(m[2], ",") {
			if f = strings.TrimSpace(f); f != "" {
				c.From = append(c.From, f)
			}
		}
		if len(c.From) == 0 {
			c.From = []string{"-"}
		}
		s = m[3]
	} else if m := labelRe.FindStringSubmatch(s); m != nil {
		c.Label = m[1]
		s = m[2]
	}
	e, err := parseSpecExpr(s)
	if err != nil {
		return c, fmt.Errorf("%v in %q", err, s)
	}
	c.Expr = e
	return c, nil
}

// parseSpecExpr parses Go expression syntax extended with ==> and <==>.
func parseSpecExpr(s string) (ast.Expr, error) {
	return parser.ParseExpr(rewriteImplies(s))
}

// rewriteImplies turns `A ==> B` into implies((A),(B)) and `A <==> B` into iff((A),(B)),
// at every nesting level; ==> is right associative and binds weaker than ||.
func rewriteImplies(s string) string {
	var out strings.Builder
	i := 0
	var segs []string // top-level segments split by commas
	depth := 0
	start := 0
	flush := func(end int) { segs = append(segs, s[start:end]); start = end + 1 }
	// first rewrite inside brackets recursively
	for i < len(s) {
		c := s[i]
		if c == '(' || c == '[' {
			// find match
			d := 1
			j := i + 1
			for j < len(s) && d > 0 {
				if s[j] == '(' || s[j] == '[' {
					d++
				} else if s[j] == ')' || s[j] == ']' {
					d--
				}
				j++
			}
			inner := s[i+1 : j-1]
			out.WriteByte(c)
			out.WriteString(rewriteImplies(inner))
			out.WriteByte(s[j-1])
			i = j
			continue
		}
		out.WriteByte(c)
		i++
	}
	s = out.String()
	// split top level by commas
	depth = 0
	start = 0
	segs = nil
	for i = 0; i < len(s); i++ {
		switch s[i] {
		case '(', '[':
			depth++
		case ')', ']':
			depth--
		case ',':
			if depth == 0 {
				flush(i)
			}
		}
	}
	segs = append(segs, s[start:])
	for k, seg := range segs {
		segs[k] = rewriteOne(seg)
	}
	return strings.Join(segs, ",")
}

func rewriteOne(s string) string {
	split := func(op string) (string, string, bool) {
		depth := 0
		for i := 0; i+len(op) <= len(s); i++ {
			switch s[i] {
			case '(', '[':
				depth++
			case ')', ']':
				depth--
			}
			if depth == 0 && strings.HasPrefix(s[i:], op) {
				if op == "==>" && i > 0 && s[i-1] == '<' {
					continue
				}
				return s[:i], s[i+len(op):], true
			}
		}
		return "", "", false
	}
	if a, b, ok := split("<==>"); ok {
		return "iff((" + rewriteOne(a) + "),(" + rewriteOne(b) + "))"
	}
	if a, b, ok := split("==>"); ok {
		return "implies((" + a + "),(" + rewriteOne(b) + "))"
	}
	return s
}

// LoadContracts reads every zz_contracts_verif.go below root and the extra
// contract files for external functions in dir.
func (eng *Engine) LoadContracts(files []string) error {
	for _, f := range files {
		if err := eng.loadContractFile(f); err != nil {
			return err
		}
	}
	return nil
}

func (eng *Engine) loadContractFile(file string) error {
	data, err := os.ReadFile(file)
	if err != nil {
		return err
	}
	var cur *Contract
	var loop *LoopContract
	for ln, line := range strings.Split(string(data), "\n") {
		line = strings.TrimSpace(line)
		if !strings.HasPrefix(line, "//@") {
			continue
		}
		body := strings.TrimSpace(line[3:])
		if body == "" {
			continue
		}
		if i := strings.Index(body, " //"); i >= 0 {
			body = strings.TrimSpace(body[:i])
		}
		kw := body
		rest := ""
		if i := strings.IndexAny(body, " \t"); i >= 0 {
			kw, rest = body[:i], strings.TrimSpace(body[i+1:])
		}
		errf := func(format string, a ...interface{}) error {
			return fmt.Errorf("%s:%d: %s", file, ln+1, fmt.Sprintf(format, a...))
		}
		if kw == "func" || kw == "assume" {
			key := rest
			assume := false
			if kw == "assume" {
				if !strings.HasPrefix(rest, "func ") {
					return errf("expected `assume func`")
				}
				key = strings.TrimSpace(rest[5:])
				assume = true
			}
			var params []string
			if i := strings.Index(key, " params "); i >= 0 {
				params = strings.Fields(key[i+8:])
				key = strings.TrimSpace(key[:i])
			}
			cur = &Contract{Key: key, File: file, Loops: map[int]*LoopContract{}, StrictLen: map[string]bool{}, Public: map[string]bool{}, Secret: map[string]bool{}, Witness: map[string][]ast.Expr{}, Assume: assume, Params: params}
			if old, dup := eng.contracts[key]; dup {
				// an architecture-specific contract file (zz_contracts_verif_<arch>.go) overrides the generic one
				archSpecific := func(f string) bool {
					b := filepath.Base(f)
					return strings.HasPrefix(b, "zz_contracts_verif_") && b != "zz_contracts_verif.go"
				}
				if archSpecific(file) == archSpecific(old.File) {
					return errf("duplicate contract for %s (also in %s)", key, old.File)
				}
				if !archSpecific(file) {
					// keep the specific one, skip this block
					cur = &Contract{Key: key + "#overridden", File: file, Loops: map[int]*LoopContract{}, StrictLen: map[string]bool{}, Public: map[string]bool{}, Secret: map[string]bool{}, Witness: map[string][]ast.Expr{}}
					loop = nil
					continue
				}
			}
			eng.contracts[key] = cur
			loop = nil
			continue
		}
		if kw == "ghostfield" || kw == "ghostvar" {
			var rep ast.Expr
			if i := strings.Index(rest, " rep "); i >= 0 {
				e, err := parseSpecExpr(strings.TrimSpace(rest[i+5:]))
				if err != nil {
					return errf("%v", err)
				}
				rep = e
				rest = strings.TrimSpace(rest[:i])
			}
			f := strings.Fields(rest)
			if len(f) != 2 {
				return errf("%s name Sort", kw)
			}
			var so *Sort
			switch f[1] {
			case "Int":
				so = IntSort
			case "Bool":
				so = BoolSort
			default:
				return errf("ghost sort %s", f[1])
			}
			if old, ok := eng.ghosts[f[0]]; ok && old.Rep != nil && rep == nil {
				continue // keep the declaration that carries the representation
			}
			eng.ghosts[f[0]] = &GhostDecl{Name: f[0], Sort: so, Var: kw == "ghostvar", Rep: rep, HomePkg: pkgOfFile(string(data))}
			continue
		}
		if kw == "uf" {
			// uf name Sort [lo hi]
			f := strings.Fields(rest)
			if len(f) < 2 {
				return errf("uf name Sort [lo hi]")
			}
			sig := ufSig{}
			switch f[1] {
			case "Int":
				sig.res = IntSort
			case "Bool":
				sig.res = BoolSort
			default:
				return errf("uf sort %s", f[1])
			}
			if len(f) == 4 {
				lo, err1 := parseSpecExpr(f[2])
				hi, err2 := parseSpecExpr(f[3])
				if err1 != nil || err2 != nil {
					return errf("uf range")
				}
				sig.loE, sig.hiE = lo, hi
			}
			ufSigs[f[0]] = sig
			continue
		}
		if kw == "table" {
			// table <global> = <spec function> : reads of the constant table are the spec function
			f := strings.Fields(strings.ReplaceAll(rest, "=", " "))
			if len(f) != 2 {
				return errf("table name = specfn")
			}
			eng.tables[pkgOfFile(string(data))+"."+f[0]] = f[1]
			continue
		}
		if kw == "axiom" {
			c, err := parseClause(rest)
			if err != nil {
				return errf("%v", err)
			}
			eng.axioms = append(eng.axioms, GlobalFact{Clause: c, File: file, Pkg: pkgOfFile(string(data))})
			continue
		}
		if kw == "global_fact" {
			c, err := parseClause(rest)
			if err != nil {
				return errf("%v", err)
			}
			eng.globalFacts = append(eng.globalFacts, GlobalFact{Clause: c, File: file, Pkg: pkgOfFile(string(data))})
			continue
		}
		if kw == "define" {
			// define name(p1,p2) = expr
			m := &Macro{}
			if strings.HasPrefix(rest, "opaque ") {
				f := strings.Fields(rest)
				switch f[1] {
				case "Int":
					m.Opaque = IntSort
				case "Bool":
					m.Opaque = BoolSort
				default:
					return errf("define opaque Int|Bool name(...) = ...")
				}
				rest = strings.TrimSpace(rest[strings.Index(rest, f[1])+len(f[1]):])
			}
			eq := strings.Index(rest, "=")
			head := strings.TrimSpace(rest[:eq])
			if i := strings.Index(head, "("); i >= 0 {
				m.Name = strings.TrimSpace(head[:i])
				for _, p := range strings.Split(strings.TrimSuffix(head[i+1:], ")"), ",") {
					if p = strings.TrimSpace(p); p != "" {
						m.Params = append(m.Params, p)
					}
				}
			} else {
				m.Name = head
			}
			e, err := parseSpecExpr(strings.TrimSpace(rest[eq+1:]))
			if err != nil {
				return errf("%v", err)
			}
			m.Body = e
			eng.macros[m.Name] = m
			continue
		}
		if cur == nil {
			return errf("clause outside a func block: %s", body)
		}
		cur.Raw = append(cur.Raw, body)
		switch kw {
		case "mode":
			switch rest {
			case "bv":
				cur.Mode = ModeBV
			case "int":
				cur.Mode = ModeInt
			default:
				return errf("unknown mode %s", rest)
			}
		case "inline":
			cur.Inline = true
		case "prune_branches":
			cur.Prune = true
		case "no_merge":
			cur.NoMerge = true
		case "after":
			i := strings.Index(rest, " :: ")
			if i < 0 {
				return errf("after <statement> :: <rule>")
			}
			r := StmtRule{Text: normSpace(rest[:i])}
			body := strings.TrimSpace(rest[i+4:])
			switch {
			case strings.HasPrefix(body, "trust "), strings.HasPrefix(body, "assert "), strings.HasPrefix(body, "unfold "):
				r.Rule = strings.Fields(body)[0]
				c, err := parseClause(strings.TrimSpace(body[len(r.Rule):]))
				if err != nil {
					return errf("%v", err)
				}
				r.Label = c.Label
				r.From = c.From
				r.Args = []ast.Expr{c.Expr}
			default:
				e, err := parseSpecExpr(body)
				if err != nil {
					return errf("%v", err)
				}
				call, ok := e.(*ast.CallExpr)
				if !ok {
					return errf("rule application expected")
				}
				r.Rule = call.Fun.(*ast.Ident).Name
				r.Args = call.Args
			}
			cur.StmtRules = append(cur.StmtRules, r)
		case "abstract":
			cur.AbstractSpecs = append(cur.AbstractSpecs, strings.Fields(strings.ReplaceAll(rest, ",", " "))...)
		case "logical":
			f := strings.Fields(rest)
			if len(f) != 2 {
				return errf("logical name bytes|int")
			}
			cur.Logical = append(cur.Logical, LogicalVar{f[0], f[1]})
		case "inst":
			// inst <callee key> : v = expr, w = expr
			i := strings.Index(rest, " : ")
			if i < 0 {
				return errf("inst callee : var = expr, ...")
			}
			callee := strings.TrimSpace(rest[:i])
			if cur.Inst == nil {
				cur.Inst = map[string]map[string]ast.Expr{}
			}
			m := map[string]ast.Expr{}
			for _, part := range strings.Split(rest[i+3:], ";") {
				eq := strings.Index(part, "=")
				if eq < 0 {
					return errf("inst: var = expr")
				}
				e, err := parseSpecExpr(strings.TrimSpace(part[eq+1:]))
				if err != nil {
					return errf("%v", err)
				}
				m[strings.TrimSpace(part[:eq])] = e
			}
			cur.Inst[callee] = m
		case "use_axiom":
			cur.UseAxioms = append(cur.UseAxioms, strings.Fields(strings.ReplaceAll(rest, ",", " "))...)
		case "gexp_scalar", "gexp_table", "gexp_loop", "gexp_base", "gexp_naf":
			// exponent contracts for scalar multiplication (gexp.go)
		case "exp_ops", "exp_in", "exp_out":
			// exponent-mode contracts (ring.go)
		case "writes", "immutable":
			// write-effect contracts (eff.go) read the raw clauses
		case "ring_mod", "ring_in", "ring_const", "ring_cond", "ring_out", "ring_alias", "ring_relation":
			// ring-mode contracts (ring.go) read the raw clauses
		case "asm_allow", "asm_stub", "asm_dom", "asm_copy":
			// clauses for the assembly verifier (asmvc) only
		case "opaque_products":
			cur.Opaque = true
		case "noalias":
			cur.NoAlias = true
		case "strict_len":
			for _, p := range strings.Fields(strings.ReplaceAll(rest, ",", " ")) {
				cur.StrictLen[p] = true
			}
		case "public":
			for _, p := range strings.Fields(strings.ReplaceAll(rest, ",", " ")) {
				cur.Public[p] = true
			}
		case "secret":
			for _, p := range strings.Fields(strings.ReplaceAll(rest, ",", " ")) {
				cur.Secret[p] = true
			}
		case "declassify":
			cur.Declass = append(cur.Declass, strings.Fields(strings.ReplaceAll(rest, ",", " "))...)
			cur.DeclassText = append(cur.DeclassText, rest)
		case "verdicts":
			cur.Verdicts = true
		case "retry_verdicts":
			cur.RetryVerdicts = true
		case "public_result":
			if strings.TrimSpace(rest) == "" {
				cur.PublicResult = true
			}
			for _, f := range strings.Fields(strings.ReplaceAll(rest, ",", " ")) {
				var n int
				if _, err := fmt.Sscan(f, &n); err != nil {
					return errf("public_result takes result indices")
				}
				if cur.PublicResults == nil {
					cur.PublicResults = map[int]bool{}
				}
				cur.PublicResults[n] = true
			}
		case "fresh":
			cur.Fresh = append(cur.Fresh, strings.Fields(strings.ReplaceAll(rest, ",", " "))...)
		case "requires", "ensures", "trusted_ensures", "panics_if", "invariant", "case", "lemma", "fact":
			c, err := parseClause(rest)
			if err != nil {
				return errf("%v", err)
			}
			switch kw {
			case "requires":
				cur.Requires = append(cur.Requires, c)
			case "ensures":
				cur.Ensures = append(cur.Ensures, c)
			case "trusted_ensures":
				c.Trusted = true
				cur.Ensures = append(cur.Ensures, c)
			case "panics_if":
				cur.PanicsIf = append(cur.PanicsIf, c)
			case "case":
				cur.Cases = append(cur.Cases, c)
			case "lemma":
				cur.Lemmas = append(cur.Lemmas, c)
			case "fact":
				cur.Facts = append(cur.Facts, c)
			case "invariant":
				if loop == nil {
					return errf("invariant outside loop")
				}
				loop.Invariants = append(loop.Invariants, c)
			}
		case "assigns", "trusted_assigns":
			cur.HasAssign = true
			if kw == "trusted_assigns" {
				// the frame is used by callers and listed as trusted; it is not checked against the body
				cur.TrustedFrame = true
			}
			if rest != "nothing" {
				e, err := parseSpecExpr("f(" + rest + ")")
				if err != nil {
					return errf("%v", err)
				}
				cur.Assigns = append(cur.Assigns, e.(*ast.CallExpr).Args...)
			}
		case "returns_if":
			i := strings.LastIndex(rest, " : ")
			if i < 0 {
				return errf("returns_if cond : expr")
			}
			c, err := parseClause(strings.TrimSpace(rest[:i]))
			if err != nil {
				return errf("%v", err)
			}
			v, err := parseSpecExpr(strings.TrimSpace(rest[i+3:]))
			if err != nil {
				return errf("%v", err)
			}
			cur.ReturnsIf = append(cur.ReturnsIf, c)
			cur.ReturnsIfVal = append(cur.ReturnsIfVal, v)
		case "returns_else":
			e, err := parseSpecExpr(rest)
			if err != nil {
				return errf("%v", err)
			}
			cur.ReturnsElse = e
		case "returns":
			e, err := parseSpecExpr(rest)
			if err != nil {
				return errf("%v", err)
			}
			cur.Returns = e
		case "witness":
			eq := strings.Index(rest, "=")
			name := strings.TrimSpace(rest[:eq])
			for _, alt := range strings.Split(rest[eq+1:], " | ") {
				e, err := parseSpecExpr(strings.TrimSpace(alt))
				if err != nil {
					return errf("%v", err)
				}
				cur.Witness[name] = append(cur.Witness[name], e)
			}
		case "loop":
			n, err := strconv.Atoi(rest)
			if err != nil {
				return errf("loop ordinal: %v", err)
			}
			loop = &LoopContract{Ord: n}
			cur.Loops[n] = loop
		case "decreases":
			if loop == nil {
				return errf("decreases outside loop")
			}
			e, err := parseSpecExpr(rest)
			if err != nil {
				return errf("%v", err)
			}
			loop.Decreases = e
		case "modifies":
			if loop == nil {
				return errf("modifies outside loop")
			}
			e, err := parseSpecExpr("f(" + rest + ")")
			if err != nil {
				return errf("%v", err)
			}
			loop.Modifies = append(loop.Modifies, e.(*ast.CallExpr).Args...)
		default:
			return errf("unknown clause %q", kw)
		}
	}
	return nil
}

func (ex *exec) loopContract(fr *frame, ord int) *LoopContract {
	ct := ex.eng.contracts[fr.fi.Key]
	if ct == nil {
		return nil
	}
	return ct.Loops[ord]
}

// termSize counts DAG nodes up to a limit.
func termSize(t *Term, limit int) int {
	seen := map[*Term]bool{}
	var rec func(t *Term)
	rec = func(t *Term) {
		if seen[t] || len(seen) >= limit {
			return
		}
		seen[t] = true
		for _, a := range t.Args {
			rec(a)
		}
		if t.Op == "poly" {
			for _, a := range t.Poly.atoms() {
				rec(a)
			}
		}
	}
	rec(t)
	return len(seen)
}

func normSpace(s string) string { return strings.Join(strings.Fields(s), " ") }

var srcCache = map[string][]byte{}

// nodeText returns the source text of a node.
func (eng *Engine) nodeText(fset *token.FileSet, n ast.Node) string {
	f := fset.File(n.Pos())
	if f == nil {
		return ""
	}
	data, ok := srcCache[f.Name()]
	if !ok {
		data, _ = os.ReadFile(f.Name())
		srcCache[f.Name()] = data
	}
	a, b := f.Offset(n.Pos()), f.Offset(n.End())
	if a < 0 || b > len(data) || a > b {
		return ""
	}
	return string(data[a:b])
}

func (ex *exec) stmtText(s ast.Stmt) string {
	f := ex.eng.fset.File(s.Pos())
	if f == nil {
		return ""
	}
	data, ok := srcCache[f.Name()]
	if !ok {
		data, _ = os.ReadFile(f.Name())
		srcCache[f.Name()] = data
	}
	a, b := f.Offset(s.Pos()), f.Offset(s.End())
	if a < 0 || b > len(data) || a > b {
		return ""
	}
	return normSpace(string(data[a:b]))
}

// stmtHasRules: some proof step of the function under verification is anchored at statement s.
func (ex *exec) stmtHasRules(s ast.Stmt) bool {
	if len(ex.frames) == 0 {
		return false
	}
	ct := ex.eng.contracts[ex.fr().fi.Key]
	if ct == nil || len(ct.StmtRules) == 0 {
		return false
	}
	switch s.(type) {
	case *ast.BlockStmt, *ast.IfStmt, *ast.ForStmt, *ast.RangeStmt, *ast.SwitchStmt:
		return false
	}
	txt := ex.stmtText(s)
	for i := range ct.StmtRules {
		if ct.StmtRules[i].Text == txt {
			return true
		}
	}
	return false
}

// applyGhost runs the proof steps anchored after statement s.
func (ex *exec) applyGhost(st *State, s ast.Stmt, when string) {
	if when != "after" || len(ex.frames) == 0 {
		return
	}
	fr := ex.fr()
	ct := ex.eng.contracts[fr.fi.Key]
	if ct == nil || len(ct.StmtRules) == 0 {
		return
	}
	switch s.(type) {
	case *ast.BlockStmt, *ast.IfStmt, *ast.ForStmt, *ast.RangeStmt, *ast.SwitchStmt:
		return
	}
	txt := ex.stmtText(s)
	saved := ex.midBody
	ex.midBody = true
	defer func() { ex.midBody = saved }()
	for i := range ct.StmtRules {
		r := &ct.StmtRules[i]
		if r.Text != txt {
			continue
		}
		r.Used = true
		switch r.Rule {
		case "trust":
			env := ex.newSpecEnv(st, fr, nil)
			env.assume = true
			tt := env.toBool(env.eval(r.Args[0]))
			st.assume(tt)
			st.name(r.Label, tt)
			ex.trustedClauses[fr.fi.Key+"/"+r.Label+": "+exprString(r.Args[0])] = true
			ex.rewriteByEquation(st, fr, r.Args[0])
		case "assert":
			env := ex.newSpecEnv(st, fr, nil)
			npc0 := len(st.pc)
			g := env.toBool(env.eval(r.Args[0]))
			if len(r.From) > 0 {
				// structured step: only the named facts and the small quantifier-free facts of
				// the path condition are hypotheses
				sub := &State{vars: st.vars, heap: st.heap, ghost: st.ghost, gver: st.gver, rw: st.rw}
				for _, f := range r.From {
					if f == "-" {
						continue
					}
					t, ok := st.named[f]
					if !ok {
						ex.fail(s.Pos(), "assert %s: no fact named %s", r.Label, f)
					}
					sub.pc = append(sub.pc, t)
				}
				for i, p := range st.pc {
					// small facts of the path, and the definitional facts introduced by evaluating the goal itself
					if i >= npc0 || (!hasQuantifier(p) && termSize(p, 60) < 60) {
						sub.pc = append(sub.pc, p)
					}
				}
				n0 := len(ex.obligs)
				ex.oblige(sub, "assert", r.Label, g, s.Pos())
				for _, ob := range ex.obligs[n0:] {
					ob.AltHyps = append([]*Term{}, st.pc...)
				}
				st.assume(g)
			} else {
				ex.oblige(st, "assert", r.Label, g, s.Pos())
			}
			st.name(r.Label, g)
			ex.rewriteByEquation(st, fr, r.Args[0])
		case "unfold":
			// an instance of the definition of a (recursive) spec function: proved on its own,
			// without hypotheses, from the definitions in the spec library, then available here
			env := ex.newSpecEnv(st, fr, nil)
			f := env.toBool(env.eval(r.Args[0]))
			empty := &State{vars: st.vars, heap: st.heap, ghost: st.ghost, gver: st.gver}
			ex.oblige(empty, "unfold", r.Label, f, s.Pos())
			ex.obligs[len(ex.obligs)-1].NoAbstract = true
			// `[from opaque:f, opaque:g]`: these spec functions stay uninterpreted in this instance (the
			// instance then holds for every interpretation of them)
			for _, fr := range r.From {
				if strings.HasPrefix(fr, "opaque:") {
					o := ex.obligs[len(ex.obligs)-1]
					if o.AbstractOnly == nil {
						o.AbstractOnly = map[string]bool{}
					}
					o.AbstractOnly[strings.TrimPrefix(fr, "opaque:")] = true
				}
			}
			st.assume(f)
			st.name(r.Label, f)
		case "leftpad":
			ex.ruleLeftPad(st, fr, r, s.Pos())
		case "reveal":
			// reveal f(args): the definition of the opaque spec function at these arguments
			env := ex.newSpecEnv(st, fr, nil)
			ap := env.eval(r.Args[0]).(*Term)
			env2 := ex.newSpecEnv(st, fr, nil)
			env2.revealing = true
			body := env2.eval(r.Args[0]).(*Term)
			st.assume(Eq(ap, body))
			if c, ok := r.Args[0].(*ast.CallExpr); ok {
				if id, ok := c.Fun.(*ast.Ident); ok {
					st.name("reveal:"+id.Name, Eq(ap, body))
				}
			}
		default:
			ex.fail(s.Pos(), "unknown proof rule %s", r.Rule)
		}
	}
}

// rewriteByEquation: an established equation `lhs == rhs` is used as a left-to-right
// rewrite of the values in the state (the equation itself stays in the path condition).
func (ex *exec) rewriteByEquation(st *State, fr *frame, e ast.Expr) {
	be, ok := unparen(e).(*ast.BinaryExpr)
	if !ok || be.Op != token.EQL {
		return
	}
	env := ex.newSpecEnv(st, fr, nil)
	l, ok1 := env.eval(be.X).(*Term)
	r, ok2 := env.eval(be.Y).(*Term)
	if !ok1 || !ok2 || l.Sort != r.Sort || l.IsConst() || l == r || l.Sort.K == KArr {
		return
	}
	st.substAll(map[*Term]*Term{l: r})
}

// ruleLeftPad proves be(dst) == be(src) where dst (constant length n <= 64) holds src
// right-aligned after leading zero bytes, by a complete case split on len(src) in 0..n.
// The instances be(src) == sum src[i]*256^(L-1-i) used for each L are the definition of be.
func (ex *exec) ruleLeftPad(st *State, fr *frame, r *StmtRule, pos token.Pos) {
	env := ex.newSpecEnv(st, fr, nil)
	dst, ok1 := env.eval(r.Args[0]).(*Slice)
	src, ok2 := env.eval(r.Args[1]).(*Slice)
	if !ok1 || !ok2 || !dst.Len.IsConst() || dst.Len.Val.Int64() > 64 || ex.mode != ModeInt {
		ex.fail(pos, "leftpad(dst, src): dst must be a slice of constant length <= 64 (int mode)")
	}
	n := dst.Len.Val.Int64()
	poly := func(s *Slice, l int64) *Term {
		acc := IntC64(0)
		for i := int64(0); i < l; i++ {
			b := env.load(s.Base.with(Sel{Field: -1, Idx: ex.add(s.Off, ex.idxConst(i))})).(*Term)
			acc = IntAdd(IntScale(acc, big.NewInt(256)), b)
		}
		return acc
	}
	ex.oblige(st, "leftpad", "len", And(IntLe(IntC64(0), src.Len), IntLe(src.Len, IntC64(n))), pos)
	pd := poly(dst, n)
	srcBe := env.beValue(src).(*Term)
	// instances of the universally quantified facts of the path (loop invariants, copy/append facts) at the n element
	// positions of dst and of src: consequences of the hypotheses, added so that the quantifier-free attempt decides
	// the cases (the quantifiers alone made a few of the n+1 cases time out under load)
	var insts []*Term
	for _, h := range st.pc {
		if h.Op != "forall" || len(h.Bound) != 1 || h.Bound[0].Sort != ex.idxSort() {
			continue
		}
		for k := int64(0); k < n; k++ {
			insts = append(insts, Subst(h.Args[0], map[*Term]*Term{h.Bound[0]: ex.add(dst.Off, ex.idxConst(k))}))
			if !src.Off.IsConst() || !dst.Off.IsConst() || src.Off.Val.Cmp(dst.Off.Val) != 0 {
				insts = append(insts, Subst(h.Args[0], map[*Term]*Term{h.Bound[0]: ex.add(src.Off, ex.idxConst(k))}))
			}
		}
	}
	for l := int64(0); l <= n; l++ {
		c := st.clone()
		c.assume(Eq(src.Len, IntC64(l)))
		for _, t := range insts {
			c.assume(t)
		}
		ex.oblige(c, "leftpad", fmt.Sprintf("case%d", l), Eq(pd, poly(src, l)), pos)
		// definitional instance of be at this length
		st.assume(Implies(Eq(src.Len, IntC64(l)), Eq(srcBe, poly(src, l))))
	}
	st.assume(Eq(pd, srcBe))
}

// ---------- spec evaluation ----------

type specEnv struct {
	ex     *exec
	st     *State            // state in which heap reads happen
	old    *State            // pre-state for old(); nil => same as st
	names  map[string]Value  // parameters (entry values), results, bound variables, macro params
	fr     *frame            // frame giving access to local variables by name (may be nil)
	locals map[string]*types.Var
	sigOverride *types.Signature
	noUnfold    bool
	noLocals    bool // a callee's contract evaluated at a call site: the caller's local variables are not in scope
	beExpand    bool
	revealing   bool
	assume      bool                  // evaluating a hypothesis: existentials are skolemised
	witness     map[string][]ast.Expr // evaluating a goal: candidates for existential variables
}

func (ex *exec) evalSpecBool(st *State, fr *frame, e ast.Expr, extra map[string]Value) *Term {
	v := ex.evalSpecTerm(st, fr, e, extra)
	if v.Sort != BoolSort {
		ex.fail(token.NoPos, "spec expression is not boolean: %s", exprString(e))
	}
	return v
}

func (ex *exec) evalSpecTerm(st *State, fr *frame, e ast.Expr, extra map[string]Value) *Term {
	env := ex.newSpecEnv(st, fr, extra)
	v := env.eval(e)
	switch x := v.(type) {
	case *Term:
		return x
	case *UConst:
		if b, ok := x.V.(bool); ok {
			return BoolC(b)
		}
		if ex.mode == ModeInt {
			return IntC(x.V.(*big.Int))
		}
		return BVC(64, x.V.(*big.Int))
	}
	ex.fail(token.NoPos, "spec expression %s evaluates to %T", exprString(e), v)
	return nil
}

func (ex *exec) newSpecEnv(st *State, fr *frame, extra map[string]Value) *specEnv {
	env := &specEnv{ex: ex, st: st, fr: fr, names: map[string]Value{}}
	if fr != nil {
		env.old = fr.entry
		for k, v := range fr.params {
			if ex.midBody {
				// inside the body (invariants, proof steps) a parameter name denotes the
				// current value of that variable; logical variables keep their binding
				if _, isLocal := env.lookupLocal(k); isLocal {
					continue
				}
			}
			env.names[k] = v
		}
	}
	for k, v := range extra {
		env.names[k] = v
	}
	return env
}

func exprString(e ast.Expr) string {
	var sb strings.Builder
	fs := token.NewFileSet()
	_ = fs
	writeExpr(&sb, e)
	return sb.String()
}

func writeExpr(sb *strings.Builder, e ast.Expr) {
	switch x := e.(type) {
	case *ast.Ident:
		sb.WriteString(x.Name)
	case *ast.BasicLit:
		sb.WriteString(x.Value)
	case *ast.BinaryExpr:
		sb.WriteByte('(')
		writeExpr(sb, x.X)
		sb.WriteString(" " + x.Op.String() + " ")
		writeExpr(sb, x.Y)
		sb.WriteByte(')')
	case *ast.UnaryExpr:
		sb.WriteString(x.Op.String())
		writeExpr(sb, x.X)
	case *ast.ParenExpr:
		writeExpr(sb, x.X)
	case *ast.CallExpr:
		writeExpr(sb, x.Fun)
		sb.WriteByte('(')
		for i, a := range x.Args {
			if i > 0 {
				sb.WriteString(", ")
			}
			writeExpr(sb, a)
		}
		sb.WriteByte(')')
	case *ast.IndexExpr:
		writeExpr(sb, x.X)
		sb.WriteByte('[')
		writeExpr(sb, x.Index)
		sb.WriteByte(']')
	case *ast.SliceExpr:
		writeExpr(sb, x.X)
		sb.WriteByte('[')
		if x.Low != nil {
			writeExpr(sb, x.Low)
		}
		sb.WriteByte(':')
		if x.High != nil {
			writeExpr(sb, x.High)
		}
		sb.WriteByte(']')
	case *ast.SelectorExpr:
		writeExpr(sb, x.X)
		sb.WriteString("." + x.Sel.Name)
	case *ast.StarExpr:
		sb.WriteByte('*')
		writeExpr(sb, x.X)
	default:
		fmt.Fprintf(sb, "<%T>", e)
	}
}

func (env *specEnv) fail(format string, a ...interface{}) {
	env.ex.fail(token.NoPos, "spec: "+format, a...)
}

// lookupLocal finds a local variable of the function frame by name (innermost live declaration).
func (env *specEnv) lookupLocal(name string) (Value, bool) {
	var best *types.Var
	for v := range env.st.vars {
		if v.Name() == name {
			if best == nil || v.Pos() > best.Pos() {
				best = v
			}
		}
	}
	if best == nil {
		return nil, false
	}
	return env.st.heap[env.st.vars[best]], true
}

func (env *specEnv) eval(e ast.Expr) Value {
	ex := env.ex
	switch x := e.(type) {
	case *ast.ParenExpr:
		return env.eval(x.X)
	case *ast.BasicLit:
		switch x.Kind {
		case token.INT:
			v, ok := new(big.Int).SetString(strings.ReplaceAll(x.Value, "_", ""), 0)
			if !ok {
				env.fail("bad literal %s", x.Value)
			}
			return &UConst{v}
		}
		env.fail("literal %s", x.Value)
	case *ast.Ident:
		switch x.Name {
		case "true":
			return &UConst{true}
		case "false":
			return &UConst{false}
		case "nil":
			return &Opaque{"nil"}
		}
		if v, ok := env.names[x.Name]; ok {
			return v
		}
		if !env.noLocals {
			if v, ok := env.lookupLocal(x.Name); ok {
				return v
			}
		}
		if gd, ok := ex.eng.ghosts[x.Name]; ok && gd.Var {
			if v, ok := env.st.ghost[x.Name]; ok {
				return v
			}
			v := Var("ghost."+x.Name+"@entry", gd.Sort)
			return v
		}
		if g, ok := env.st.ghost[x.Name]; ok {
			if p, isP := g.(*Ptr); isP && x.Name == "range_i" {
				return env.st.heap[p.Obj]
			}
			return g
		}
		if m, ok := ex.eng.macros[x.Name]; ok && len(m.Params) == 0 {
			return env.eval(m.Body)
		}
		if v, ok := ex.lookupGlobalByName(env.st, x.Name); ok {
			return v
		}
		env.fail("unknown identifier %s", x.Name)
	case *ast.UnaryExpr:
		v := env.eval(x.X)
		switch x.Op {
		case token.NOT:
			return Not(env.toBool(v))
		case token.SUB:
			if c, ok := v.(*UConst); ok {
				return &UConst{new(big.Int).Neg(c.V.(*big.Int))}
			}
			t := v.(*Term)
			if t.Sort.K == KInt {
				return IntNeg(t)
			}
			return BVNeg(t)
		case token.XOR:
			t := v.(*Term)
			return BVNot(t)
		case token.AND:
			// &x : location
			if p := env.loc(x.X); p != nil {
				return p
			}
		}
		env.fail("unary %s", x.Op)
	case *ast.StarExpr:
		p, ok := env.eval(x.X).(*Ptr)
		if !ok || p.Obj == nil {
			env.fail("dereference of non-pointer in %s", exprString(e))
		}
		return env.load(p)
	case *ast.BinaryExpr:
		return env.binary(x)
	case *ast.SelectorExpr:
		base := env.eval(x.X)
		return env.selectField(base, x.Sel.Name)
	case *ast.IndexExpr:
		base := env.eval(x.X)
		idx := env.toIdx(env.eval(x.Index))
		switch b := base.(type) {
		case *Slice:
			if b.Base.Obj == nil {
				// element of a nil slice: only meaningful under a guard that is false; any value will do
				es := BVSort(8)
				if b.Elem != nil && ex.scalarSort(b.Elem) != nil {
					es = ex.scalarSort(b.Elem)
				} else if ex.mode == ModeInt {
					es = IntSort
				}
				return Fresh("nil.elem", es)
			}
			return env.load(b.Base.with(Sel{Field: -1, Idx: ex.add(b.Off, idx)}))
		case *Ptr:
			return env.load(b.with(Sel{Field: -1, Idx: idx}))
		case *Term:
			if b.Sort.K == KArr {
				return Select(b, idx)
			}
		case *Array:
			return ex.navigate(b, []Sel{{Field: -1, Idx: idx}}, token.NoPos)
		}
		env.fail("index of %T in %s", base, exprString(e))
	case *ast.SliceExpr:
		base := env.eval(x.X)
		var sv *Slice
		switch b := base.(type) {
		case *Slice:
			sv = b
		default:
			// slicing an array variable / pointer to array / array value
			p, isP := base.(*Ptr)
			if at, isT := base.(*Term); isT && at.Sort.K == KArr {
				o := ex.newObj(nil, "arrayvalue", true)
				env.st.heap[o] = at
				lo := ex.idxConst(0)
				if x.Low != nil {
					lo = env.toIdx(env.eval(x.Low))
				}
				if x.High == nil {
					env.fail("slice of an array value needs an upper bound")
				}
				hi := env.toIdx(env.eval(x.High))
				return &Slice{Base: &Ptr{Obj: o}, Off: lo, Len: ex.sub(hi, lo), Cap: ex.sub(hi, lo), Nil: False}
			}
			if !isP {
				p = env.loc(x.X)
			}
			if p == nil || p.Obj == nil {
				env.fail("slice of %T", base)
			}
			at, ok := ex.typeAt(p.Obj.T, p.Path).Underlying().(*types.Array)
			if !ok {
				env.fail("slice of non-array location")
			}
			n := ex.idxConst(at.Len())
			sv = &Slice{Base: p, Off: ex.idxConst(0), Len: n, Cap: n, Nil: False, Elem: at.Elem()}
		}
		lo := ex.idxConst(0)
		hi := sv.Len
		if x.Low != nil {
			lo = env.toIdx(env.eval(x.Low))
		}
		if x.High != nil {
			hi = env.toIdx(env.eval(x.High))
		}
		return &Slice{Base: sv.Base, Off: ex.add(sv.Off, lo), Len: ex.sub(hi, lo), Cap: ex.sub(sv.Cap, lo), Nil: sv.Nil, Elem: sv.Elem}
	case *ast.CallExpr:
		return env.call(x)
	}
	env.fail("unsupported spec expression %s (%T)", exprString(e), e)
	return nil
}

func (env *specEnv) load(p *Ptr) Value {
	st := env.st
	if _, ok := st.heap[p.Obj]; !ok {
		if v, ok := env.ex.globalInit[p.Obj]; ok {
			return env.ex.navigate(v, p.Path, token.NoPos)
		}
	}
	return env.ex.load(st, p, token.NoPos)
}

func (env *specEnv) loc(e ast.Expr) *Ptr {
	switch x := e.(type) {
	case *ast.ParenExpr:
		return env.loc(x.X)
	case *ast.Ident:
		var best *types.Var
		for v := range env.st.vars {
			if v.Name() == x.Name && (best == nil || v.Pos() > best.Pos()) {
				best = v
			}
		}
		if best != nil {
			return &Ptr{Obj: env.st.vars[best]}
		}
	case *ast.StarExpr:
		if p, ok := env.eval(x.X).(*Ptr); ok {
			return p
		}
	case *ast.SelectorExpr:
		base := env.eval(x.X)
		if p, ok := base.(*Ptr); ok {
			st, ok := p.Obj.T.Underlying().(*types.Struct)
			if len(p.Path) == 0 && ok {
				for i := 0; i < st.NumFields(); i++ {
					if st.Field(i).Name() == x.Sel.Name {
						return p.with(Sel{Field: i})
					}
				}
			}
		}
	case *ast.IndexExpr:
		base := env.eval(x.X)
		idx := env.toIdx(env.eval(x.Index))
		switch b := base.(type) {
		case *Slice:
			return b.Base.with(Sel{Field: -1, Idx: env.ex.add(b.Off, idx)})
		case *Ptr:
			return b.with(Sel{Field: -1, Idx: idx})
		}
	}
	return nil
}

func (env *specEnv) selectField(base Value, name string) Value {
	switch b := base.(type) {
	case *Ptr:
		v := env.load(b)
		return env.selectField(v, name)
	case *Struct:
		for i := 0; i < b.T.NumFields(); i++ {
			if b.T.Field(i).Name() == name {
				return b.F[i]
			}
		}
		// promoted through embedded struct
		for i := 0; i < b.T.NumFields(); i++ {
			if b.T.Field(i).Embedded() {
				if s, ok := b.F[i].(*Struct); ok {
					for j := 0; j < s.T.NumFields(); j++ {
						if s.T.Field(j).Name() == name {
							return s.F[j]
						}
					}
				}
			}
		}
	case *Slice:
		switch name {
		case "len":
			return b.Len
		case "cap":
			return b.Cap
		case "off":
			return b.Off
		}
	}
	env.fail("field %s of %T", name, base)
	return nil
}

func (env *specEnv) toBool(v Value) *Term {
	switch x := v.(type) {
	case *Term:
		if x.Sort == BoolSort {
			return x
		}
	case *UConst:
		if b, ok := x.V.(bool); ok {
			return BoolC(b)
		}
	}
	env.fail("expected boolean, got %T %v", v, v)
	return nil
}

func (env *specEnv) toIdx(v Value) *Term {
	switch x := v.(type) {
	case *Term:
		if x.Sort.K == KBV && x.Sort.W < 64 {
			return ZExt(64, x)
		}
		return x
	case *UConst:
		return env.ex.idxConst(x.V.(*big.Int).Int64())
	}
	env.fail("expected index, got %T", v)
	return nil
}

// unify converts an untyped constant to the sort of the other operand.
func (env *specEnv) unify(a, b Value) (*Term, *Term) {
	ta, aok := a.(*Term)
	tb, bok := b.(*Term)
	ca, _ := a.(*UConst)
	cb, _ := b.(*UConst)
	conv := func(c *UConst, s *Sort) *Term {
		if bv, ok := c.V.(bool); ok {
			return BoolC(bv)
		}
		switch s.K {
		case KInt:
			return IntC(c.V.(*big.Int))
		case KBV:
			return BVC(s.W, c.V.(*big.Int))
		}
		env.fail("constant against sort %s", s)
		return nil
	}
	if ca != nil && cb != nil {
		return conv(ca, env.ex.idxSort()), conv(cb, env.ex.idxSort())
	}
	switch {
	case aok && bok:
		if ta.Sort != tb.Sort && ta.Sort.K == KBV && tb.Sort.K == KBV {
			// widen the narrower operand (unsigned) for convenience in specs
			if ta.Sort.W < tb.Sort.W {
				ta = ZExt(tb.Sort.W, ta)
			} else {
				tb = ZExt(ta.Sort.W, tb)
			}
		}
		return ta, tb
	case aok && cb != nil:
		return ta, conv(cb, ta.Sort)
	case bok && ca != nil:
		return conv(ca, tb.Sort), tb
	}
	if os.Getenv("GOVC_TRACE") != "" {
		panic(fmt.Sprintf("cannot unify %T and %T", a, b))
	}
	env.fail("cannot unify %T and %T", a, b)
	return nil, nil
}

func (env *specEnv) binary(x *ast.BinaryExpr) Value {
	ex := env.ex
	switch x.Op {
	case token.LAND:
		return And(env.toBool(env.eval(x.X)), env.toBool(env.eval(x.Y)))
	case token.LOR:
		return Or(env.toBool(env.eval(x.X)), env.toBool(env.eval(x.Y)))
	}
	l, r := env.eval(x.X), env.eval(x.Y)
	// constant folding on untyped constants
	if cl, ok := l.(*UConst); ok {
		if cr, ok := r.(*UConst); ok {
			if a, ok := cl.V.(*big.Int); ok {
				b := cr.V.(*big.Int)
				z := new(big.Int)
				switch x.Op {
				case token.ADD:
					return &UConst{z.Add(a, b)}
				case token.SUB:
					return &UConst{z.Sub(a, b)}
				case token.MUL:
					return &UConst{z.Mul(a, b)}
				case token.QUO:
					return &UConst{z.Div(a, b)}
				case token.REM:
					return &UConst{z.Mod(a, b)}
				case token.SHL:
					return &UConst{z.Lsh(a, uint(b.Int64()))}
				case token.SHR:
					return &UConst{z.Rsh(a, uint(b.Int64()))}
				case token.EQL:
					return &UConst{a.Cmp(b) == 0}
				case token.NEQ:
					return &UConst{a.Cmp(b) != 0}
				case token.LSS:
					return &UConst{a.Cmp(b) < 0}
				case token.LEQ:
					return &UConst{a.Cmp(b) <= 0}
				case token.GTR:
					return &UConst{a.Cmp(b) > 0}
				case token.GEQ:
					return &UConst{a.Cmp(b) >= 0}
				}
			}
		}
	}
	if x.Op == token.EQL || x.Op == token.NEQ {
		var eq *Term
		_, lt := l.(*Term)
		_, rt := r.(*Term)
		_, lc := l.(*UConst)
		_, rc := r.(*UConst)
		if (lt || lc) && (rt || rc) {
			a, b := env.unify(l, r)
			eq = Eq(a, b)
		} else {
			eq = env.valuesEqualSpec(l, r)
		}
		if x.Op == token.NEQ {
			return Not(eq)
		}
		return eq
	}
	a, b := env.unify(l, r)
	isInt := a.Sort.K == KInt
	signed := env.signedHint(x.X) || env.signedHint(x.Y)
	switch x.Op {
	case token.ADD:
		if isInt {
			return IntAdd(a, b)
		}
		return BVAdd(a, b)
	case token.SUB:
		if isInt {
			return IntSub(a, b)
		}
		return BVSub(a, b)
	case token.MUL:
		if isInt {
			return IntMul(a, b)
		}
		return BVMul(a, b)
	case token.QUO:
		if isInt {
			return IntDiv(a, b)
		}
		return BVUdiv(a, b)
	case token.REM:
		if isInt {
			return IntMod(a, b)
		}
		return BVUrem(a, b)
	case token.AND:
		if isInt {
			return ex.intBitop(env.st, token.AND, 64, false, a, b, token.NoPos)
		}
		return BVAnd(a, b)
	case token.OR:
		if isInt {
			return ex.intBitop(env.st, token.OR, 64, false, a, b, token.NoPos)
		}
		return BVOr(a, b)
	case token.XOR:
		return BVXor(a, b)
	case token.SHL:
		if isInt {
			return IntScale(a, two(uint(b.Val.Int64())))
		}
		return BVShl(a, b)
	case token.SHR:
		if isInt {
			return IntDiv(a, IntC(two(uint(b.Val.Int64()))))
		}
		return BVLshr(a, b)
	case token.LSS, token.LEQ, token.GTR, token.GEQ:
		if isInt {
			switch x.Op {
			case token.LSS:
				return IntLt(a, b)
			case token.LEQ:
				return IntLe(a, b)
			case token.GTR:
				return IntLt(b, a)
			default:
				return IntLe(b, a)
			}
		}
		lt, le := BVUlt, BVUle
		if signed {
			lt, le = BVSlt, BVSle
		}
		switch x.Op {
		case token.LSS:
			return lt(a, b)
		case token.LEQ:
			return le(a, b)
		case token.GTR:
			return lt(b, a)
		default:
			return le(b, a)
		}
	}
	env.fail("binary %s", x.Op)
	return nil
}

// signedHint decides signedness of bit-vector comparisons in specs: expressions built
// from Go variables of signed type, len/cap and untyped negative constants compare signed.
func (env *specEnv) signedHint(e ast.Expr) bool {
	signed := false
	ast.Inspect(e, func(n ast.Node) bool {
		switch x := n.(type) {
		case *ast.CallExpr:
			if id, ok := x.Fun.(*ast.Ident); ok {
				switch id.Name {
				case "len", "cap", "s":
					signed = true
				case "u":
					return false
				}
			}
		case *ast.Ident:
			if t := env.typeOfName(x.Name); t != nil {
				if _, sg, ok := env.ex.intWidth(t); ok && sg {
					signed = true
				}
			}
		case *ast.IndexExpr:
			// element type decides; do not look at the index expression
			ast.Inspect(x.X, func(m ast.Node) bool { return true })
			if env.signedHint(x.X) && env.elemSigned(x.X) {
				signed = true
			}
			return false
		}
		return true
	})
	return signed
}

func (env *specEnv) elemSigned(e ast.Expr) bool {
	if id, ok := e.(*ast.Ident); ok {
		if t := env.typeOfName(id.Name); t != nil {
			var el types.Type
			switch u := t.Underlying().(type) {
			case *types.Slice:
				el = u.Elem()
			case *types.Array:
				el = u.Elem()
			case *types.Pointer:
				if a, ok := u.Elem().Underlying().(*types.Array); ok {
					el = a.Elem()
				}
			}
			if el != nil {
				_, sg, ok := env.ex.intWidth(el)
				return ok && sg
			}
		}
	}
	return false
}

func (env *specEnv) typeOfName(name string) types.Type {
	if env.fr != nil {
		sig := env.fr.fi.Obj.Type().(*types.Signature)
		for i := 0; i < sig.Params().Len(); i++ {
			if sig.Params().At(i).Name() == name {
				return sig.Params().At(i).Type()
			}
		}
		for i := 0; i < sig.Results().Len(); i++ {
			if sig.Results().At(i).Name() == name || (name == "result" && i == 0) || name == fmt.Sprintf("result%d", i) {
				return sig.Results().At(i).Type()
			}
		}
	}
	if env.sigOverride != nil {
		sig := env.sigOverride
		for i := 0; i < sig.Params().Len(); i++ {
			if sig.Params().At(i).Name() == name {
				return sig.Params().At(i).Type()
			}
		}
		for i := 0; i < sig.Results().Len(); i++ {
			if sig.Results().At(i).Name() == name || (name == "result" && i == 0) || name == fmt.Sprintf("result%d", i) {
				return sig.Results().At(i).Type()
			}
		}
	}
	var best *types.Var
	for v := range env.st.vars {
		if v.Name() == name && (best == nil || v.Pos() > best.Pos()) {
			best = v
		}
	}
	if best != nil {
		return best.Type()
	}
	return nil
}

func (env *specEnv) valuesEqualSpec(l, r Value) *Term {
	if o, ok := r.(*Opaque); ok && o.What == "nil" {
		switch x := l.(type) {
		case *Slice:
			return x.Nil
		case *Ptr:
			return ptrNil(x)
		case *ErrV:
			return Not(x.NonNil)
		case *Iface:
			if x.Opaque != "" {
				if x.NilC != nil {
					return x.NilC
				}
				return False
			}
			return BoolC(x.T == nil && x.V == nil)
		}
	}
	if o, ok := l.(*Opaque); ok && o.What == "nil" {
		return env.valuesEqualSpec(r, l)
	}
	switch x := l.(type) {
	case *Ptr:
		if y, ok := r.(*Ptr); ok {
			if x.Obj == nil || y.Obj == nil || x.NilC != nil || y.NilC != nil {
				if x.Obj == nil && y.Obj == nil {
					return True
				}
				return And(Eq(ptrNil(x), ptrNil(y)), Or(ptrNil(x), BoolC(samePtr(x, y))))
			}
			return BoolC(samePtr(x, y))
		}
	case *Slice:
		// slice header equality
		if y, ok := r.(*Slice); ok {
			if !samePtr(x.Base, y.Base) {
				return False
			}
			return And(Eq(x.Off, y.Off), Eq(x.Len, y.Len))
		}
	case *Struct:
		if y, ok := r.(*Struct); ok {
			var cs []*Term
			for i := range x.F {
				cs = append(cs, env.valuesEqualSpec(x.F[i], y.F[i]))
			}
			return And(cs...)
		}
	case *Term:
		if y, ok := r.(*Term); ok {
			return Eq(x, y)
		}
		if y, ok := r.(*UConst); ok {
			a, b := env.unify(x, y)
			return Eq(a, b)
		}
	case *Array:
		if y, ok := r.(*Array); ok {
			var cs []*Term
			for i := range x.E {
				cs = append(cs, env.valuesEqualSpec(x.E[i], y.E[i]))
			}
			return And(cs...)
		}
	}
	env.fail("equality of %T and %T", l, r)
	return nil
}

func (env *specEnv) call(c *ast.CallExpr) Value {
	ex := env.ex
	name := ""
	if id, ok := c.Fun.(*ast.Ident); ok {
		name = id.Name
	} else {
		env.fail("call of %s", exprString(c.Fun))
	}
	arg := func(i int) Value { return env.eval(c.Args[i]) }
	constArg := func(i int) int {
		u, ok := arg(i).(*UConst)
		if !ok {
			env.fail("%s: argument %d must be a constant", name, i)
		}
		return int(u.V.(*big.Int).Int64())
	}
	switch name {
	case "old":
		if env.old == nil {
			return arg(0)
		}
		sub := *env
		sub.st = env.old
		// locals and results in old() refer to entry state
		return sub.eval(c.Args[0])
	case "prev":
		// prev(e): e evaluated in the state just before the statement a proof step is anchored at
		if env.ex.prevSt == nil {
			env.fail("prev() outside a proof step anchored at a statement")
		}
		sub := *env
		sub.st = env.ex.prevSt
		return sub.eval(c.Args[0])
	case "implies":
		return Implies(env.toBool(arg(0)), env.toBool(arg(1)))
	case "iff":
		return Eq(env.toBool(arg(0)), env.toBool(arg(1)))
	case "ite":
		a, b := env.unify(arg(1), arg(2))
		return Ite(env.toBool(arg(0)), a, b)
	case "len", "cap":
		switch v := arg(0).(type) {
		case *Slice:
			if name == "len" {
				return v.Len
			}
			return v.Cap
		case *Ptr:
			if at, ok := v.Obj.T.Underlying().(*types.Array); ok && len(v.Path) == 0 {
				return ex.idxConst(at.Len())
			}
		}
		env.fail("len of %T", arg(0))
	case "forall", "exists":
		// forall(i, lo, hi, body): lo <= i < hi
		id, ok := c.Args[0].(*ast.Ident)
		if !ok || len(c.Args) != 4 {
			env.fail("%s(i, lo, hi, body)", name)
		}
		bv := BoundVar(fmt.Sprintf("%s!%d", id.Name, boundCounter()), ex.idxSort())
		lo := env.toIdx(arg(1))
		hi := env.toIdx(arg(2))
		sub := *env
		sub.names = map[string]Value{}
		for k, v := range env.names {
			sub.names[k] = v
		}
		sub.names[id.Name] = bv
		body := sub.toBool(sub.eval(c.Args[3]))
		rng := And(ex.le(lo, bv), ex.lt(bv, hi))
		if name == "forall" {
			// small constant ranges are expanded
			if lo.IsConst() && hi.IsConst() {
				l, h := lo.Val.Int64(), hi.Val.Int64()
				if h-l <= 64 {
					var cs []*Term
					for i := l; i < h; i++ {
						cs = append(cs, Subst(body, map[*Term]*Term{bv: ex.idxConst(i)}))
					}
					return And(cs...)
				}
			}
			return Forall([]*Term{bv}, Implies(rng, body))
		}
		if lo.IsConst() && hi.IsConst() {
			l, h := lo.Val.Int64(), hi.Val.Int64()
			if h-l <= 64 {
				var cs []*Term
				for i := l; i < h; i++ {
					cs = append(cs, Subst(body, map[*Term]*Term{bv: ex.idxConst(i)}))
				}
				return Or(cs...)
			}
		}
		return Exists([]*Term{bv}, And(rng, body))
	case "zx", "sx":
		w := constArg(0)
		t := env.toTerm(arg(1), w)
		if name == "zx" {
			return ZExt(w, t)
		}
		return SExt(w, t)
	case "u", "s":
		return arg(0)
	case "ext":
		return Extract(constArg(0), constArg(1), arg(2).(*Term))
	case "cat":
		var acc *Term
		for i := range c.Args {
			t := arg(i).(*Term)
			if acc == nil {
				acc = t
			} else {
				acc = Concat(acc, t)
			}
		}
		return acc
	case "bvc":
		return BVC(constArg(0), arg(1).(*UConst).V.(*big.Int))
	case "pow2":
		return &UConst{two(uint(constArg(0)))}
	case "nonnil":
		switch v := arg(0).(type) {
		case *ErrV:
			return v.NonNil
		}
		return Not(env.valuesEqualSpec(arg(0), &Opaque{"nil"}))
	case "fresh":
		switch v := arg(0).(type) {
		case *Ptr:
			return BoolC(v.Obj != nil && v.Obj.fresh)
		case *Slice:
			return BoolC(v.Base.Obj != nil && v.Base.Obj.fresh)
		}
		return False
	case "reaches":
		// reaches(v, s): some pointer or slice reachable from value v refers to the object s lives in
		var target *Obj
		switch t := arg(1).(type) {
		case *Slice:
			target = t.Base.Obj
		case *Ptr:
			target = t.Obj
		}
		if target == nil {
			return False
		}
		seen := map[*Obj]bool{}
		var walk func(v Value) bool
		walk = func(v Value) bool {
			switch x := v.(type) {
			case *Ptr:
				if x.Obj == nil {
					return false
				}
				if x.Obj == target {
					return true
				}
				if seen[x.Obj] {
					return false
				}
				seen[x.Obj] = true
				if hv, ok := env.st.heap[x.Obj]; ok {
					return walk(hv)
				}
			case *Slice:
				return walk(x.Base)
			case *Struct:
				for _, f := range x.F {
					if walk(f) {
						return true
					}
				}
			case *Array:
				for _, f := range x.E {
					if walk(f) {
						return true
					}
				}
			case *Iface:
				if x.V != nil {
					return walk(x.V)
				}
			case Tuple:
				for _, f := range x {
					if walk(f) {
						return true
					}
				}
			}
			return false
		}
		return BoolC(walk(arg(0)))
	case "same_array":
		a, aok := arg(0).(*Slice)
		b, bok := arg(1).(*Slice)
		if aok && bok {
			return And(BoolC(samePtr(a.Base, b.Base)), Eq(a.Off, b.Off))
		}
		env.fail("same_array of %T, %T", arg(0), arg(1))
	case "forallInt":
		id, ok := c.Args[0].(*ast.Ident)
		if !ok || len(c.Args) != 2 {
			env.fail("forallInt(k, body)")
		}
		bv := BoundVar(fmt.Sprintf("%s!%d", id.Name, boundCounter()), ex.idxSort()) // Int, or 64-bit vectors in bv mode
		sub := *env
		sub.names = map[string]Value{}
		for k, v := range env.names {
			sub.names[k] = v
		}
		sub.names[id.Name] = bv
		return Forall([]*Term{bv}, sub.toBool(sub.eval(c.Args[1])))
	case "existsInt":
		// existsInt(k, body): as a hypothesis k is a fresh integer; as a goal the
		// contract's `witness k = c1 | c2` candidates are tried (disjunction).
		id, ok := c.Args[0].(*ast.Ident)
		if !ok || len(c.Args) != 2 {
			env.fail("existsInt(k, body)")
		}
		sub := *env
		sub.names = map[string]Value{}
		for k, v := range env.names {
			sub.names[k] = v
		}
		if env.assume {
			sub.names[id.Name] = Fresh("ex."+id.Name, IntSort)
			return sub.toBool(sub.eval(c.Args[1]))
		}
		cands := env.witness[id.Name]
		if len(cands) == 0 {
			env.fail("existsInt(%s, ...) needs a `witness %s = ...` clause", id.Name, id.Name)
		}
		var alts []*Term
		for _, w := range cands {
			sub.names[id.Name] = env.eval(w)
			alts = append(alts, sub.toBool(sub.eval(c.Args[1])))
		}
		return Or(alts...)
	case "hsapp":
		// hsapp(h, data): the stream h extended by the bytes of data.  Pieces of constant length
		// (<= 64) are identified by content (their big-endian value and length), longer or
		// symbolic-length pieces by the array they live in.
		h := env.flatten(arg(0))[0]
		sl, ok := arg(1).(*Slice)
		if !ok {
			env.fail("hsapp(h, data): data must be a byte slice")
		}
		if sl.Len.IsConst() && sl.Len.Val.Int64() <= 64 && ex.mode == ModeInt {
			if sl.Len.Val.Sign() == 0 {
				return UF("hs_appv", IntSort, h, IntC64(0), IntC64(0))
			}
			return UF("hs_appv", IntSort, h, env.beValue(sl).(*Term), sl.Len)
		}
		if sl.Base.Obj == nil {
			return UF("hs_appv", IntSort, h, IntC64(0), IntC64(0))
		}
		arr, ok := env.load(sl.Base).(*Term)
		if !ok {
			env.fail("hsapp of non-scalar slice")
		}
		return UF("hs_app", IntSort, h, arr, sl.Off, sl.Len)
	case "bytes":
		// bytes(b0, b1, ...): a byte string given by its elements (array written from index 0)
		var arr *Term
		if ex.mode == ModeInt {
			arr = ConstArr(ArrSortR(IntSort, IntSort, big.NewInt(0), big.NewInt(255)), IntC64(0))
		} else {
			arr = ConstArr(ArrSort(BVSort(64), BVSort(8)), BVC64(8, 0))
		}
		for i := range c.Args {
			v := arg(i)
			var t *Term
			switch x := v.(type) {
			case *Term:
				t = x
			case *UConst:
				if ex.mode == ModeInt {
					t = IntC(x.V.(*big.Int))
				} else {
					t = BVC(8, x.V.(*big.Int))
				}
			}
			arr = Store(arr, ex.idxConst(int64(i)), t)
		}
		o := ex.newObj(nil, "bytes", true)
		env.st.heap[o] = arr
		n := ex.idxConst(int64(len(c.Args)))
		return &Slice{Base: &Ptr{Obj: o}, Off: ex.idxConst(0), Len: n, Cap: n, Nil: False}
	case "be":
		// big-endian value of a byte string
		return env.beValue(arg(0))
	case "span":
		// span(p): elements addressable from pointer p inside the slice/array it was derived from
		pv, ok := arg(0).(*Ptr)
		if !ok {
			env.fail("span of %T", arg(0))
		}
		if pv.Obj == nil {
			return ex.idxConst(0)
		}
		if pv.Span != nil {
			return pv.Span
		}
		if at, ok := pv.Obj.T.Underlying().(*types.Array); ok && len(pv.Path) == 0 {
			return ex.idxConst(at.Len())
		}
		return ex.idxConst(1)
	case "mem":
		// mem(p, n): the n elements starting at pointer p, as a slice
		pv, ok := arg(0).(*Ptr)
		if !ok {
			env.fail("mem of %T", arg(0))
		}
		n := env.toIdx(arg(1))
		if pv.Obj == nil {
			return &Slice{Base: &Ptr{}, Off: ex.idxConst(0), Len: n, Cap: n, Nil: True}
		}
		if len(pv.Path) > 0 && pv.Path[len(pv.Path)-1].Field < 0 {
			last := pv.Path[len(pv.Path)-1]
			base := &Ptr{Obj: pv.Obj, Path: pv.Path[:len(pv.Path)-1]}
			return &Slice{Base: base, Off: last.Idx, Len: n, Cap: n, Nil: False}
		}
		return &Slice{Base: pv, Off: ex.idxConst(0), Len: n, Cap: n, Nil: False}
	case "redc_witness":
		// sum of the distinct Montgomery reduction multipliers x_i (first operands of
		// bits.Mul64(x_i, c) with c the lowest limb of the modulus), weighted 2^(64 i)
		c := env.flatten(arg(0))[0]
		acc := IntC64(0)
		seen := map[*Term]bool{}
		i := uint(0)
		for _, r := range ex.mulLog {
			if r.c == c && !seen[r.x] {
				seen[r.x] = true
				acc = IntAdd(acc, IntScale(r.x, two(64*i)))
				i++
			}
		}
		return acc
	case "arr":
		switch v := arg(0).(type) {
		case *Slice:
			return env.load(v.Base)
		case *Ptr:
			return env.load(v)
		case *Term:
			return v
		}
	case "off":
		if v, ok := arg(0).(*Slice); ok {
			return v.Off
		}
		return ex.idxConst(0)
	}
	if gd, ok := ex.eng.ghosts[name]; ok && !gd.Var && gd.Rep != nil && ex.root.Pkg.Name == gd.HomePkg {
		// home package: the abstract field is its representation expression over the object
		sub := *env
		sub.names = map[string]Value{}
		for k, v := range env.names {
			sub.names[k] = v
		}
		self := arg(0)
		if _, isP := self.(*Ptr); !isP {
			if l := env.loc(c.Args[0]); l != nil {
				self = l
			}
		}
		sub.names["self"] = self
		sub.noLocals = true
		return sub.eval(gd.Rep)
	}
	if gd, ok := ex.eng.ghosts[name]; ok && !gd.Var {
		pv, ok := arg(0).(*Ptr)
		if !ok {
			// a variable of struct type denotes its own location
			if l := env.loc(c.Args[0]); l != nil {
				pv, ok = l, true
			}
		}
		if !ok || pv.Obj == nil {
			// ghost field of a nil object: arbitrary
			return Fresh("ghost."+name+"(nil)", gd.Sort)
		}
		key := fmt.Sprintf("%s(%s%s)", name, pv.Obj, pathKey(pv.Path))
		if v, ok := env.st.ghost[key]; ok {
			return v
		}
		if gd.Rep != nil && pv.Obj.fresh && !strings.HasPrefix(pv.Obj.name, "result") && env.st.gver[pv.Obj] == 0 {
			// an object allocated in the function under verification whose abstract state was never assigned through
			// a contract (new(T), a literal, a local variable): its ghost field is, by definition, the representation
			// expression over its current contents - also outside the home package (e.g. new(SM2Element) is canonical)
			sub := *env
			sub.names = map[string]Value{}
			for k, v := range env.names {
				sub.names[k] = v
			}
			sub.names["self"] = pv
			sub.noLocals = true
			return sub.eval(gd.Rep)
		}
		gv := Var(fmt.Sprintf("ghost.%s@v%d", key, env.st.gver[pv.Obj]), gd.Sort)
		if freshBorn[gv] == 0 {
			freshSerial++
			freshBorn[gv] = freshSerial
		}
		return gv
	}
	if m, ok := ex.eng.macros[name]; ok {
		if len(m.Params) != len(c.Args) {
			env.fail("macro %s expects %d arguments", name, len(m.Params))
		}
		if m.Opaque != nil && !env.revealing {
			var args []*Term
			for i := range c.Args {
				args = append(args, env.flatten(arg(i))...)
			}
			return UF(name, m.Opaque, args...)
		}
		sub := *env
		sub.revealing = false
		sub.names = map[string]Value{}
		for k, v := range env.names {
			sub.names[k] = v
		}
		for i, p := range m.Params {
			sub.names[p] = arg(i)
		}
		// hygiene: a macro body sees its parameters, the enclosing names (function parameters, bound variables), other
		// macros and package-level names - not the local variables of whatever function it is expanded in, unless the
		// macro itself mentions one that is no macro, parameter or global (kept for the older contracts that do)
		if macroIsClosed(ex, m) {
			sub.noLocals = true
			sub.names = map[string]Value{}
			for i, p := range m.Params {
				sub.names[p] = arg(i)
			}
			for _, k := range []string{"result", "result0", "result1", "result2", "self"} {
				if v, ok := env.names[k]; ok {
					sub.names[k] = v
				}
			}
		}
		return sub.eval(m.Body)
	}
	if d, ok := specDefs[name]; ok {
		var args []*Term
		for i := range c.Args {
			args = append(args, env.flatten(arg(i))...)
		}
		return UF(name, d.Result(ex.mode), args...)
	}
	if sig, ok := ufSigs[name]; ok {
		var args []*Term
		for i := range c.Args {
			args = append(args, env.flatten(arg(i))...)
		}
		t := UF(name, sig.res, args...)
		if sig.loE != nil && sig.res == IntSort {
			lo, ok1 := env.eval(sig.loE).(*UConst)
			hi, ok2 := env.eval(sig.hiE).(*UConst)
			if ok1 && ok2 {
				SetRange(t, lo.V.(*big.Int), hi.V.(*big.Int))
			}
		}
		return t
	}
	env.fail("unknown spec function %s", name)
	return nil
}

var macroClosed = map[*Macro]bool{}
var macroClosedKnown = map[*Macro]bool{}

// macroIsClosed: every free identifier of the macro body is a parameter, a bound variable, a macro, a ghost or a
// package-level name (constants such as P). Only then is the body evaluated without the local variables of the
// function it is expanded in; a macro that mentions some other name keeps the older, permissive lookup.
func macroIsClosed(ex *exec, m *Macro) bool {
	if macroClosedKnown[m] {
		return macroClosed[m]
	}
	closed := true
	bound := map[string]int{}
	for _, p := range m.Params {
		bound[p]++
	}
	var walk func(e ast.Expr)
	walk = func(e ast.Expr) {
		switch x := e.(type) {
		case *ast.Ident:
			switch x.Name {
			case "true", "false", "nil", "result", "result0", "result1", "result2", "self":
				return
			}
			if bound[x.Name] > 0 || ex.eng.macros[x.Name] != nil {
				return
			}
			if _, g := ex.eng.ghosts[x.Name]; g {
				return
			}
			if ex.root != nil && ex.root.Pkg.Types.Scope().Lookup(x.Name) != nil {
				return
			}
			closed = false
		case *ast.BinaryExpr:
			walk(x.X)
			walk(x.Y)
		case *ast.UnaryExpr:
			walk(x.X)
		case *ast.ParenExpr:
			walk(x.X)
		case *ast.StarExpr:
			walk(x.X)
		case *ast.SelectorExpr:
			walk(x.X)
		case *ast.IndexExpr:
			walk(x.X)
			walk(x.Index)
		case *ast.SliceExpr:
			walk(x.X)
			if x.Low != nil {
				walk(x.Low)
			}
			if x.High != nil {
				walk(x.High)
			}
		case *ast.CallExpr:
			args := x.Args
			if id, ok := x.Fun.(*ast.Ident); ok && len(args) > 0 {
				switch id.Name {
				case "forall", "exists", "forallInt", "existsInt":
					if b, ok := args[0].(*ast.Ident); ok {
						bound[b.Name]++
						for _, a := range args[1:] {
							walk(a)
						}
						bound[b.Name]--
						return
					}
				}
			}
			for _, a := range args {
				walk(a)
			}
		}
	}
	walk(m.Body)
	macroClosedKnown[m] = true
	macroClosed[m] = closed
	return closed
}

func (env *specEnv) toTerm(v Value, w int) *Term {
	switch x := v.(type) {
	case *Term:
		return x
	case *UConst:
		return BVC(w, x.V.(*big.Int))
	}
	env.fail("expected term, got %T", v)
	return nil
}

// flatten turns a spec argument into SMT terms: slices become (array, offset).
func (env *specEnv) flatten(v Value) []*Term {
	switch x := v.(type) {
	case *Term:
		return []*Term{x}
	case *UConst:
		if b, ok := x.V.(bool); ok {
			return []*Term{BoolC(b)}
		}
		if env.ex.mode == ModeInt {
			return []*Term{IntC(x.V.(*big.Int))}
		}
		return []*Term{BVC(64, x.V.(*big.Int))}
	case *Slice:
		a, ok := env.load(x.Base).(*Term)
		if !ok {
			env.fail("slice of non-scalars passed to spec function")
		}
		if x.Base.Obj != nil && strings.HasPrefix(x.Base.Obj.name, "logical.") && x.Off.IsConst() && x.Off.Val.Sign() == 0 {
			return []*Term{a} // a logical byte stream is passed as its array
		}
		return []*Term{a, x.Off}
	case *Ptr:
		a, ok := env.load(x).(*Term)
		if !ok {
			env.fail("pointer to non-scalar passed to spec function")
		}
		return []*Term{a}
	}
	env.fail("cannot pass %T to a spec function", v)
	return nil
}

var bcount int

func boundCounter() int { bcount++; return bcount }

type ufSig struct {
	res      *Sort
	lo, hi   *big.Int
	loE, hiE ast.Expr
}

type GlobalFact struct {
	Clause Clause
	File   string
	Pkg    string
}

var pkgRe = regexp.MustCompile(`(?m)^package (\w+)`)

func pkgOfFile(src string) string {
	if m := pkgRe.FindStringSubmatch(src); m != nil {
		return m[1]
	}
	return ""
}

var ufSigs = map[string]ufSig{}

func (d *SpecDef) Result(m Mode) *Sort { return specResult[d.Name] }

var specResult = map[string]*Sort{}

// LoadSpecLibrary reads *.smt2 files: each definition is preceded by a header line
//   ; spec <name> : <result sort> [deps a,b]
func LoadSpecLibrary(dir string) error {
	files, _ := filepath.Glob(filepath.Join(dir, "*.smt2"))
	sort.Strings(files)
	for _, f := range files {
		data, err := os.ReadFile(f)
		if err != nil {
			return err
		}
		var cur *SpecDef
		for _, line := range strings.Split(string(data), "\n") {
			if strings.HasPrefix(line, "; spec ") {
				h := strings.Fields(line[7:])
				cur = &SpecDef{Name: h[0]}
				rs := h[2]
				switch {
				case rs == "Bool":
					specResult[cur.Name] = BoolSort
				case rs == "Int":
					specResult[cur.Name] = IntSort
				case strings.HasPrefix(rs, "BV"):
					w, _ := strconv.Atoi(rs[2:])
					specResult[cur.Name] = BVSort(w)
				default:
					return fmt.Errorf("%s: bad result sort %s", f, rs)
				}
				for i, x := range h {
					if x == "deps" && i+1 < len(h) {
						cur.Deps = strings.Split(h[i+1], ",")
					}
				}
				specDefs[cur.Name] = cur
				continue
			}
			if strings.HasPrefix(line, ";") || cur == nil {
				continue
			}
			cur.Text += line + "\n"
		}
	}
	return nil
}

func pathKey(p []Sel) string {
	var sb strings.Builder
	for _, s := range p {
		if s.Field >= 0 {
			fmt.Fprintf(&sb, ".%d", s.Field)
		} else {
			fmt.Fprintf(&sb, "[%s]", s.Idx)
		}
	}
	return sb.String()
}

// beValue: big-endian integer value of a byte slice / byte array.  Constant lengths
// up to 64 give the explicit polynomial (int mode) or concatenation (bv mode);
// otherwise the uninterpreted function be(array, offset, length).
func (env *specEnv) beValue(v Value) Value {
	ex := env.ex
	var sl *Slice
	switch x := v.(type) {
	case *Slice:
		sl = x
	case *Ptr:
		at, ok := ex.typeAt(x.Obj.T, x.Path).Underlying().(*types.Array)
		if !ok {
			env.fail("be of pointer to non-array")
		}
		sl = &Slice{Base: x, Off: ex.idxConst(0), Len: ex.idxConst(at.Len()), Cap: ex.idxConst(at.Len()), Nil: False}
	default:
		env.fail("be of %T", v)
	}
	if sl.Len.IsConst() && sl.Len.Val.Int64() <= 64 {
		n := sl.Len.Val.Int64()
		if n == 0 {
			if ex.mode == ModeInt {
				return IntC64(0)
			}
			env.fail("be of empty slice in bv mode")
		}
		var acc *Term
		for i := int64(0); i < n; i++ {
			b := env.load(sl.Base.with(Sel{Field: -1, Idx: ex.add(sl.Off, ex.idxConst(i))})).(*Term)
			if ex.mode == ModeInt {
				if acc == nil {
					acc = b
				} else {
					acc = IntAdd(IntScale(acc, big.NewInt(256)), b)
				}
			} else {
				if acc == nil {
					acc = b
				} else {
					acc = Concat(acc, b)
				}
			}
		}
		if ex.mode == ModeInt && !env.beExpand {
			// keep the value as one atom be(array, offset, n) and give its definition as a fact:
			// products with other unknowns then stay single monomials
			if arr, ok := env.load(sl.Base).(*Term); ok && arr.Sort.K == KArr {
				t := UF("be", IntSort, arr, sl.Off, sl.Len)
				SetRange(t, big.NewInt(0), new(big.Int).Sub(two(uint(8*n)), big.NewInt(1)))
				env.st.assume(Eq(t, acc))
				return t
			}
		}
		return acc
	}
	if ex.mode != ModeInt {
		env.fail("be of symbolic-length slice in bv mode")
	}
	if sl.Base.Obj == nil {
		return IntC64(0)
	}
	arr, ok := env.load(sl.Base).(*Term)
	if !ok {
		env.fail("be of non-scalar array")
	}
	t := UF("be", IntSort, arr, sl.Off, sl.Len)
	env.st.assume(IntLe(IntC64(0), t))
	env.st.assume(Implies(Eq(sl.Len, IntC64(0)), Eq(t, IntC64(0))))
	// size bound (pow256 is exact up to 70 bytes)
	env.st.assume(Implies(IntLe(sl.Len, IntC64(70)), IntLt(t, UF("pow256", IntSort, sl.Len))))
	// definition of be at the length the library uses everywhere (32 bytes)
	var acc *Term
	for i := int64(0); i < 32; i++ {
		b := Select(arr, IntAdd(sl.Off, IntC64(i)))
		if acc == nil {
			acc = b
		} else {
			acc = IntAdd(IntScale(acc, big.NewInt(256)), b)
		}
	}
	env.st.assume(Implies(Eq(sl.Len, IntC64(32)), Eq(t, acc)))
	// one-step unfolding of the definition: be(s[0:n]) = 256*be(s[0:n-1]) + s[n-1]
	if !env.noUnfold {
		sub := *env
		sub.noUnfold = true
		prev := UF("be", IntSort, arr, sl.Off, IntSub(sl.Len, IntC64(1)))
		last := Select(arr, IntAdd(sl.Off, IntSub(sl.Len, IntC64(1))))
		env.st.assume(Implies(IntLt(IntC64(0), sl.Len), And(Eq(t, IntAdd(IntScale(prev, big.NewInt(256)), last)), IntLe(IntC64(0), prev))))
	}
	return t
}
