package main

// Ring-mode contracts: straight-line field-element code against closed-form polynomials.
//
// A `<function>#ring` entry in the guarded contract files states, for a function whose body is a sequence of
// calls to field-element methods (Mul, Add, Sub, Square, Opp, Set, Select, One ...):
//   ring_mod P                       the modulus; all values are residues mod P
//   ring_in p1.x = X1, p1.y = Y1     names the residues held by the operands on entry
//   ring_const sm2B = B              a package-level element read by the body, as a symbol
//   ring_cond cond                   an int parameter that is 0 or 1 (both cases are run)
//   ring_out q.x == <polynomial>     the residue each output holds on return, as a polynomial in the input symbols
//   ring_alias q=p1 | q=p2 | ...     the aliasing patterns of the pointer parameters to run (besides all-distinct)
// The meaning of each method call is taken from the callee's own verified contract (its `ensures val: fv(e) == ...`
// clause), evaluated in Z[X...]/(P): `% P` is the identity of the quotient ring. The obligation ring:<out>@<alias
// pattern> is discharged when the difference of the two polynomials has all coefficients divisible by P - a
// complete decision procedure for polynomial identities over Z/P in the given symbols (normal form), no solver.

import (
	"fmt"
	"sort"
	"go/ast"
	"go/token"
	"go/types"
	"math/big"
	"strings"
)

type ringSpec struct {
	Mod    *big.Int
	In     map[string]string // access path -> symbol
	Consts map[string]string // global name -> symbol
	Conds  []string
	Outs   []ringOut
	Alias  [][][2]string // each pattern: list of (a,b) pairs that are the same pointer
	Rewrites []ringRewrite // lhs monomial = rhs polynomial: relations that hold for valid inputs (e.g. the curve equation)
}

type ringRewrite struct {
	L, R ast.Expr
	Src  string
}

type ringOut struct {
	Path string
	Expr ast.Expr
	Src  string
	When string // "", or "cond==0"/"cond==1"
}

type ringObl struct {
	Name string
	OK   bool
	Msg  string
	Pos  string
}

func parseRingSpec(ct *Contract) (*ringSpec, error) {
	rs := &ringSpec{In: map[string]string{}, Consts: map[string]string{}}
	for _, raw := range ct.Raw {
		kw, rest := raw, ""
		if i := strings.IndexAny(raw, " \t"); i >= 0 {
			kw, rest = raw[:i], strings.TrimSpace(raw[i+1:])
		}
		switch kw {
		case "ring_mod":
			v, ok := new(big.Int).SetString(strings.TrimPrefix(rest, "0x"), 16)
			if !ok {
				return nil, fmt.Errorf("ring_mod: bad number %s", rest)
			}
			rs.Mod = v
		case "ring_in", "ring_const":
			for _, part := range strings.Split(rest, ",") {
				kv := strings.SplitN(part, "=", 2)
				if len(kv) != 2 {
					return nil, fmt.Errorf("%s: expected path = SYMBOL in %q", kw, part)
				}
				if kw == "ring_in" {
					rs.In[strings.TrimSpace(kv[0])] = strings.TrimSpace(kv[1])
				} else {
					rs.Consts[strings.TrimSpace(kv[0])] = strings.TrimSpace(kv[1])
				}
			}
		case "ring_cond":
			rs.Conds = append(rs.Conds, strings.Fields(rest)...)
		case "ring_relation":
			kv := strings.SplitN(rest, "=", 2)
			if len(kv) != 2 {
				return nil, fmt.Errorf("ring_relation: expected monomial = polynomial")
			}
			l, err1 := parseSpecExpr(strings.TrimSpace(kv[0]))
			r, err2 := parseSpecExpr(strings.TrimSpace(kv[1]))
			if err1 != nil || err2 != nil {
				return nil, fmt.Errorf("ring_relation: cannot parse %q", rest)
			}
			rs.Rewrites = append(rs.Rewrites, ringRewrite{L: l, R: r, Src: rest})
		case "ring_out":
			when := ""
			if strings.HasPrefix(rest, "[") {
				j := strings.Index(rest, "]")
				when = strings.ReplaceAll(rest[1:j], " ", "")
				rest = strings.TrimSpace(rest[j+1:])
			}
			i := strings.Index(rest, "==")
			if i < 0 {
				return nil, fmt.Errorf("ring_out: expected path == polynomial")
			}
			e, err := parseSpecExpr(strings.TrimSpace(rest[i+2:]))
			if err != nil {
				return nil, fmt.Errorf("ring_out: %v", err)
			}
			rs.Outs = append(rs.Outs, ringOut{Path: strings.TrimSpace(rest[:i]), Expr: e, Src: strings.TrimSpace(rest[i+2:]), When: when})
		case "ring_alias":
			for _, pat := range strings.Split(rest, "|") {
				var pairs [][2]string
				for _, eq := range strings.Split(pat, ",") {
					kv := strings.SplitN(eq, "=", 2)
					if len(kv) == 2 {
						pairs = append(pairs, [2]string{strings.TrimSpace(kv[0]), strings.TrimSpace(kv[1])})
					}
				}
				if len(pairs) > 0 {
					rs.Alias = append(rs.Alias, pairs)
				}
			}
		}
	}
	if rs.Mod == nil {
		return nil, fmt.Errorf("ring_mod missing")
	}
	if len(rs.Outs) == 0 {
		return nil, fmt.Errorf("no ring_out clause")
	}
	return rs, nil
}

// ---------- polynomials mod P ----------

type ringCtx struct {
	mod  *big.Int
	syms map[string]*Term
}

func (rc *ringCtx) sym(name string) *Poly {
	t := rc.syms[name]
	if t == nil {
		t = Var("ring$"+name, IntSort)
		rc.syms[name] = t
	}
	return polyOf(t)
}

func (rc *ringCtx) red(p *Poly) *Poly {
	var ms []mono
	for _, m := range p.ms {
		c := new(big.Int).Mod(m.coef, rc.mod)
		if c.Sign() != 0 {
			ms = append(ms, mono{m.atoms, c})
		}
	}
	return mkPoly(ms)
}

func (rc *ringCtx) isZero(p *Poly) bool { return len(rc.red(p).ms) == 0 }

func polyString(p *Poly, mod *big.Int) string {
	if len(p.ms) == 0 {
		return "0"
	}
	var parts []string
	half := new(big.Int).Rsh(mod, 1)
	for i, m := range p.ms {
		if i >= 6 {
			parts = append(parts, fmt.Sprintf("... (%d terms)", len(p.ms)))
			break
		}
		c := new(big.Int).Set(m.coef)
		if c.Cmp(half) > 0 {
			c.Sub(c, mod)
		}
		s := c.String()
		for _, a := range m.atoms {
			s += "*" + strings.TrimPrefix(a.Name, "ring$")
		}
		parts = append(parts, s)
	}
	return strings.Join(parts, " + ")
}

// ---------- evaluator ----------

type ringElem struct{ val *Poly } // a field-element object

type ringPoint struct{ fields map[string]*ringElem } // an object with element-pointer fields

type ringExec struct {
	eng    *Engine
	fi     *FuncInfo
	info   *types.Info
	rc     *ringCtx
	spec   *ringSpec
	vars   map[types.Object]interface{} // *ringElem | *ringPoint | *big.Int (cond)
	global map[string]*ringElem
	err    error
}

func (rx *ringExec) fail(pos token.Pos, format string, a ...interface{}) {
	if rx.err == nil {
		p := rx.fi.Pkg.Fset.Position(pos)
		rx.err = fmt.Errorf("%s:%d: %s", p.Filename[strings.LastIndex(p.Filename, "/")+1:], p.Line, fmt.Sprintf(format, a...))
	}
}

// elemOf evaluates an expression that denotes a pointer to a field element.
func (rx *ringExec) elemOf(e ast.Expr) *ringElem {
	switch x := unparen(e).(type) {
	case *ast.Ident:
		o := rx.info.Uses[x]
		if o == nil {
			o = rx.info.Defs[x]
		}
		if v, ok := rx.vars[o].(*ringElem); ok {
			return v
		}
		if sym, ok := rx.spec.Consts[x.Name]; ok {
			g := rx.global[x.Name]
			if g == nil {
				g = &ringElem{val: rx.rc.sym(sym)}
				rx.global[x.Name] = g
			}
			return g
		}
		rx.fail(e.Pos(), "identifier %s does not denote a field element known to the ring evaluator", x.Name)
	case *ast.SelectorExpr:
		if id, ok := unparen(x.X).(*ast.Ident); ok {
			o := rx.info.Uses[id]
			if pt, ok := rx.vars[o].(*ringPoint); ok {
				if el := pt.fields[x.Sel.Name]; el != nil {
					return el
				}
			}
		}
		rx.fail(e.Pos(), "selector %s not modelled", exprString(e))
	case *ast.CallExpr:
		return rx.call(x)
	default:
		rx.fail(e.Pos(), "expression %T not modelled in ring mode", e)
	}
	return &ringElem{val: polyConst(big.NewInt(0))}
}

// call evaluates recv.Method(args...) on field elements through the callee's contract.
func (rx *ringExec) call(c *ast.CallExpr) *ringElem {
	// new(T)
	if id, ok := unparen(c.Fun).(*ast.Ident); ok && id.Name == "new" {
		return &ringElem{val: polyConst(big.NewInt(0))}
	}
	sel, ok := unparen(c.Fun).(*ast.SelectorExpr)
	if !ok {
		rx.fail(c.Pos(), "call %s not modelled in ring mode", exprString(c.Fun))
		return &ringElem{val: polyConst(big.NewInt(0))}
	}
	s := rx.info.Selections[sel]
	if s == nil {
		rx.fail(c.Pos(), "call %s not modelled in ring mode", exprString(c.Fun))
		return &ringElem{val: polyConst(big.NewInt(0))}
	}
	fn := s.Obj().(*types.Func)
	key := funcKey(fn)
	ct := rx.eng.contracts[key]
	cfi := rx.eng.funcs[key]
	if ct == nil || cfi == nil {
		rx.fail(c.Pos(), "no contract for %s", key)
		return &ringElem{val: polyConst(big.NewInt(0))}
	}
	recv := rx.elemOf(sel.X)
	names := paramNames(cfi)
	env := map[string]interface{}{names[0]: recv}
	for i, a := range c.Args {
		if i+1 >= len(names) {
			break
		}
		if t := rx.info.TypeOf(a); t != nil && scalarish(t) {
			// int condition
			if id, ok := unparen(a).(*ast.Ident); ok {
				if v, ok := rx.vars[rx.info.Uses[id]].(*big.Int); ok {
					env[names[i+1]] = v
					continue
				}
			}
			if tv, ok := rx.info.Types[a]; ok && tv.Value != nil {
				v, _ := new(big.Int).SetString(tv.Value.ExactString(), 10)
				env[names[i+1]] = v
				continue
			}
			rx.fail(a.Pos(), "integer argument %s is not a ring_cond parameter or constant", exprString(a))
			continue
		}
		env[names[i+1]] = rx.elemOf(a)
	}
	// find `ensures val: fv(<recv>) == <expr>`
	var rhs ast.Expr
	for _, cl := range ct.Ensures {
		be, ok := cl.Expr.(*ast.BinaryExpr)
		if !ok || be.Op != token.EQL {
			continue
		}
		if call, ok := be.X.(*ast.CallExpr); ok {
			if id, ok := call.Fun.(*ast.Ident); ok && id.Name == "fv" && len(call.Args) == 1 {
				if a, ok := call.Args[0].(*ast.Ident); ok && a.Name == names[0] {
					rhs = be.Y
				}
			}
		}
	}
	if rhs == nil {
		rx.fail(c.Pos(), "contract of %s has no `fv(%s) == ...` clause", key, names[0])
		return recv
	}
	// values before the call (old)
	old := map[string]*Poly{}
	for n, v := range env {
		if el, ok := v.(*ringElem); ok {
			old[n] = el.val
		}
	}
	val := rx.evalSpec(rhs, old, env, c.Pos())
	recv.val = rx.rc.red(val)
	return recv
}

// evalSpec evaluates a contract expression over fv() of the parameters in the quotient ring.
func (rx *ringExec) evalSpec(e ast.Expr, old map[string]*Poly, env map[string]interface{}, pos token.Pos) *Poly {
	switch x := e.(type) {
	case *ast.ParenExpr:
		return rx.evalSpec(x.X, old, env, pos)
	case *ast.BasicLit:
		v, ok := new(big.Int).SetString(x.Value, 0)
		if !ok {
			rx.fail(pos, "bad literal %s", x.Value)
			return polyConst(big.NewInt(0))
		}
		return polyConst(v)
	case *ast.Ident:
		if x.Name == "P" || x.Name == "N" {
			return polyConst(rx.rc.mod)
		}
		if v, ok := env[x.Name].(*big.Int); ok {
			return polyConst(v)
		}
		rx.fail(pos, "identifier %s in a contract clause is not a ring value", x.Name)
	case *ast.UnaryExpr:
		if x.Op == token.SUB {
			return polyScale(rx.evalSpec(x.X, old, env, pos), big.NewInt(-1))
		}
	case *ast.BinaryExpr:
		switch x.Op {
		case token.ADD:
			return polyAdd(rx.evalSpec(x.X, old, env, pos), rx.evalSpec(x.Y, old, env, pos))
		case token.SUB:
			return polySub(rx.evalSpec(x.X, old, env, pos), rx.evalSpec(x.Y, old, env, pos))
		case token.MUL:
			return rx.rc.red(polyMul(rx.evalSpec(x.X, old, env, pos), rx.evalSpec(x.Y, old, env, pos)))
		case token.REM:
			// (a % P): the identity of Z[X]/(P); any other modulus is outside ring mode
			if m := rx.evalSpec(x.Y, old, env, pos); m != nil {
				if c, ok := m.constant(); ok && c.Cmp(rx.rc.mod) == 0 {
					return rx.evalSpec(x.X, old, env, pos)
				}
			}
			rx.fail(pos, "remainder by something other than the ring modulus")
		}
	case *ast.CallExpr:
		if id, ok := x.Fun.(*ast.Ident); ok {
			switch id.Name {
			case "old":
				return rx.evalSpec(x.Args[0], old, env, pos)
			case "fv", "sv":
				if a, ok := x.Args[0].(*ast.Ident); ok {
					if p, ok := old[a.Name]; ok {
						return p
					}
				}
				rx.fail(pos, "fv() of something that is not a parameter")
			case "ite":
				// ite(cond == c, a, b) with a concrete condition
				if be, ok := x.Args[0].(*ast.BinaryExpr); ok && be.Op == token.EQL {
					l := rx.evalSpec(be.X, old, env, pos)
					r := rx.evalSpec(be.Y, old, env, pos)
					lc, ok1 := l.constant()
					rcv, ok2 := r.constant()
					if ok1 && ok2 {
						if lc.Cmp(rcv) == 0 {
							return rx.evalSpec(x.Args[1], old, env, pos)
						}
						return rx.evalSpec(x.Args[2], old, env, pos)
					}
				}
				rx.fail(pos, "ite with a condition that is not concrete in ring mode")
			}
		}
	}
	rx.fail(pos, "contract expression %s not understood in ring mode", exprString(e))
	return polyConst(big.NewInt(0))
}

// evalOut evaluates a ring_out polynomial over the input symbols.
func (rx *ringExec) evalOut(e ast.Expr) *Poly {
	switch x := e.(type) {
	case *ast.ParenExpr:
		return rx.evalOut(x.X)
	case *ast.BasicLit:
		v, _ := new(big.Int).SetString(x.Value, 0)
		return polyConst(v)
	case *ast.Ident:
		return rx.rc.sym(x.Name)
	case *ast.UnaryExpr:
		if x.Op == token.SUB {
			return polyScale(rx.evalOut(x.X), big.NewInt(-1))
		}
	case *ast.BinaryExpr:
		a, b := rx.evalOut(x.X), rx.evalOut(x.Y)
		switch x.Op {
		case token.ADD:
			return polyAdd(a, b)
		case token.SUB:
			return polySub(a, b)
		case token.MUL:
			return rx.rc.red(polyMul(a, b))
		}
	}
	rx.fail(e.Pos(), "ring_out expression not understood: %s", exprString(e))
	return polyConst(big.NewInt(0))
}

func (rx *ringExec) stmt(s ast.Stmt) {
	switch x := s.(type) {
	case *ast.ExprStmt:
		if c, ok := x.X.(*ast.CallExpr); ok {
			rx.call(c)
			return
		}
		rx.fail(s.Pos(), "statement not modelled in ring mode")
	case *ast.AssignStmt:
		if len(x.Lhs) != 1 || len(x.Rhs) != 1 {
			rx.fail(s.Pos(), "multi-assignment not modelled in ring mode")
			return
		}
		if sel, ok := x.Lhs[0].(*ast.SelectorExpr); ok {
			// q.x = <element pointer>: the field now refers to that element object (sharing is checked at the end)
			if pid, ok := unparen(sel.X).(*ast.Ident); ok {
				if pt, ok := rx.vars[rx.info.Uses[pid]].(*ringPoint); ok {
					pt.fields[sel.Sel.Name] = rx.elemOf(x.Rhs[0])
					return
				}
			}
		}
		id, ok := x.Lhs[0].(*ast.Ident)
		if !ok {
			rx.fail(s.Pos(), "assignment target not modelled in ring mode")
			return
		}
		el := rx.elemOf(x.Rhs[0])
		o := rx.info.Defs[id]
		if o == nil {
			o = rx.info.Uses[id]
		}
		rx.vars[o] = el
	case *ast.ReturnStmt:
	case *ast.IfStmt:
		// a verdict: `if a.Equal(b) != 1 { return err }` - the comparison itself is not ring arithmetic; the body may only return
		for _, st := range x.Body.List {
			if _, ok := st.(*ast.ReturnStmt); !ok {
				rx.fail(s.Pos(), "if statement with effects is not straight-line")
			}
		}
		if x.Else != nil || x.Init != nil {
			rx.fail(s.Pos(), "if statement with else/init is not straight-line")
		}
	case *ast.BlockStmt:
		for _, st := range x.List {
			rx.stmt(st)
		}
	default:
		rx.fail(s.Pos(), "statement %T not modelled in ring mode (only straight-line element arithmetic)", s)
	}
}

// VerifyRing checks the #ring contract of a function; returns one obligation per output, alias pattern and condition value.
func (eng *Engine) VerifyRing(key string) ([]ringObl, error) {
	fi := eng.funcs[key]
	ct := eng.contracts[key+"#ring"]
	if fi == nil || fi.Decl.Body == nil {
		return nil, fmt.Errorf("no function %s", key)
	}
	if ct == nil {
		return nil, fmt.Errorf("no #ring contract for %s", key)
	}
	spec, err := parseRingSpec(ct)
	if err != nil {
		return nil, fmt.Errorf("%s#ring: %v", key, err)
	}
	patterns := append([][][2]string{nil}, spec.Alias...)
	condVals := [][]int64{nil}
	for range spec.Conds {
		var next [][]int64
		for _, cv := range condVals {
			next = append(next, append(append([]int64{}, cv...), 0), append(append([]int64{}, cv...), 1))
		}
		condVals = next
	}
	var out []ringObl
	objs := paramObjs(fi)
	names := paramNames(fi)
	pos := fi.Pkg.Fset.Position(fi.Decl.Pos())
	for _, pat := range patterns {
		for _, cv := range condVals {
			rx := &ringExec{eng: eng, fi: fi, info: fi.Pkg.TypesInfo, rc: &ringCtx{mod: spec.Mod, syms: map[string]*Term{}}, spec: spec,
				vars: map[types.Object]interface{}{}, global: map[string]*ringElem{}}
			// parameters: points (with element fields named in ring_in) or elements or conditions
			canon := map[string]string{}
			for _, n := range names {
				canon[n] = n
			}
			for _, pr := range pat {
				// b takes the identity of a
				canon[pr[0]] = canon[pr[1]]
			}
			points := map[string]*ringPoint{}
			elems := map[string]*ringElem{}
			condIdx := 0
			label := "distinct"
			if len(pat) > 0 {
				var ps []string
				for _, pr := range pat {
					ps = append(ps, pr[0]+"="+pr[1])
				}
				label = strings.Join(ps, ",")
			}
			for i, n := range names {
				if objs[i] == nil {
					continue
				}
				isCond := false
				for _, c := range spec.Conds {
					if c == n {
						isCond = true
					}
				}
				if isCond {
					rx.vars[objs[i]] = big.NewInt(cv[condIdx])
					label += fmt.Sprintf(",%s=%d", n, cv[condIdx])
					condIdx++
					continue
				}
				cn := canon[n]
				hasFields := false
				for path := range spec.In {
					if strings.HasPrefix(path, n+".") {
						hasFields = true
					}
				}
				if hasFields || pointHasOut(spec, n) {
					pt := points[cn]
					if pt == nil {
						pt = &ringPoint{fields: map[string]*ringElem{}}
						points[cn] = pt
					}
					rx.vars[objs[i]] = pt
				} else if _, ok := spec.In[n]; ok || elemHasOut(spec, n) {
					el := elems[cn]
					if el == nil {
						el = &ringElem{val: polyConst(big.NewInt(0))}
						elems[cn] = el
					}
					rx.vars[objs[i]] = el
				}
			}
			// initial values: the canonical (aliased-to) parameter's symbols win
			setIn := func(path, sym string) {
				parts := strings.SplitN(path, ".", 2)
				cn := canon[parts[0]]
				if len(parts) == 2 {
					pt := points[cn]
					if pt == nil {
						return
					}
					if pt.fields[parts[1]] == nil {
						pt.fields[parts[1]] = &ringElem{val: rx.rc.sym(sym)}
					} else if canon[parts[0]] == parts[0] {
						pt.fields[parts[1]].val = rx.rc.sym(sym)
					}
				} else if el := elems[cn]; el != nil && canon[parts[0]] == parts[0] {
					el.val = rx.rc.sym(sym)
				}
			}
			// two passes so that canonical parameters define the symbols
			for path, sym := range spec.In {
				if canon[strings.SplitN(path, ".", 2)[0]] == strings.SplitN(path, ".", 2)[0] {
					setIn(path, sym)
				}
			}
			for path, sym := range spec.In {
				setIn(path, sym)
			}
			// outputs of points without inputs (pure receivers) need their fields
			for _, o := range spec.Outs {
				parts := strings.SplitN(o.Path, ".", 2)
				if len(parts) == 2 {
					if pt := points[canon[parts[0]]]; pt != nil && pt.fields[parts[1]] == nil {
						pt.fields[parts[1]] = &ringElem{val: rx.rc.sym("old$" + o.Path)}
					}
				}
			}
			// symbol substitution for aliased inputs: the spec polynomials are over the canonical parameter's symbols
			symSubst := map[string]string{}
			for path, sym := range spec.In {
				parts := strings.SplitN(path, ".", 2)
				if canon[parts[0]] != parts[0] {
					cpath := canon[parts[0]]
					if len(parts) == 2 {
						cpath += "." + parts[1]
					}
					if cs, ok := spec.In[cpath]; ok {
						symSubst[sym] = cs
					}
				}
			}
			rx.block(fi.Decl.Body)
			// separation: distinct points must not share field-element objects after the operation
			if len(points) > 1 && rx.err == nil {
				shared := ""
				var pn []string
				for n := range points {
					pn = append(pn, n)
				}
				sort.Strings(pn)
				for i := 0; i < len(pn); i++ {
					for j := i + 1; j < len(pn); j++ {
						for fa, ea := range points[pn[i]].fields {
							for fb, eb := range points[pn[j]].fields {
								if ea == eb && shared == "" {
									shared = fmt.Sprintf("%s.%s and %s.%s are the same field-element object after the call: a later change of one changes the other", pn[i], fa, pn[j], fb)
								}
							}
						}
					}
				}
				out = append(out, ringObl{Name: fmt.Sprintf("%s/ring:separate@%s", key, label), OK: shared == "", Msg: shared,
					Pos: fmt.Sprintf("%s:%d", pos.Filename[strings.LastIndex(pos.Filename, "/")+1:], pos.Line)})
			}
			for _, o := range spec.Outs {
				if o.When != "" && !strings.Contains(","+label+",", ","+o.When+",") && !strings.Contains(","+label+",", ","+strings.Replace(o.When, "==", "=", 1)+",") {
					continue
				}
				name := fmt.Sprintf("%s/ring:%s@%s", key, o.Path, label)
				ob := ringObl{Name: name, Pos: fmt.Sprintf("%s:%d", pos.Filename[strings.LastIndex(pos.Filename, "/")+1:], pos.Line)}
				if rx.err != nil {
					ob.Msg = "not in the straight-line subset: " + rx.err.Error()
					out = append(out, ob)
					continue
				}
				parts := strings.SplitN(o.Path, ".", 2)
				var got *Poly
				if len(parts) == 2 {
					if pt := points[canon[parts[0]]]; pt != nil && pt.fields[parts[1]] != nil {
						got = pt.fields[parts[1]].val
					}
				} else if el := elems[canon[parts[0]]]; el != nil {
					got = el.val
				}
				if got == nil && len(parts) == 1 {
					// a local variable of the body, at the end of the body
					for obj, v := range rx.vars {
						if el, ok := v.(*ringElem); ok && obj != nil && obj.Name() == parts[0] {
							got = el.val
						}
					}
				}
				if got == nil {
					ob.Msg = "output " + o.Path + " is not an element of a parameter"
					out = append(out, ob)
					continue
				}
				want := rx.evalOutSubst(o.Expr, symSubst)
				if rx.err != nil {
					ob.Msg = rx.err.Error()
					out = append(out, ob)
					continue
				}
				diff := rx.rc.red(polySub(got, want))
				for _, rw := range spec.Rewrites {
					diff = rx.reduceBy(diff, rx.evalOutSubst(rw.L, symSubst), rx.evalOutSubst(rw.R, symSubst))
				}
				if len(diff.ms) == 0 {
					ob.OK = true
				} else {
					ob.Msg = fmt.Sprintf("computed - specified = %s (mod P), not the zero polynomial", polyString(diff, spec.Mod))
				}
				out = append(out, ob)
			}
		}
	}
	return out, nil
}

func (rx *ringExec) block(b *ast.BlockStmt) {
	for _, s := range b.List {
		rx.stmt(s)
	}
}

func (rx *ringExec) evalOutSubst(e ast.Expr, subst map[string]string) *Poly {
	if len(subst) == 0 {
		return rx.evalOut(e)
	}
	// rename identifiers
	var ren func(e ast.Expr) ast.Expr
	ren = func(e ast.Expr) ast.Expr {
		switch x := e.(type) {
		case *ast.Ident:
			if s, ok := subst[x.Name]; ok {
				return &ast.Ident{Name: s, NamePos: x.NamePos}
			}
			return x
		case *ast.ParenExpr:
			return &ast.ParenExpr{X: ren(x.X)}
		case *ast.UnaryExpr:
			return &ast.UnaryExpr{Op: x.Op, X: ren(x.X)}
		case *ast.BinaryExpr:
			return &ast.BinaryExpr{X: ren(x.X), Op: x.Op, Y: ren(x.Y)}
		}
		return e
	}
	return rx.evalOut(ren(e))
}

func pointHasOut(spec *ringSpec, n string) bool {
	for _, o := range spec.Outs {
		if strings.HasPrefix(o.Path, n+".") {
			return true
		}
	}
	return false
}

func elemHasOut(spec *ringSpec, n string) bool {
	for _, o := range spec.Outs {
		if o.Path == n {
			return true
		}
	}
	return false
}

// reduceBy rewrites every monomial divisible by the monomial l into (cofactor * r), until none is left:
// the result is congruent to p modulo the ideal generated by (l - r).
func (rx *ringExec) reduceBy(p, l, r *Poly) *Poly {
	if len(l.ms) != 1 || l.ms[0].coef.Cmp(big.NewInt(1)) != 0 {
		rx.fail(token.NoPos, "ring_relation: left side must be a monomial with coefficient 1")
		return p
	}
	lm := l.ms[0].atoms
	for iter := 0; iter < 64; iter++ {
		changed := false
		var acc []mono
		for _, m := range p.ms {
			rest, ok := monoDivide(m.atoms, lm)
			if !ok {
				acc = append(acc, m)
				continue
			}
			changed = true
			cof := mkPoly([]mono{{rest, m.coef}})
			acc = append(acc, polyMul(cof, r).ms...)
		}
		p = rx.rc.red(mkPoly(acc))
		if !changed {
			break
		}
	}
	return p
}

// monoDivide removes the atoms of d (with multiplicity) from m.
func monoDivide(m, d []*Term) ([]*Term, bool) {
	rest := append([]*Term{}, m...)
	for _, a := range d {
		found := false
		for i, b := range rest {
			if a == b {
				rest = append(rest[:i], rest[i+1:]...)
				found = true
				break
			}
		}
		if !found {
			return nil, false
		}
	}
	return rest, true
}

// ---------- exponent mode: straight-line square-and-multiply chains ----------
//
// A `<function>#exp` entry states that a function built only from calls mul(dst, a, b) and square(dst, a) (and
// constant-bound loops of them) raises its input to a fixed exponent:
//   exp_ops mul=sm2Mul square=sm2Square
//   exp_in x
//   exp_out z == 0x...            the exponent of x held by z on return (z and x distinct objects)
// Every value is x^e for a natural number e; mul adds exponents, square doubles them. The obligation exp:<out>
// compares the exponent computed by executing the body with the stated constant (exact big-integer arithmetic).

func (eng *Engine) VerifyExp(key string) ([]ringObl, error) {
	fi := eng.funcs[key]
	ct := eng.contracts[key+"#exp"]
	if fi == nil || fi.Decl.Body == nil {
		return nil, fmt.Errorf("no function %s", key)
	}
	if ct == nil {
		return nil, fmt.Errorf("no #exp contract for %s", key)
	}
	var mulName, sqName, inName, outName string
	var want *big.Int
	for _, raw := range ct.Raw {
		f := strings.Fields(raw)
		switch f[0] {
		case "exp_ops":
			for _, kv := range f[1:] {
				if strings.HasPrefix(kv, "mul=") {
					mulName = kv[4:]
				}
				if strings.HasPrefix(kv, "square=") {
					sqName = kv[7:]
				}
			}
		case "exp_in":
			inName = f[1]
		case "exp_out":
			outName = f[1]
			v, ok := new(big.Int).SetString(strings.TrimPrefix(f[3], "0x"), 16)
			if !ok {
				return nil, fmt.Errorf("exp_out: bad exponent")
			}
			want = v
		}
	}
	if mulName == "" || sqName == "" || inName == "" || want == nil {
		return nil, fmt.Errorf("%s#exp: exp_ops, exp_in and exp_out are required", key)
	}
	info := fi.Pkg.TypesInfo
	vals := map[types.Object]*big.Int{} // object (pointer variable) -> exponent held by its pointee; aliasing by pointer identity is not modelled: distinct variables are distinct objects
	objs := paramObjs(fi)
	names := paramNames(fi)
	var outObj types.Object
	for i, n := range names {
		if n == inName {
			vals[objs[i]] = big.NewInt(1)
		}
		if n == outName {
			outObj = objs[i]
		}
	}
	pos := fi.Pkg.Fset.Position(fi.Decl.Pos())
	ob := ringObl{Name: key + "/exp:" + outName, Pos: fmt.Sprintf("%s:%d", pos.Filename[strings.LastIndex(pos.Filename, "/")+1:], pos.Line)}
	var failure string
	obj := func(e ast.Expr) types.Object {
		if id, ok := unparen(e).(*ast.Ident); ok {
			if o := info.Uses[id]; o != nil {
				return o
			}
			return info.Defs[id]
		}
		return nil
	}
	get := func(e ast.Expr) *big.Int {
		o := obj(e)
		if o == nil {
			failure = "operand " + exprString(e) + " is not a variable"
			return big.NewInt(0)
		}
		v, ok := vals[o]
		if !ok {
			failure = "operand " + exprString(e) + " is read before it is written"
			return big.NewInt(0)
		}
		return v
	}
	nops := 0
	var run func(s ast.Stmt)
	run = func(s ast.Stmt) {
		if failure != "" {
			return
		}
		switch x := s.(type) {
		case *ast.DeclStmt:
			gd := x.Decl.(*ast.GenDecl)
			for _, sp := range gd.Specs {
				vs, ok := sp.(*ast.ValueSpec)
				if !ok {
					continue
				}
				for i, n := range vs.Names {
					if i < len(vs.Values) {
						if c, ok := vs.Values[i].(*ast.CallExpr); ok {
							if id, ok := c.Fun.(*ast.Ident); ok && id.Name == "new" {
								continue // fresh temporary, unwritten
							}
						}
						failure = "initialiser of " + n.Name + " is not new(T)"
					}
				}
			}
		case *ast.ExprStmt:
			c, ok := x.X.(*ast.CallExpr)
			if !ok {
				failure = "statement is not a call"
				return
			}
			id, ok := c.Fun.(*ast.Ident)
			if !ok {
				failure = "call to " + exprString(c.Fun) + " is neither the multiplication nor the squaring"
				return
			}
			switch {
			case id.Name == mulName && len(c.Args) == 3:
				a, b := get(c.Args[1]), get(c.Args[2])
				if o := obj(c.Args[0]); o != nil {
					vals[o] = new(big.Int).Add(a, b)
				} else {
					failure = "destination is not a variable"
				}
				nops++
			case id.Name == sqName && len(c.Args) == 2:
				a := get(c.Args[1])
				if o := obj(c.Args[0]); o != nil {
					vals[o] = new(big.Int).Lsh(a, 1)
				} else {
					failure = "destination is not a variable"
				}
				nops++
			default:
				failure = "call to " + id.Name + " is neither " + mulName + " nor " + sqName
			}
		case *ast.ForStmt:
			// for s := C1; s < C2; s++ { body } with constants
			init, ok1 := x.Init.(*ast.AssignStmt)
			cond, ok2 := x.Cond.(*ast.BinaryExpr)
			_, ok3 := x.Post.(*ast.IncDecStmt)
			if !ok1 || !ok2 || !ok3 || cond.Op != token.LSS {
				failure = "loop is not of the form for s := a; s < b; s++"
				return
			}
			lo, okl := info.Types[init.Rhs[0]]
			hi, okh := info.Types[cond.Y]
			if !okl || !okh || lo.Value == nil || hi.Value == nil {
				failure = "loop bounds are not constants"
				return
			}
			var l, h int64
			fmt.Sscan(lo.Value.ExactString(), &l)
			fmt.Sscan(hi.Value.ExactString(), &h)
			for i := l; i < h; i++ {
				for _, st := range x.Body.List {
					run(st)
				}
			}
		case *ast.BlockStmt:
			for _, st := range x.List {
				run(st)
			}
		case *ast.ReturnStmt, *ast.EmptyStmt:
		default:
			failure = fmt.Sprintf("statement %T is outside the square-and-multiply subset", s)
		}
	}
	run(fi.Decl.Body)
	if failure != "" {
		ob.Msg = "not in the straight-line subset: " + failure
		return []ringObl{ob}, nil
	}
	got, ok := vals[outObj]
	if !ok {
		ob.Msg = "output " + outName + " is never written"
		return []ringObl{ob}, nil
	}
	if got.Cmp(want) == 0 {
		ob.OK = true
		ob.Msg = fmt.Sprintf("%d multiplications/squarings", nops)
	} else {
		ob.Msg = fmt.Sprintf("the chain raises to 0x%s, the contract states 0x%s", got.Text(16), want.Text(16))
	}
	return []ringObl{ob}, nil
}
