package main

// SMT-LIB printing and solver racing.

import (
	"bytes"
	"context"
	"crypto/sha256"
	"fmt"
	"math/big"
	"os"
	osexec "os/exec"
	"path/filepath"
	"sort"
	"strings"
	"sync"
	"time"
)

type printer struct {
	names    map[*Term]string // hoisted define-funs
	opaque   bool             // print nonlinear monomials as opaque constants
	monos    map[string]string
	monoDecl []string
	hasB     map[*Term]bool
}

func (p *printer) hasBound(t *Term) bool {
	if p.hasB == nil {
		p.hasB = map[*Term]bool{}
	}
	if v, ok := p.hasB[t]; ok {
		return v
	}
	r := false
	if t.Op == "bound" {
		r = true
	}
	for _, a := range t.Args {
		if p.hasBound(a) {
			r = true
		}
	}
	if t.Op == "poly" {
		for _, a := range t.Poly.atoms() {
			if p.hasBound(a) {
				r = true
			}
		}
	}
	p.hasB[t] = r
	return r
}

func smtName(n string) string {
	return "|" + strings.ReplaceAll(n, "|", "_") + "|"
}

func bigStr(v *big.Int) string {
	if v.Sign() < 0 {
		return "(- " + new(big.Int).Neg(v).String() + ")"
	}
	return v.String()
}

func printTerm(sb *strings.Builder, t *Term, p *printer) {
	if p != nil {
		if n, ok := p.names[t]; ok {
			sb.WriteString(n)
			return
		}
	}
	switch t.Op {
	case "true", "false":
		sb.WriteString(t.Op)
	case "bvconst":
		w := t.Sort.W
		if w%4 == 0 {
			s := t.Val.Text(16)
			sb.WriteString("#x" + strings.Repeat("0", w/4-len(s)) + s)
		} else {
			s := t.Val.Text(2)
			sb.WriteString("#b" + strings.Repeat("0", w-len(s)) + s)
		}
	case "intconst":
		sb.WriteString(bigStr(t.Val))
	case "var", "bound":
		sb.WriteString(smtName(t.Name))
	case "poly":
		printPoly(sb, t.Poly, p)
	case "extract":
		fmt.Fprintf(sb, "((_ extract %d %d) ", t.P1, t.P2)
		printTerm(sb, t.Args[0], p)
		sb.WriteByte(')')
	case "zext":
		fmt.Fprintf(sb, "((_ zero_extend %d) ", t.P1)
		printTerm(sb, t.Args[0], p)
		sb.WriteByte(')')
	case "sext":
		fmt.Fprintf(sb, "((_ sign_extend %d) ", t.P1)
		printTerm(sb, t.Args[0], p)
		sb.WriteByte(')')
	case "constarr":
		fmt.Fprintf(sb, "((as const %s) ", t.Sort)
		printTerm(sb, t.Args[0], p)
		sb.WriteByte(')')
	case "uf":
		if len(t.Args) == 0 {
			sb.WriteString(smtName(t.Name))
			return
		}
		sb.WriteString("(" + smtName(t.Name))
		for _, a := range t.Args {
			sb.WriteByte(' ')
			printTerm(sb, a, p)
		}
		sb.WriteByte(')')
	case "forall", "exists":
		sb.WriteString("(" + t.Op + " (")
		for _, b := range t.Bound {
			fmt.Fprintf(sb, "(%s %s)", smtName(b.Name), b.Sort)
		}
		sb.WriteString(") ")
		printTerm(sb, t.Args[0], p)
		sb.WriteByte(')')
	default:
		sb.WriteString("(" + t.Op)
		for _, a := range t.Args {
			sb.WriteByte(' ')
			printTerm(sb, a, p)
		}
		sb.WriteByte(')')
	}
}

func printPoly(sb *strings.Builder, po *Poly, p *printer) {
	if len(po.ms) > 1 {
		sb.WriteString("(+")
	}
	for _, m := range po.ms {
		if len(po.ms) > 1 {
			sb.WriteByte(' ')
		}
		if len(m.atoms) == 0 {
			sb.WriteString(bigStr(m.coef))
			continue
		}
		one := m.coef.Cmp(big.NewInt(1)) == 0
		if !one {
			sb.WriteString("(* " + bigStr(m.coef) + " ")
		}
		if len(m.atoms) == 1 {
			printTerm(sb, m.atoms[0], p)
		} else if p != nil && p.opaque {
			k := monoKey(m.atoms)
			n, ok := p.monos[k]
			if !ok {
				n = fmt.Sprintf("|mono!%d|", len(p.monos))
				p.monos[k] = n
				d := fmt.Sprintf("(declare-const %s Int)", n)
				lo, hi := big.NewInt(1), big.NewInt(1)
				known := true
				for _, a := range m.atoms {
					al, ah, kk := Range(a)
					if !kk || al.Sign() < 0 {
						known = false
						break
					}
					lo = new(big.Int).Mul(lo, al)
					hi = new(big.Int).Mul(hi, ah)
				}
				if known {
					d += fmt.Sprintf(" (assert (and (<= %s %s) (<= %s %s)))", bigStr(lo), n, n, bigStr(hi))
				}
				p.monoDecl = append(p.monoDecl, d)
			}
			sb.WriteString(n)
		} else {
			sb.WriteString("(*")
			for _, a := range m.atoms {
				sb.WriteByte(' ')
				printTerm(sb, a, p)
			}
			sb.WriteByte(')')
		}
		if !one {
			sb.WriteByte(')')
		}
	}
	if len(po.ms) > 1 {
		sb.WriteByte(')')
	}
}

// SpecDef is an SMT-LIB definition of a spec function (define-fun / define-fun-rec).
type SpecDef struct {
	Name string
	Text string
	Deps []string
}

var specDefs = map[string]*SpecDef{}

type Query struct {
	Text   string
	Inputs []string // names of declared constants, for model extraction
}

// BuildQuery produces the SMT-LIB text asserting hyps and the negation of goal.
func BuildQuery(hyps []*Term, goal *Term, opaque bool, abstract ...map[string]bool) *Query {
	var abs map[string]bool
	if len(abstract) > 0 {
		abs = abstract[0]
	}
	p := &printer{names: map[*Term]string{}, opaque: opaque, monos: map[string]string{}}
	all := append(append([]*Term{}, hyps...), goal)
	vars, ufs := map[string]*Term{}, map[string]*Term{}
	seen := map[*Term]bool{}
	for _, t := range all {
		collectSyms(t, vars, ufs, seen)
	}
	var sb strings.Builder
	var names []string
	for _, k := range sortedKeys(vars) {
		v := vars[k]
		fmt.Fprintf(&sb, "(declare-const %s %s)\n", smtName(k), v.Sort)
		names = append(names, k)
		if r, ok := atomRange[v]; ok {
			fmt.Fprintf(&sb, "(assert (and (<= %s %s) (<= %s %s)))\n", bigStr(r.lo), smtName(k), smtName(k), bigStr(r.hi))
		}
	}
	// spec definitions (dependency order) and plain UFs
	emitted := map[string]bool{}
	var emitDef func(n string)
	emitDef = func(n string) {
		if emitted[n] {
			return
		}
		emitted[n] = true
		d := specDefs[n]
		if abs[n] {
			// used as an uninterpreted function in this proof (its definition is not needed)
			sb.WriteString(declareFromDefine(d.Text))
			sb.WriteByte('\n')
			return
		}
		for _, dep := range d.Deps {
			emitDef(dep)
		}
		sb.WriteString(d.Text)
		sb.WriteByte('\n')
	}
	for _, k := range sortedKeys(ufs) {
		if _, ok := specDefs[k]; ok {
			emitDef(k)
			continue
		}
		u := ufs[k]
		sb.WriteString("(declare-fun " + smtName(k) + " (")
		for i, a := range u.Args {
			if i > 0 {
				sb.WriteByte(' ')
			}
			sb.WriteString(a.Sort.String())
		}
		fmt.Fprintf(&sb, ") %s)\n", u.Sort)
	}
	// hoist shared nodes
	refc := map[*Term]int{}
	var order []*Term
	var visit func(t *Term)
	visit = func(t *Term) {
		refc[t]++
		if refc[t] > 1 {
			return
		}
		for _, a := range t.Args {
			visit(a)
		}
		if t.Op == "poly" {
			for _, a := range t.Poly.atoms() {
				visit(a)
			}
		}
		order = append(order, t)
	}
	for _, t := range all {
		visit(t)
	}
	var body strings.Builder
	n := 0
	var rangeAsserts []string
	for _, t := range order {
		if len(t.Args) == 0 && t.Op != "poly" {
			continue
		}
		if p.hasBound(t) {
			continue
		}
		r, hasR := atomRange[t]
		if refc[t] > 1 || hasR || t.Op == "ite" || t.Op == "store" {
			var tb strings.Builder
			printTerm(&tb, t, p)
			n++
			nm := fmt.Sprintf("$def%d", n)
			fmt.Fprintf(&body, "(define-fun %s () %s %s)\n", nm, t.Sort, tb.String())
			p.names[t] = nm
			if hasR {
				rangeAsserts = append(rangeAsserts, fmt.Sprintf("(assert (and (<= %s %s) (<= %s %s)))", bigStr(r.lo), nm, nm, bigStr(r.hi)))
			}
		}
	}
	var asserts strings.Builder
	for _, h := range hyps {
		asserts.WriteString("(assert ")
		printTerm(&asserts, h, p)
		asserts.WriteString(")\n")
	}
	asserts.WriteString("(assert (not ")
	printTerm(&asserts, goal, p)
	asserts.WriteString("))\n")
	for _, d := range p.monoDecl {
		sb.WriteString(d)
		sb.WriteByte('\n')
	}
	sb.WriteString(body.String())
	for _, r := range rangeAsserts {
		sb.WriteString(r)
		sb.WriteByte('\n')
	}
	sb.WriteString(asserts.String())
	sb.WriteString("(check-sat)\n")
	return &Query{Text: sb.String(), Inputs: names}
}

// ---------- solver racing ----------

type Verdict int

const (
	Proved Verdict = iota
	Refuted
	Unknown
)

func (v Verdict) String() string { return [...]string{"proved", "refuted", "unknown"}[v] }

type SolveResult struct {
	Verdict Verdict
	Solver  string
	Seconds float64
	Model   string
	Detail  string
}

var solverSem = make(chan struct{}, 24)
var workDir = os.TempDir()

type solverSpec struct {
	name string
	args func(file string, timeoutS int) []string
	pre  string
}

var solvers = []solverSpec{
	{"z3-new-5.1.0", func(f string, t int) []string { return []string{"z3-new", fmt.Sprintf("-T:%d", t), f} }, ""},
	{"z3-4.8.12", func(f string, t int) []string { return []string{"z3", fmt.Sprintf("-T:%d", t), f} }, ""},
	{"cvc5-1.0.3", func(f string, t int) []string {
		return []string{"cvc5", "--produce-models", fmt.Sprintf("--tlimit=%d", t*1000), f}
	}, "(set-logic ALL)\n"},
}

var solveMu sync.Mutex
var solverStats = map[string]*struct {
	N int
	S float64
}{}

// Solve races the installed solvers on q; unsat = proved.
var solveMemo = map[[32]byte]SolveResult{}
var solveMemoMu sync.Mutex

// Solve races the solvers; identical queries within one run are solved once.
func Solve(q *Query, timeoutS int, wantModel bool) SolveResult {
	key := sha256.Sum256([]byte(q.Text))
	solveMemoMu.Lock()
	if r, ok := solveMemo[key]; ok && (r.Verdict == Proved || (r.Verdict == Refuted && (!wantModel || r.Model != ""))) {
		solveMemoMu.Unlock()
		r.Detail = "same query as an earlier obligation of this run"
		r.Seconds = 0
		return r
	}
	solveMemoMu.Unlock()
	r := solve1(q, timeoutS, wantModel)
	if r.Verdict != Unknown {
		solveMemoMu.Lock()
		solveMemo[key] = r
		solveMemoMu.Unlock()
	}
	return r
}

func solve1(q *Query, timeoutS int, wantModel bool) SolveResult {
	h := sha256.Sum256([]byte(q.Text))
	base := filepath.Join(workDir, fmt.Sprintf("q_%x", h[:8]))
	ctx, cancel := context.WithCancel(context.Background())
	defer cancel()
	type res struct {
		out  string
		name string
		dt   float64
	}
	ch := make(chan res, len(solvers))
	start := time.Now()
	for _, s := range solvers {
		s := s
		go func() {
			solverSem <- struct{}{}
			defer func() { <-solverSem }()
			if ctx.Err() != nil {
				ch <- res{"cancelled", s.name, 0}
				return
			}
			file := base + "_" + s.name + ".smt2"
			txt := s.pre + q.Text
			if wantModel {
				txt += "(get-model)\n"
			}
			os.WriteFile(file, []byte(txt), 0o644)
			defer os.Remove(file)
			a := s.args(file, timeoutS)
			t0 := time.Now()
			cctx, ccancel := context.WithTimeout(ctx, time.Duration(timeoutS+5)*time.Second)
			defer ccancel()
			cmd := osexec.CommandContext(cctx, a[0], a[1:]...)
			var out bytes.Buffer
			cmd.Stdout = &out
			cmd.Stderr = &out
			cmd.Run()
			ch <- res{out.String(), s.name, time.Since(t0).Seconds()}
		}()
	}
	var details []string
	for range solvers {
		r := <-ch
		first := strings.TrimSpace(strings.SplitN(r.out, "\n", 2)[0])
		switch first {
		case "unsat", "sat":
			cancel()
			solveMu.Lock()
			st := solverStats[r.name]
			if st == nil {
				st = &struct {
					N int
					S float64
				}{}
				solverStats[r.name] = st
			}
			st.N++
			st.S += r.dt
			solveMu.Unlock()
			v := Proved
			model := ""
			if first == "sat" {
				v = Refuted
				if i := strings.Index(r.out, "\n"); i >= 0 {
					model = r.out[i+1:]
				}
			}
			return SolveResult{Verdict: v, Solver: r.name, Seconds: time.Since(start).Seconds(), Model: model}
		default:
			if len(first) > 120 {
				first = first[:120]
			}
			details = append(details, r.name+": "+first)
		}
	}
	sort.Strings(details)
	return SolveResult{Verdict: Unknown, Seconds: time.Since(start).Seconds(), Detail: strings.Join(details, "; ")}
}

// declareFromDefine turns `(define-fun[-rec] f ((x S1) (y S2)) R body)` into `(declare-fun f (S1 S2) R)`.
func declareFromDefine(text string) string {
	i := strings.Index(text, "(define-fun")
	if i < 0 {
		return text
	}
	rest := text[i:]
	j := strings.Index(rest, " ") // after define-fun / define-fun-rec
	rest = strings.TrimSpace(rest[j:])
	k := strings.IndexAny(rest, " (")
	name := rest[:k]
	rest = strings.TrimSpace(rest[k:])
	// parameter list: balanced parentheses
	depth := 0
	end := 0
	for idx, c := range rest {
		if c == '(' {
			depth++
		} else if c == ')' {
			depth--
			if depth == 0 {
				end = idx
				break
			}
		}
	}
	params := rest[1:end]
	after := strings.TrimSpace(rest[end+1:])
	// result sort: next balanced s-expression or atom
	var ret string
	if strings.HasPrefix(after, "(") {
		depth = 0
		for idx, c := range after {
			if c == '(' {
				depth++
			} else if c == ')' {
				depth--
				if depth == 0 {
					ret = after[:idx+1]
					break
				}
			}
		}
	} else {
		ret = strings.Fields(after)[0]
	}
	// sorts of parameters: each (name sort)
	var sorts []string
	p := strings.TrimSpace(params)
	for len(p) > 0 {
		if p[0] != '(' {
			break
		}
		depth = 0
		for idx, c := range p {
			if c == '(' {
				depth++
			} else if c == ')' {
				depth--
				if depth == 0 {
					inner := strings.TrimSpace(p[1:idx])
					sp := strings.IndexAny(inner, " ")
					sorts = append(sorts, strings.TrimSpace(inner[sp:]))
					p = strings.TrimSpace(p[idx+1:])
					break
				}
			}
		}
	}
	return fmt.Sprintf("(declare-fun %s (%s) %s)", name, strings.Join(sorts, " "), ret)
}
