package main

// Int-sorted terms in polynomial normal form over atoms (variables, UF
// applications, div/mod/ite/select terms).  Coefficients are exact integers.

import (
	"fmt"
	"math/big"
	"sort"
	"strings"
)

type mono struct {
	atoms []*Term // sorted by id, repetitions allowed; empty = constant term
	coef  *big.Int
}

type Poly struct {
	ms []mono // sorted by monoKey
	k  string
}

func monoKey(atoms []*Term) string {
	var sb strings.Builder
	for _, a := range atoms {
		fmt.Fprintf(&sb, "%d.", a.id)
	}
	return sb.String()
}

func (p *Poly) key() string {
	if p.k == "" {
		var sb strings.Builder
		for _, m := range p.ms {
			sb.WriteString(monoKey(m.atoms))
			sb.WriteByte('*')
			sb.WriteString(m.coef.String())
			sb.WriteByte(';')
		}
		p.k = "P:" + sb.String()
	}
	return p.k
}

func mkPoly(in []mono) *Poly {
	acc := map[string]*mono{}
	for _, m := range in {
		k := monoKey(m.atoms)
		if e, ok := acc[k]; ok {
			e.coef = new(big.Int).Add(e.coef, m.coef)
		} else {
			acc[k] = &mono{m.atoms, new(big.Int).Set(m.coef)}
		}
	}
	keys := make([]string, 0, len(acc))
	for k, e := range acc {
		if e.coef.Sign() != 0 {
			keys = append(keys, k)
		}
	}
	sort.Strings(keys)
	p := &Poly{}
	for _, k := range keys {
		p.ms = append(p.ms, *acc[k])
	}
	return p
}

func (p *Poly) constant() (*big.Int, bool) {
	if len(p.ms) == 0 {
		return big.NewInt(0), true
	}
	if len(p.ms) == 1 && len(p.ms[0].atoms) == 0 {
		return p.ms[0].coef, true
	}
	return nil, false
}

func (p *Poly) atoms() []*Term {
	seen := map[*Term]bool{}
	var out []*Term
	for _, m := range p.ms {
		for _, a := range m.atoms {
			if !seen[a] {
				seen[a] = true
				out = append(out, a)
			}
		}
	}
	return out
}

func polyConst(v *big.Int) *Poly { return mkPoly([]mono{{nil, v}}) }

func polyOf(t *Term) *Poly {
	if t.Sort.K != KInt {
		panic("polyOf non-int " + t.String())
	}
	switch t.Op {
	case "poly":
		return t.Poly
	case "intconst":
		return polyConst(t.Val)
	}
	return mkPoly([]mono{{[]*Term{t}, big.NewInt(1)}})
}

func termOfPoly(p *Poly) *Term {
	if c, ok := p.constant(); ok {
		return IntC(c)
	}
	if len(p.ms) == 1 && len(p.ms[0].atoms) == 1 && p.ms[0].coef.Cmp(big.NewInt(1)) == 0 {
		return p.ms[0].atoms[0]
	}
	return intern(&Term{Op: "poly", Sort: IntSort, Poly: p})
}

func IntC(v *big.Int) *Term {
	return intern(&Term{Op: "intconst", Sort: IntSort, Val: new(big.Int).Set(v)})
}
func IntC64(v int64) *Term { return IntC(big.NewInt(v)) }

func polyAdd(a, b *Poly) *Poly { return mkPoly(append(append([]mono{}, a.ms...), b.ms...)) }
func polyScale(a *Poly, c *big.Int) *Poly {
	out := make([]mono, len(a.ms))
	for i, m := range a.ms {
		out[i] = mono{m.atoms, new(big.Int).Mul(m.coef, c)}
	}
	return mkPoly(out)
}
func polySub(a, b *Poly) *Poly { return polyAdd(a, polyScale(b, big.NewInt(-1))) }
func polyMul(a, b *Poly) *Poly {
	var out []mono
	for _, x := range a.ms {
		for _, y := range b.ms {
			at := append(append([]*Term{}, x.atoms...), y.atoms...)
			sort.Slice(at, func(i, j int) bool { return at[i].id < at[j].id })
			out = append(out, mono{at, new(big.Int).Mul(x.coef, y.coef)})
		}
	}
	return mkPoly(out)
}

func (p *Poly) substTerm(rec func(*Term) *Term) *Term {
	res := polyConst(big.NewInt(0))
	for _, m := range p.ms {
		cur := polyConst(m.coef)
		for _, a := range m.atoms {
			cur = polyMul(cur, polyOf(rec(a)))
		}
		res = polyAdd(res, cur)
	}
	return termOfPoly(res)
}

func IntAdd(a, b *Term) *Term { return termOfPoly(polyAdd(polyOf(a), polyOf(b))) }
func IntSub(a, b *Term) *Term { return termOfPoly(polySub(polyOf(a), polyOf(b))) }
func IntMul(a, b *Term) *Term { return termOfPoly(polyMul(polyOf(a), polyOf(b))) }
func IntNeg(a *Term) *Term    { return termOfPoly(polyScale(polyOf(a), big.NewInt(-1))) }
func IntScale(a *Term, c *big.Int) *Term {
	return termOfPoly(polyScale(polyOf(a), c))
}

// ---------- ranges ----------

type rng struct{ lo, hi *big.Int }

var atomRange = map[*Term]rng{}

func SetRange(t *Term, lo, hi *big.Int) { atomRange[t] = rng{lo, hi} }

func IntVarR(name string, lo, hi *big.Int) *Term {
	v := Var(name, IntSort)
	SetRange(v, lo, hi)
	return v
}

// Range returns a sound interval for an Int term if one is known.
func Range(t *Term) (lo, hi *big.Int, ok bool) {
	if t.Sort.K != KInt {
		return nil, nil, false
	}
	switch t.Op {
	case "intconst":
		return t.Val, t.Val, true
	case "poly":
		lo, hi = big.NewInt(0), big.NewInt(0)
		for _, m := range t.Poly.ms {
			ml, mh := big.NewInt(1), big.NewInt(1)
			for _, a := range m.atoms {
				al, ah, k := Range(a)
				if !k || al.Sign() < 0 {
					return nil, nil, false
				}
				ml = new(big.Int).Mul(ml, al)
				mh = new(big.Int).Mul(mh, ah)
			}
			if m.coef.Sign() >= 0 {
				lo = new(big.Int).Add(lo, new(big.Int).Mul(ml, m.coef))
				hi = new(big.Int).Add(hi, new(big.Int).Mul(mh, m.coef))
			} else {
				lo = new(big.Int).Add(lo, new(big.Int).Mul(mh, m.coef))
				hi = new(big.Int).Add(hi, new(big.Int).Mul(ml, m.coef))
			}
		}
		return lo, hi, true
	case "ite":
		l1, h1, k1 := Range(t.Args[1])
		l2, h2, k2 := Range(t.Args[2])
		if k1 && k2 {
			lo, hi = l1, h1
			if l2.Cmp(lo) < 0 {
				lo = l2
			}
			if h2.Cmp(hi) > 0 {
				hi = h2
			}
			return lo, hi, true
		}
	}
	if r, k := atomRange[t]; k {
		return r.lo, r.hi, true
	}
	return nil, nil, false
}

func IntLe(a, b *Term) *Term {
	d := polySub(polyOf(b), polyOf(a)) // b - a >= 0
	if c, ok := d.constant(); ok {
		return BoolC(c.Sign() >= 0)
	}
	dt := termOfPoly(d)
	if lo, hi, ok := Range(dt); ok {
		if lo.Sign() >= 0 {
			return True
		}
		if hi.Sign() < 0 {
			return False
		}
	}
	return mk("<=", BoolSort, a, b)
}

func IntLt(a, b *Term) *Term {
	d := polySub(polyOf(b), polyOf(a)) // b - a > 0
	if c, ok := d.constant(); ok {
		return BoolC(c.Sign() > 0)
	}
	dt := termOfPoly(d)
	if lo, hi, ok := Range(dt); ok {
		if lo.Sign() > 0 {
			return True
		}
		if hi.Sign() <= 0 {
			return False
		}
	}
	return mk("<", BoolSort, a, b)
}

// splitByDivisor splits p = c*q + r where r collects the monomials whose
// coefficient is not divisible by c (with their remainder part).
func splitByDivisor(p *Poly, c *big.Int) (q, r *Poly) {
	var qs, rs []mono
	for _, m := range p.ms {
		qq, rr := new(big.Int).DivMod(m.coef, c, new(big.Int)) // Euclidean: 0 <= rr < c
		if qq.Sign() != 0 {
			qs = append(qs, mono{m.atoms, qq})
		}
		if rr.Sign() != 0 {
			rs = append(rs, mono{m.atoms, rr})
		}
	}
	return mkPoly(qs), mkPoly(rs)
}

// IntDiv is SMT-LIB div (floor for positive divisor).  Divisor must be a positive constant.
func IntDiv(a, b *Term) *Term {
	if b.Op != "intconst" || b.Val.Sign() <= 0 {
		return mk("div", IntSort, a, b)
	}
	c := b.Val
	if c.Cmp(big.NewInt(1)) == 0 {
		return a
	}
	q, r := splitByDivisor(polyOf(a), c)
	rt := termOfPoly(r)
	if lo, hi, ok := Range(rt); ok && lo.Sign() >= 0 {
		if hi.Cmp(c) < 0 {
			return termOfPoly(q)
		}
	}
	if a.Op == "intconst" {
		return IntC(new(big.Int).Div(a.Val, c))
	}
	return IntAdd(termOfPoly(q), mk("div", IntSort, rt, b))
}

func IntMod(a, b *Term) *Term {
	if b.Op != "intconst" || b.Val.Sign() <= 0 {
		return mk("mod", IntSort, a, b)
	}
	c := b.Val
	if c.Cmp(big.NewInt(1)) == 0 {
		return IntC64(0)
	}
	_, r := splitByDivisor(polyOf(a), c)
	rt := termOfPoly(r)
	if lo, hi, ok := Range(rt); ok && lo.Sign() >= 0 && hi.Cmp(c) < 0 {
		return rt
	}
	if rt.Op == "intconst" {
		return IntC(new(big.Int).Mod(rt.Val, c))
	}
	t := mk("mod", IntSort, rt, b)
	SetRange(t, big.NewInt(0), new(big.Int).Sub(c, big.NewInt(1)))
	return t
}
