package main

// Property-level driver: `govc check <ID>` verifies the functions a property
// depends on, applies the known-findings list, replays failures against the
// real code, writes the evidence file and prints VIOLATION lines.

import (
	"bytes"
	"encoding/json"
	"flag"
	"fmt"
	"os"
	osexec "os/exec"
	"path/filepath"
	"regexp"
	"sort"
	"strconv"
	"strings"
	"time"
)

type FuncGroup struct {
	Arch  string   `json:"arch"`
	Funcs []string `json:"funcs"`
}

type StandIn struct {
	Name  string `json:"name"`
	Pkg   string `json:"pkg"`
	Cases string `json:"cases"`
	N     int    `json:"n"`
	NThorough int `json:"n_thorough"`
	Bound string `json:"bound"`
}

type PropConfig struct {
	ID       string      `json:"id"`
	Level    string      `json:"level"`
	Groups   []FuncGroup `json:"groups"`
	Trusted  []string    `json:"trusted"`
	Assumes  []string    `json:"assumptions"`
	StandIns []StandIn   `json:"standins"`
	ReplayCases map[string]string `json:"replay_cases"` // func key -> comma separated replay case names
	Explanation string   `json:"explanation"`
	EffArchs []string    `json:"eff_archs"`  // additional GOARCH values for which package sm4 is analysed
	EffOnly  string      `json:"eff_only"`   // when set: only write-effect obligations whose name contains this text (e.g. "/readonly:")
	EffPkgs  []string    `json:"eff_pkgs"`   // packages whose functions get write-effect obligations (#eff contracts)
	RingFuncs []string   `json:"ring_funcs"` // functions with #ring contracts (polynomial identities mod p)
	CtRoots  []string    `json:"ct_roots"`   // functions with #ct contracts: roots of the secret-independence analysis
	Extra    []string    `json:"extra_cmds"` // additional deciding commands (e.g. asmvc), run from /verif
	SpecLemmas []string  `json:"spec_lemmas"` // stand-alone SMT-LIB lemma files (must be unsat), relative to /verif
}

type Finding struct {
	Property string
	Pattern  *regexp.Regexp
	Text     string
}

func loadFindings(path string) ([]Finding, error) {
	data, err := os.ReadFile(path)
	if err != nil {
		if os.IsNotExist(err) {
			return nil, nil
		}
		return nil, err
	}
	var out []Finding
	for _, line := range strings.Split(string(data), "\n") {
		line = strings.TrimSpace(line)
		if line == "" || strings.HasPrefix(line, "#") || strings.HasPrefix(line, "fixed:") {
			continue
		}
		// property=<id> obligation=<regexp> <what fails>
		f := strings.Fields(line)
		if len(f) < 3 || !strings.HasPrefix(f[0], "property=") || !strings.HasPrefix(f[1], "obligation=") {
			return nil, fmt.Errorf("known_findings: bad line %q", line)
		}
		re, err := regexp.Compile("^" + strings.TrimPrefix(f[1], "obligation=") + "$")
		if err != nil {
			return nil, err
		}
		out = append(out, Finding{Property: strings.TrimPrefix(f[0], "property="), Pattern: re, Text: strings.Join(f[2:], " ")})
	}
	return out, nil
}

var numSuffix = regexp.MustCompile(`#\d+$`)

func baseName(n string) string { return numSuffix.ReplaceAllString(n, "") }

func cmdCheck(args []string) {
	fs := flag.NewFlagSet("check", flag.ExitOnError)
	repo := fs.String("repo", "/repo", "repository root")
	vdir := fs.String("verif", "/verif", "verification directory")
	tier := fs.String("tier", os.Getenv("VERIF_TIER"), "quick|thorough")
	writeBaseline := fs.Bool("write-baseline", false, "record proved obligations as the baseline")
	noEvidence := fs.Bool("no-evidence", false, "do not write the evidence file")
	fs.Parse(args)
	if fs.NArg() != 1 {
		fmt.Fprintln(os.Stderr, "usage: govc check [flags] <property id>")
		os.Exit(2)
	}
	id := fs.Arg(0)
	if *tier == "" {
		*tier = "quick"
	}
	seed := int64(1)
	if s := os.Getenv("VERIF_SEED"); s != "" {
		if v, err := strconv.ParseInt(s, 10, 64); err == nil {
			seed = v
		}
	}
	t0 := time.Now()
	var props map[string]*PropConfig
	data, err := os.ReadFile(filepath.Join(*vdir, "props", "props.json"))
	if err == nil {
		err = json.Unmarshal(data, &props)
	}
	if err != nil {
		fmt.Fprintln(os.Stderr, "props:", err)
		os.Exit(2)
	}
	pc := props[id]
	if pc == nil {
		fmt.Fprintln(os.Stderr, "unknown property", id)
		os.Exit(2)
	}
	pc.ID = id
	findings, err := loadFindings(filepath.Join(*vdir, "known_findings.txt"))
	if err != nil {
		fmt.Fprintln(os.Stderr, err)
		os.Exit(2)
	}
	baseline := map[string]bool{}
	if data, err := os.ReadFile(filepath.Join(*vdir, "baseline", id+".json")); err == nil {
		var names []string
		json.Unmarshal(data, &names)
		for _, n := range names {
			baseline[baseName(n)] = true
		}
	}
	if err := LoadSpecLibrary(filepath.Join(*vdir, "spec")); err != nil {
		fmt.Fprintln(os.Stderr, "spec:", err)
		os.Exit(2)
	}
	timeout := 30
	if *tier == "thorough" {
		timeout = 300
	}
	workDir, _ = os.MkdirTemp("", "govc")
	defer os.RemoveAll(workDir)

	type funcRes struct {
		rep  *FuncReport
		arch string
	}
	var results []funcRes
	var allObs []*Oblig
	var stale []funcRes
	engines := map[string]*Engine{}
	for _, g := range pc.Groups {
		eng, err := NewEngine(*repo, g.Arch, "verif")
		if err != nil {
			// the tree does not build: not a property verdict; report as broken input
			fmt.Printf("ERROR: cannot load %s for GOARCH=%s: %v\n", *repo, g.Arch, err)
			func() { os.RemoveAll(workDir); os.Exit(2) }()
		}
		eng.timeoutS = timeout
		if err := eng.LoadContracts(ContractFilesArch(*repo, g.Arch, filepath.Join(*vdir, "spec"))); err != nil {
			fmt.Println("ERROR: contracts:", err)
			func() { os.RemoveAll(workDir); os.Exit(2) }()
		}
		engines[g.Arch] = eng
		var groupObs []*Oblig
		for _, k := range g.Funcs {
			rep := eng.VerifyFunc(k)
			fr := funcRes{rep, g.Arch}
			if rep.Status != "ok" {
				stale = append(stale, fr)
				continue
			}
			if g.Arch != "" && g.Arch != "amd64" {
				for _, o := range rep.Obligs {
					o.Name = g.Arch + ":" + o.Name
				}
			}
			results = append(results, fr)
			allObs = append(allObs, rep.Obligs...)
			groupObs = append(groupObs, rep.Obligs...)
		}
		eng.SolveAll(groupObs)
	}

	violations := 0
	known := 0
	undecided := 0
	var lines []string
	replayDir := filepath.Join(*vdir, "evidence", "replay", id)
	os.RemoveAll(replayDir)
	nrep := 0
	writeReplay := func(m map[string]interface{}) string {
		os.MkdirAll(replayDir, 0o755)
		nrep++
		p := filepath.Join(replayDir, fmt.Sprintf("%d.json", nrep))
		b, _ := json.MarshalIndent(m, "", " ")
		os.WriteFile(p, b, 0o644)
		return p
	}
	replayCache := map[string][]string{}
	runReplay := func(fn string, n int) []string {
		if i := strings.Index(fn, "@"); i >= 0 {
			// a function of another architecture's build: only an explicitly configured replay can run here
			if _, ok := pc.ReplayCases[fn]; !ok {
				return nil
			}
		}
		pkg, cs := replayTarget(pc, fn)
		if pkg == "" {
			return nil
		}
		if c, ok := pc.ReplayCases[fn]; ok {
			cs = c
		}
		// "@<replay target>:<cases>" selects another replay harness (e.g. the extracted arm64 glue)
		if strings.HasPrefix(cs, "@") {
			if i := strings.Index(cs, ":"); i > 0 {
				pkg, cs = cs[1:i], cs[i+1:]
			}
		}
		key := pkg + "|" + cs
		if r, ok := replayCache[key]; ok {
			return r
		}
		fails, _ := runReplayCases(*vdir, *repo, pkg, cs, seed, n)
		replayCache[key] = fails
		return fails
	}

	total, discharged := 0, 0
	solverCount := map[string]int{}
	solverTime := map[string]float64{}
	var samples []interface{}
	var covers, inconclusive int
	for _, fr := range results {
		for _, o := range fr.rep.Obligs {
			if o.Kind == "cover" {
				covers++
				if o.Inconclusive {
					inconclusive++
				}
				if o.Res.Verdict == Proved {
					continue
				}
			}
			total++
			if o.Res.Verdict == Proved {
				discharged++
				solverCount[o.Res.Solver]++
				solverTime[o.Res.Solver] += o.Res.Seconds
				if len(samples) < 6 && !o.Trivial {
					samples = append(samples, map[string]string{"obligation": o.Name, "pos": o.Pos, "goal": o.Goal.String(), "solver": o.Res.Solver})
				}
				continue
			}
			// not proved
			if f := matchFinding(findings, id, o.Name); f != nil {
				known++
				discharged++ // accounted for: listed known finding
				lines = append(lines, fmt.Sprintf("KNOWN-FINDING: property=%s %s (obligation %s)", id, f.Text, o.Name))
				continue
			}
			wasProved := baseline[baseName(o.Name)]
			rfn := o.Func
			if fr.arch != "" && fr.arch != "amd64" {
				rfn += "@" + fr.arch
			}
			fails := runReplay(rfn, 400)
			rec := map[string]interface{}{
				"property": id, "obligation": o.Name, "position": o.Pos, "verdict": o.Res.Verdict.String(),
				"solver": o.Res.Solver, "solver_detail": o.Res.Detail, "model": truncate(o.Res.Model, 20000),
				"goal": o.Goal.String(), "in_baseline": wasProved, "replay_failures": fails,
			}
			if len(fails) > 0 {
				p := writeReplay(rec)
				lines = append(lines, fmt.Sprintf("VIOLATION property=%s replay=%s obligation=%s input: %s", id, p, o.Name, truncate(fails[0], 300)))
				violations++
			} else if wasProved || o.Res.Verdict == Refuted && (len(baseline) == 0 || o.Kind == "frame") {
				// (a frame obligation exists only when the code writes memory it did not write on the
				// unchanged tree; a solver countermodel for it is a violation of the assigns clause)
				p := writeReplay(rec)
				lines = append(lines, fmt.Sprintf("VIOLATION property=%s replay=%s obligation=%s (%s) no-failing-input-found", id, p, o.Name, o.Res.Verdict))
				violations++
			} else {
				undecided++
				lines = append(lines, fmt.Sprintf("UNDECIDED: obligation %s is %s and was never proved on the unchanged tree; no failing input found on the real code", o.Name, o.Res.Verdict))
			}
		}
	}
	// stale contracts: decide by the bounded stand-in of that function
	level := pc.Level
	for _, fr := range stale {
		lines = append(lines, fmt.Sprintf("STALE-CONTRACT: %s (%s): %s", fr.rep.Key, fr.rep.Status, fr.rep.Reason))
		level = "exploration"
		rk := fr.rep.Key
		if fr.arch != "" && fr.arch != "amd64" {
			rk += "@" + fr.arch
		}
		fails := runReplay(rk, 400)
		if len(fails) > 0 {
			p := writeReplay(map[string]interface{}{"property": id, "function": fr.rep.Key, "stale_contract": fr.rep.Reason, "replay_failures": fails})
			lines = append(lines, fmt.Sprintf("VIOLATION property=%s replay=%s function=%s input: %s", id, p, fr.rep.Key, truncate(fails[0], 300)))
			violations++
		}
	}
	// bounded stand-ins (labelled bounded, never counted as proved)
	var bounded []map[string]interface{}
	for _, s := range pc.StandIns {
		n := s.N
		if *tier == "thorough" && s.NThorough > 0 {
			n = s.NThorough
		}
		fails, ran := runReplayCases(*vdir, *repo, s.Pkg, s.Cases, seed, n)
		b := map[string]interface{}{"name": s.Name, "package": s.Pkg, "cases": s.Cases, "n_per_case": n, "bound": s.Bound, "cases_ok": ran, "failures": len(fails)}
		bounded = append(bounded, b)
		for _, f := range fails {
			if fd := matchFinding(findings, id, "standin:"+replayCase(f)); fd != nil {
				known++
				lines = append(lines, fmt.Sprintf("KNOWN-FINDING: property=%s %s (bounded stand-in %s)", id, fd.Text, replayCase(f)))
				continue
			}
			p := writeReplay(map[string]interface{}{"property": id, "standin": s.Name, "failure": f})
			lines = append(lines, fmt.Sprintf("VIOLATION property=%s replay=%s standin=%s input: %s", id, p, s.Name, truncate(f, 300)))
			violations++
		}
	}
	// stand-alone lemmas of the specification library (pure mathematics over the spec functions)
	for _, lf := range pc.SpecLemmas {
		data, err := os.ReadFile(filepath.Join(*vdir, lf))
		total++
		if err != nil {
			lines = append(lines, fmt.Sprintf("ERROR: spec lemma %s: %v", lf, err))
			violations++
			continue
		}
		txt := string(data)
		// `; same-as-spec f g`: the file must contain the definitions of these spec functions verbatim
		// (up to white space), so that the lemma is about the functions the contracts use
		specMismatch := ""
		for _, line := range strings.Split(txt, "\n") {
			if strings.HasPrefix(line, "; same-as-spec ") {
				for _, n := range strings.Fields(line[len("; same-as-spec "):]) {
					d := specDefs[n]
					if d == nil || !strings.Contains(normSpace(txt), normSpace(d.Text)) {
						specMismatch = n
					}
				}
			}
		}
		if specMismatch != "" {
			p := writeReplay(map[string]interface{}{"property": id, "spec_lemma": lf, "detail": "definition of " + specMismatch + " in the lemma file differs from the spec library"})
			lines = append(lines, fmt.Sprintf("VIOLATION property=%s replay=%s spec-lemma=%s (definition of %s differs from spec library) no-failing-input-found", id, p, lf, specMismatch))
			violations++
			continue
		}
		if !strings.Contains(txt, "(check-sat)") {
			txt += "\n(check-sat)\n"
		}
		r := Solve(&Query{Text: txt}, timeout, false)
		if r.Verdict == Proved {
			discharged++
			solverCount[r.Solver]++
			solverTime[r.Solver] += r.Seconds
			samples = append(samples, map[string]string{"obligation": "spec-lemma:" + lf, "solver": r.Solver})
		} else {
			p := writeReplay(map[string]interface{}{"property": id, "spec_lemma": lf, "verdict": r.Verdict.String(), "detail": r.Detail})
			lines = append(lines, fmt.Sprintf("VIOLATION property=%s replay=%s spec-lemma=%s (%s) no-failing-input-found", id, p, lf, r.Verdict))
			violations++
		}
	}
	var extraFuncs, extraTrusted []string
	// secret-independence contracts (#ct): information-flow obligations
	var ctInfo map[string]interface{}
	if len(pc.CtRoots) > 0 {
		eng := engines[""]
		if eng == nil {
			var err error
			eng, err = NewEngine(*repo, "", "verif")
			if err != nil {
				fmt.Printf("ERROR: cannot load %s: %v\n", *repo, err)
				func() { os.RemoveAll(workDir); os.Exit(2) }()
			}
			if err := eng.LoadContracts(ContractFilesArch(*repo, "", filepath.Join(*vdir, "spec"))); err != nil {
				fmt.Println("ERROR: contracts:", err)
				func() { os.RemoveAll(workDir); os.Exit(2) }()
			}
		}
		an := NewCtAnalysis(eng)
		for _, r := range pc.CtRoots {
			if err := an.AnalyseRoot(r); err != nil {
				lines = append(lines, fmt.Sprintf("STALE-CONTRACT property=%s %v", id, err))
				p := writeReplay(map[string]interface{}{"property": id, "stale_ct_contract": r, "error": err.Error()})
				lines = append(lines, fmt.Sprintf("VIOLATION property=%s replay=%s constant-time contract of %s no longer binds: %v no-failing-input-found", id, p, r, err))
				violations++
			}
		}
		nct, okct := 0, 0
		seenKF := map[string]bool{}
		for _, o := range an.Obligations() {
			nct++
			if o.OK {
				okct++
				if len(samples) < 10 && okct%37 == 1 {
					samples = append(samples, map[string]string{"obligation": o.Name, "pos": o.Pos, "solver": "information-flow analysis (govc ct)"})
				}
				continue
			}
			f := matchFinding(findings, id, o.Name)
			if f == nil {
				f = matchFinding(findings, id, o.ShapeName)
			}
			if f != nil {
				known++
				okct++
				if !seenKF[f.Text] {
					seenKF[f.Text] = true
					lines = append(lines, fmt.Sprintf("KNOWN-FINDING: property=%s %s (obligation %s at %s)", id, f.Text, o.Name, o.Pos))
				}
				continue
			}
			p := writeReplay(map[string]interface{}{"property": id, "obligation": o.Name, "position": o.Pos, "what": o.What,
				"verifier_output": "information-flow analysis: " + o.What, "note": "a secret-dependent branch/address has no failing input in the functional sense; the witness is the flow itself"})
			lines = append(lines, fmt.Sprintf("VIOLATION property=%s replay=%s obligation=%s at %s: %s no-failing-input-found", id, p, o.Name, o.Pos, o.What))
			violations++
		}
		total += nct
		discharged += okct
		solverCount["information-flow analysis (govc ct)"] += okct
		var fl []string
		for f := range an.funcs {
			fl = append(fl, f+" (constant-time contract)")
		}
		sort.Strings(fl)
		extraFuncs = append(extraFuncs, fl...)
		var decl []string
		for k, v := range an.declUsed {
			decl = append(decl, "declassified: "+k+" -- "+v)
		}
		sort.Strings(decl)
		extraTrusted = append(extraTrusted, decl...)
		ctInfo = map[string]interface{}{"roots": pc.CtRoots, "obligations": nct, "discharged": okct, "functions_reached": len(an.funcs), "declassifications": decl, "notes": an.notes}
	}
	// write-effect contracts (#eff)
	effArchs := []string{""}
	if len(pc.EffPkgs) > 0 {
		effArchs = append(effArchs, pc.EffArchs...)
	}
	for _, earch := range effArchs {
		if len(pc.EffPkgs) == 0 {
			break
		}
		eng := engines[earch]
		if eng == nil {
			var err error
			eng, err = NewEngine(*repo, earch, "verif")
			if err != nil {
				fmt.Printf("ERROR: cannot load %s for GOARCH=%s: %v\n", *repo, earch, err)
				func() { os.RemoveAll(workDir); os.Exit(2) }()
			}
			if err := eng.LoadContracts(ContractFilesArch(*repo, earch, filepath.Join(*vdir, "spec"))); err != nil {
				fmt.Println("ERROR: contracts:", err)
				func() { os.RemoveAll(workDir); os.Exit(2) }()
			}
			engines[earch] = eng
		}
		ea := NewEffAnalysis(eng)
		ne, oke := 0, 0
		effPkgs := pc.EffPkgs
		apfx := ""
		if earch != "" {
			apfx = earch + ":"
			effPkgs = []string{"sm4"} // only package sm4 has architecture-specific Go code
		}
		// every #eff contract must still bind
		for key := range eng.contracts {
			if strings.HasSuffix(key, "#eff") && !strings.HasPrefix(key, "type ") {
				if eng.funcs[strings.TrimSuffix(key, "#eff")] == nil {
					p := writeReplay(map[string]interface{}{"property": id, "stale_eff_contract": key})
					lines = append(lines, fmt.Sprintf("STALE-CONTRACT property=%s %s names no function", id, key))
					lines = append(lines, fmt.Sprintf("VIOLATION property=%s replay=%s write-effect contract %s no longer binds no-failing-input-found", id, p, key))
					violations++
				}
			}
		}
		for _, o := range ea.Check(effPkgs) {
			if pc.EffOnly != "" && !strings.Contains(o.Name, pc.EffOnly) {
				continue
			}
			o.Name = apfx + o.Name
			ne++
			if o.OK {
				oke++
				if oke%29 == 1 && len(samples) < 10 {
					samples = append(samples, map[string]string{"obligation": o.Name, "pos": o.Pos, "solver": "write-effect analysis (govc eff)"})
				}
				continue
			}
			if fd := matchFinding(findings, id, o.Name); fd != nil {
				known++
				oke++
				lines = append(lines, fmt.Sprintf("KNOWN-FINDING: property=%s %s (obligation %s)", id, fd.Text, o.Name))
				continue
			}
			p := writeReplay(map[string]interface{}{"property": id, "obligation": o.Name, "position": o.Pos, "verifier_output": o.What})
			lines = append(lines, fmt.Sprintf("VIOLATION property=%s replay=%s obligation=%s at %s: %s no-failing-input-found", id, p, o.Name, o.Pos, truncate(o.What, 220)))
			violations++
		}
		total += ne
		discharged += oke
		solverCount["write-effect analysis (govc eff)"] += oke
		extraFuncs = append(extraFuncs, fmt.Sprintf("every non-test function of packages %s%s (write-effect obligations)", strings.Join(effPkgs, ", "), map[bool]string{true: " built for " + earch, false: ""}[earch != ""]))
	}
	// ring-mode contracts: polynomial identities of straight-line field code
	if len(pc.RingFuncs) > 0 {
		eng := engines[""]
		if eng == nil {
			var err error
			eng, err = NewEngine(*repo, "", "verif")
			if err != nil {
				fmt.Printf("ERROR: cannot load %s: %v\n", *repo, err)
				func() { os.RemoveAll(workDir); os.Exit(2) }()
			}
			if err := eng.LoadContracts(ContractFilesArch(*repo, "", filepath.Join(*vdir, "spec"))); err != nil {
				fmt.Println("ERROR: contracts:", err)
				func() { os.RemoveAll(workDir); os.Exit(2) }()
			}
			engines[""] = eng
		}
		nr, okr := 0, 0
		staleRing := map[string]bool{}
		for _, f := range pc.RingFuncs {
			var obs []ringObl
			var err error
			if eng.contracts[f+"#gexp"] != nil {
				obs, err = eng.VerifyGexp(f)
			} else if eng.contracts[f+"#exp"] != nil {
				obs, err = eng.VerifyExp(f)
			} else {
				obs, err = eng.VerifyRing(f)
			}
			if err != nil {
				p := writeReplay(map[string]interface{}{"property": id, "stale_ring_contract": f, "error": err.Error()})
				lines = append(lines, fmt.Sprintf("STALE-CONTRACT property=%s %v", id, err))
				fails := runReplay(f, 400)
				if len(fails) > 0 {
					lines = append(lines, fmt.Sprintf("VIOLATION property=%s replay=%s ring contract of %s no longer binds; input: %s", id, p, f, truncate(fails[0], 300)))
				} else {
					lines = append(lines, fmt.Sprintf("VIOLATION property=%s replay=%s ring contract of %s no longer binds: %v no-failing-input-found", id, p, f, err))
				}
				violations++
				continue
			}
			kind := "ring contract"
			if eng.contracts[f+"#gexp"] != nil {
				kind = "exponent contract (discrete-log interpreter)"
			} else if eng.contracts[f+"#exp"] != nil {
				kind = "exponent contract (square-and-multiply chain)"
			}
			extraFuncs = append(extraFuncs, f+" ("+kind+")")
			for _, o := range obs {
				nr++
				if o.OK {
					okr++
					if okr%11 == 1 && len(samples) < 10 {
						samples = append(samples, map[string]string{"obligation": o.Name, "pos": o.Pos, "solver": "exact polynomial arithmetic (govc ring/gexp)"})
					}
					continue
				}
				if fd := matchFinding(findings, id, o.Name); fd != nil {
					known++
					okr++
					lines = append(lines, fmt.Sprintf("KNOWN-FINDING: property=%s %s (obligation %s)", id, fd.Text, o.Name))
					continue
				}
				fails := runReplay(f, 400)
				rec := map[string]interface{}{"property": id, "obligation": o.Name, "position": o.Pos, "verifier_output": o.Msg, "replay_failures": fails}
				if strings.HasPrefix(o.Msg, "not in the straight-line subset") && len(fails) == 0 {
					// the body was restructured beyond the ring/exponent subset: the contract does not bind; the bounded replay decided
					nr--
					if !staleRing[f] {
						staleRing[f] = true
						lines = append(lines, fmt.Sprintf("STALE-CONTRACT: %s (ring/exponent contract): %s; bounded replay of the function found no failing input", f, o.Msg))
					}
					continue
				}
				p := writeReplay(rec)
				if len(fails) > 0 {
					lines = append(lines, fmt.Sprintf("VIOLATION property=%s replay=%s obligation=%s input: %s", id, p, o.Name, truncate(fails[0], 300)))
				} else {
					lines = append(lines, fmt.Sprintf("VIOLATION property=%s replay=%s obligation=%s: %s no-failing-input-found", id, p, o.Name, truncate(o.Msg, 200)))
				}
				violations++
			}
		}
		total += nr
		discharged += okr
		solverCount["exact polynomial arithmetic (govc ring/gexp)"] += okr
	}
	// extra deciding commands (e.g. the assembly verifier)
	var extras []map[string]interface{}
	for _, c := range pc.Extra {
		c = strings.ReplaceAll(c, "{repo}", *repo)
		cmd := osexec.Command("sh", "-c", c)
		cmd.Dir = *vdir
		cmd.Env = append(os.Environ(), "VERIF_TIER="+*tier, fmt.Sprintf("VERIF_SEED=%d", seed), "VERIF_PROPERTY="+id)
		var out bytes.Buffer
		cmd.Stdout = &out
		cmd.Stderr = &out
		err := cmd.Run()
		extras = append(extras, map[string]interface{}{"cmd": c, "ok": err == nil})
		for _, l := range strings.Split(out.String(), "\n") {
			if strings.HasPrefix(l, "VIOLATION ") {
				violations++
				lines = append(lines, l)
			} else if strings.HasPrefix(l, "KNOWN-FINDING:") || strings.HasPrefix(l, "EXTRA:") {
				lines = append(lines, l)
			} else if strings.HasPrefix(l, "EXTRA-JSON: ") {
				var sum struct {
					Tool        string                   `json:"tool"`
					Obligations int                      `json:"obligations"`
					Discharged  int                      `json:"discharged"`
					Functions   []string                 `json:"functions"`
					Backend     string                   `json:"backend"`
					Seconds     float64                  `json:"solver_seconds"`
					Samples     []map[string]interface{} `json:"samples"`
					Assumptions []string                 `json:"assumptions"`
				}
				if json.Unmarshal([]byte(l[len("EXTRA-JSON: "):]), &sum) == nil {
					total += sum.Obligations
					discharged += sum.Discharged
					solverCount[sum.Backend] += sum.Discharged
					solverTime[sum.Backend] += sum.Seconds
					extraFuncs = append(extraFuncs, sum.Functions...)
					extraTrusted = append(extraTrusted, sum.Assumptions...)
					for _, sm := range sum.Samples {
						o, _ := sm["obligation"].(string)
						samples = append(samples, map[string]string{"obligation": sum.Tool + ":" + o, "solver": sum.Backend})
					}
					extras[len(extras)-1]["summary"] = json.RawMessage(l[len("EXTRA-JSON: "):])
				}
			}
		}
		if err != nil && !strings.Contains(out.String(), "VIOLATION ") {
			lines = append(lines, fmt.Sprintf("ERROR: extra command failed: %s: %v: %s", c, err, truncate(out.String(), 500)))
			violations++
		}
	}
	if total == 0 && len(pc.Groups) > 0 && len(stale) == 0 {
		lines = append(lines, "ERROR: no obligations were generated (vacuous run)")
		violations++
	}
	for _, l := range lines {
		fmt.Println(l)
	}
	wall := time.Since(t0).Seconds()
	fmt.Printf("property %s tier=%s: %d obligations, %d discharged (%d known findings), %d covers (%d inconclusive), %d undecided, %d stale contracts, %d violations, %.1fs\n",
		id, *tier, total, discharged, known, covers, inconclusive, undecided, len(stale), violations, wall)

	if *writeBaseline {
		var names []string
		seen := map[string]bool{}
		for _, fr := range results {
			for _, o := range fr.rep.Obligs {
				if o.Res.Verdict == Proved && !seen[baseName(o.Name)] {
					seen[baseName(o.Name)] = true
					names = append(names, baseName(o.Name))
				}
			}
		}
		sort.Strings(names)
		os.MkdirAll(filepath.Join(*vdir, "baseline"), 0o755)
		b, _ := json.MarshalIndent(names, "", " ")
		os.WriteFile(filepath.Join(*vdir, "baseline", id+".json"), b, 0o644)
	}

	if !*noEvidence {
		var funcs, inlined, assumed []string
		seenI, seenA := map[string]bool{}, map[string]bool{}
		for _, fr := range results {
			funcs = append(funcs, fr.rep.Key+" ["+archName(fr.arch)+"]")
			for _, i := range fr.rep.Inlined {
				if !seenI[i] {
					seenI[i] = true
					inlined = append(inlined, i)
				}
			}
			for _, a := range fr.rep.Assumed {
				if !seenA[a] {
					seenA[a] = true
					assumed = append(assumed, a)
				}
			}
		}
		sort.Strings(inlined)
		sort.Strings(assumed)
		funcs = append(funcs, extraFuncs...)
		trusted := append([]string{}, pc.Trusted...)
		trusted = append(trusted, extraTrusted...)
		for _, a := range assumed {
			trusted = append(trusted, "assumed contract (not verified): "+a)
		}
		trusted = append(trusted, "VC generator govc (symbolic execution of the typed AST, this repository's /verif/govc) and its models of math/bits, encoding/binary, crypto/subtle",
			"SMT solvers z3 4.8.12, z3 5.1.0, cvc5 1.0.3 (raced; unsat accepted from any one)",
			"go/parser, go/types, golang.org/x/tools/go/packages v0.29.0",
			fmt.Sprintf("slices have at most 2^%d elements (64-bit targets)", maxLenBits),
			"pointer parameters and receivers are non-nil (callers in the library always pass allocated objects)")
		backends := map[string]interface{}{}
		for k, v := range solverCount {
			backends[k] = map[string]interface{}{"discharged": v, "solver_seconds": round2(solverTime[k])}
		}
		cov := map[string]interface{}{
			"obligations": total, "discharged": discharged,
			"checker_cmd":  fmt.Sprintf("/verif/bin/govc check -tier %s %s", *tier, id),
			"trusted_base": trusted,
			"functions_under_contract": funcs,
			"inlined_helpers_verified_in_callers": inlined,
			"backends": backends,
			"covers": map[string]int{"checked": covers, "inconclusive": inconclusive},
			"known_findings_matched": known,
			"undecided_new_obligations": undecided,
			"stale_contracts": len(stale),
			"samples": samples,
			"bounded_standins": bounded,
			"extra_checks": extras,
			"constant_time_analysis": ctInfo,
			"explanation": pc.Explanation,
			"per_obligation_timeout_s": timeout,
		}
		if len(samples) == 0 {
			cov["samples"] = []interface{}{"(no solver-discharged obligation in this run)"}
		}
		if level != "proof" {
			// generic keys for non-proof levels
			cov["evaluations"] = total + len(bounded)
			cov["distinct_nontrivial"] = total
			cov["rule"] = "each obligation is one verification condition (distinct by name); stand-in cases are seeded random/boundary inputs"
		}
		ev := map[string]interface{}{
			"property_id": id, "tier": *tier, "seed": seed, "level": level, "coverage": cov,
			"assumptions": append(append([]string{}, pc.Assumes...), trusted...), "wall_s": round2(wall), "violations": violations,
		}
		os.MkdirAll(filepath.Join(*vdir, "evidence"), 0o755)
		b, _ := json.MarshalIndent(ev, "", " ")
		os.WriteFile(filepath.Join(*vdir, "evidence", id+".json"), b, 0o644)
	}
	if violations > 0 {
		os.RemoveAll(workDir)
		os.Exit(1)
	}
}

func round2(f float64) float64 { return float64(int(f*100)) / 100 }

func archName(a string) string {
	if a == "" {
		return "amd64"
	}
	return a
}

func matchFinding(fs []Finding, id, name string) *Finding {
	for i := range fs {
		if fs[i].Property == id && fs[i].Pattern.MatchString(name) {
			return &fs[i]
		}
	}
	return nil
}

// replayTarget maps a function key to (package dir, case name) of the replay tests.
func replayTarget(pc *PropConfig, fn string) (string, string) {
	// "(*sm2/internal/fiat.SM2Element).Add" -> pkg sm2/internal/fiat, case SM2Element.Add
	// "sm2/internal/fiat.sm2Mul"            -> pkg sm2/internal/fiat, case sm2Mul
	s := fn
	recv := ""
	if strings.HasPrefix(s, "(") {
		i := strings.Index(s, ")")
		recv = strings.TrimPrefix(s[1:i], "*")
		meth := s[i+2:]
		j := strings.LastIndex(recv, ".")
		return recv[:j], recv[j+1:] + "." + meth
	}
	j := strings.LastIndex(s, ".")
	if j < 0 {
		return "", ""
	}
	return s[:j], s[j+1:]
}

var caseRe = regexp.MustCompile(`case=(\S+)`)

func replayCase(line string) string {
	if m := caseRe.FindStringSubmatch(line); m != nil {
		return m[1]
	}
	return "?"
}

// runReplayCases runs the differential replay tests of one package against the real code.
func runReplayCases(vdir, repo, pkg, cases string, seed int64, n int) (fails []string, ok int) {
	script := filepath.Join(vdir, "replay", "run.sh")
	if _, err := os.Stat(script); err != nil {
		return nil, 0
	}
	cmd := osexec.Command(script, pkg, repo)
	cmd.Env = append(os.Environ(), "VERIF_FUNCS="+cases, fmt.Sprintf("VERIF_SEED=%d", seed), fmt.Sprintf("VERIF_N=%d", n))
	var out bytes.Buffer
	cmd.Stdout = &out
	cmd.Stderr = &out
	cmd.Run()
	for _, l := range strings.Split(out.String(), "\n") {
		if i := strings.Index(l, "REPLAY-FAIL"); i >= 0 {
			fails = append(fails, l[i:])
		}
		if strings.Contains(l, "REPLAY-OK") {
			ok++
		}
	}
	return
}
