package main

// Term layer: hash-consed SMT terms with simplifying constructors.
// Sorts: Bool, BitVec(w), Int, Array(idx, elem).  Int-sorted terms are kept
// in polynomial normal form (see poly.go).

import (
	"fmt"
	"math/big"
	"sort"
	"strings"
)

type Kind int

const (
	KBool Kind = iota
	KBV
	KInt
	KArr
)

type Sort struct {
	K         Kind
	W         int
	Idx, Elem *Sort
	ElemLo, ElemHi *big.Int // Int-element arrays: range of every element (Go element type)
}

var sortTab = map[string]*Sort{}

func mkSort(k Kind, w int, idx, elem *Sort) *Sort {
	key := fmt.Sprintf("%d/%d/%p/%p", k, w, idx, elem)
	if s, ok := sortTab[key]; ok {
		return s
	}
	s := &Sort{K: k, W: w, Idx: idx, Elem: elem}
	sortTab[key] = s
	return s
}

var BoolSort = mkSort(KBool, 0, nil, nil)
var IntSort = mkSort(KInt, 0, nil, nil)

func BVSort(w int) *Sort          { return mkSort(KBV, w, nil, nil) }
func ArrSort(idx, el *Sort) *Sort { return mkSort(KArr, 0, idx, el) }

// ArrSortR is an array sort whose (Int) elements are known to lie in [lo,hi].
func ArrSortR(idx, el *Sort, lo, hi *big.Int) *Sort {
	key := fmt.Sprintf("R/%p/%p/%s/%s", idx, el, lo, hi)
	if s, ok := sortTab[key]; ok {
		return s
	}
	s := &Sort{K: KArr, Idx: idx, Elem: el, ElemLo: lo, ElemHi: hi}
	sortTab[key] = s
	return s
}

func (s *Sort) String() string {
	switch s.K {
	case KBool:
		return "Bool"
	case KInt:
		return "Int"
	case KBV:
		return fmt.Sprintf("(_ BitVec %d)", s.W)
	default:
		return fmt.Sprintf("(Array %s %s)", s.Idx, s.Elem)
	}
}

type Term struct {
	Op    string
	Args  []*Term
	Sort  *Sort
	Val   *big.Int // constants (bv, int); bool const uses Op true/false
	Name  string   // var, uf, bound var
	P1    int      // extract hi / extend amount
	P2    int      // extract lo
	Poly  *Poly    // Op == "poly"
	Bound []*Term  // quantifier bound variables
	id    int
}

var termTab = map[string]*Term{}
var termCount int

func intern(t *Term) *Term {
	var sb strings.Builder
	sb.WriteString(t.Op)
	sb.WriteByte('|')
	sb.WriteString(t.Sort.String())
	sb.WriteByte('|')
	if t.Val != nil {
		sb.WriteString(t.Val.String())
	}
	sb.WriteByte('|')
	sb.WriteString(t.Name)
	fmt.Fprintf(&sb, "|%d|%d", t.P1, t.P2)
	for _, a := range t.Args {
		fmt.Fprintf(&sb, ",%d", a.id)
	}
	for _, a := range t.Bound {
		fmt.Fprintf(&sb, ";%d", a.id)
	}
	if t.Poly != nil {
		sb.WriteString(t.Poly.key())
	}
	k := sb.String()
	if e, ok := termTab[k]; ok {
		return e
	}
	termCount++
	t.id = termCount
	termTab[k] = t
	return t
}

var True = intern(&Term{Op: "true", Sort: BoolSort})
var False = intern(&Term{Op: "false", Sort: BoolSort})

func BoolC(b bool) *Term {
	if b {
		return True
	}
	return False
}

func (t *Term) IsConst() bool {
	return t.Op == "bvconst" || t.Op == "intconst" || t.Op == "true" || t.Op == "false"
}
func (t *Term) IsTrue() bool  { return t == True }
func (t *Term) IsFalse() bool { return t == False }

func mask(w int) *big.Int {
	m := new(big.Int).Lsh(big.NewInt(1), uint(w))
	return m.Sub(m, big.NewInt(1))
}

func BVC(w int, v *big.Int) *Term {
	x := new(big.Int).And(v, mask(w)) // two's complement wrap for negatives
	if v.Sign() < 0 {
		m := new(big.Int).Lsh(big.NewInt(1), uint(w))
		x = new(big.Int).Mod(v, m)
	}
	return intern(&Term{Op: "bvconst", Sort: BVSort(w), Val: x})
}
func BVC64(w int, v int64) *Term { return BVC(w, big.NewInt(v)) }
func BVCu(w int, v uint64) *Term { return BVC(w, new(big.Int).SetUint64(v)) }

func Var(name string, s *Sort) *Term {
	return intern(&Term{Op: "var", Name: name, Sort: s})
}

var freshCounter = map[string]int{}

// freshSerial orders fresh variables by creation time (used to recognise the variables
// introduced by one contract application).
var freshSerial int
var freshBorn = map[*Term]int{}

func Fresh(prefix string, s *Sort) *Term {
	prefix = sanitize(prefix)
	freshCounter[prefix]++
	v := Var(fmt.Sprintf("%s!%d", prefix, freshCounter[prefix]), s)
	freshSerial++
	freshBorn[v] = freshSerial
	return v
}

// occurs reports whether v occurs in t.
func occurs(v, t *Term) bool {
	seen := map[*Term]bool{}
	var rec func(t *Term) bool
	rec = func(t *Term) bool {
		if t == v {
			return true
		}
		if seen[t] {
			return false
		}
		seen[t] = true
		for _, a := range t.Args {
			if rec(a) {
				return true
			}
		}
		if t.Op == "poly" {
			for _, a := range t.Poly.atoms() {
				if rec(a) {
					return true
				}
			}
		}
		return false
	}
	return rec(t)
}

func sanitize(s string) string {
	var sb strings.Builder
	for _, r := range s {
		if r >= 'a' && r <= 'z' || r >= 'A' && r <= 'Z' || r >= '0' && r <= '9' || r == '_' || r == '.' || r == '!' || r == '$' {
			sb.WriteRune(r)
		} else {
			sb.WriteByte('_')
		}
	}
	return sb.String()
}

// BoundVar creates a quantifier-bound variable.
func BoundVar(name string, s *Sort) *Term {
	return intern(&Term{Op: "bound", Name: name, Sort: s})
}

// UF application.  Result sort given; uninterpreted function is identified by name.
func UF(name string, res *Sort, args ...*Term) *Term {
	return intern(&Term{Op: "uf", Name: name, Sort: res, Args: args})
}

func signedVal(t *Term) *big.Int {
	w := t.Sort.W
	v := new(big.Int).Set(t.Val)
	if v.Bit(w-1) == 1 {
		v.Sub(v, new(big.Int).Lsh(big.NewInt(1), uint(w)))
	}
	return v
}

func mk(op string, s *Sort, args ...*Term) *Term {
	return intern(&Term{Op: op, Sort: s, Args: args})
}

// ---------- boolean connectives ----------

func Not(a *Term) *Term {
	switch {
	case a == True:
		return False
	case a == False:
		return True
	case a.Op == "not":
		return a.Args[0]
	case a.Op == "or":
		ns := make([]*Term, len(a.Args))
		for i, x := range a.Args {
			ns[i] = Not(x)
		}
		return And(ns...)
	}
	return mk("not", BoolSort, a)
}

func And(as ...*Term) *Term {
	var out []*Term
	seen := map[int]bool{}
	var add func(t *Term) bool
	add = func(t *Term) bool {
		if t == False {
			return false
		}
		if t == True || seen[t.id] {
			return true
		}
		if t.Op == "and" {
			for _, x := range t.Args {
				if !add(x) {
					return false
				}
			}
			return true
		}
		seen[t.id] = true
		out = append(out, t)
		return true
	}
	for _, a := range as {
		if !add(a) {
			return False
		}
	}
	for _, o := range out {
		if o.Op == "not" && seen[o.Args[0].id] {
			return False
		}
	}
	if len(out) == 0 {
		return True
	}
	if len(out) == 1 {
		return out[0]
	}
	return mk("and", BoolSort, out...)
}

func Or(as ...*Term) *Term {
	var out []*Term
	seen := map[int]bool{}
	var add func(t *Term) bool
	add = func(t *Term) bool {
		if t == True {
			return false
		}
		if t == False || seen[t.id] {
			return true
		}
		if t.Op == "or" {
			for _, x := range t.Args {
				if !add(x) {
					return false
				}
			}
			return true
		}
		seen[t.id] = true
		out = append(out, t)
		return true
	}
	for _, a := range as {
		if !add(a) {
			return True
		}
	}
	for _, o := range out {
		if o.Op == "not" && seen[o.Args[0].id] {
			return True
		}
	}
	if len(out) == 0 {
		return False
	}
	if len(out) == 1 {
		return out[0]
	}
	return mk("or", BoolSort, out...)
}

func Implies(a, b *Term) *Term {
	if a == True {
		return b
	}
	if a == False || b == True {
		return True
	}
	if b == False {
		return Not(a)
	}
	if a == b {
		return True
	}
	return mk("=>", BoolSort, a, b)
}

func Iff(a, b *Term) *Term { return Eq(a, b) }

func Eq(a, b *Term) *Term {
	if a == b {
		return True
	}
	if a.Sort != b.Sort {
		panic(fmt.Sprintf("Eq: sort mismatch %s vs %s (%s, %s)", a.Sort, b.Sort, a, b))
	}
	if a.IsConst() && b.IsConst() {
		if a.Sort.K == KBool {
			return BoolC(a == b)
		}
		return BoolC(a.Val.Cmp(b.Val) == 0)
	}
	if a.Sort.K == KBool {
		if a == True {
			return b
		}
		if b == True {
			return a
		}
		if a == False {
			return Not(b)
		}
		if b == False {
			return Not(a)
		}
	}
	if a.Sort.K == KInt {
		d := polySub(polyOf(a), polyOf(b))
		if c, ok := d.constant(); ok {
			return BoolC(c.Sign() == 0)
		}
	}
	if a.id > b.id {
		a, b = b, a
	}
	return mk("=", BoolSort, a, b)
}

func Ite(c, a, b *Term) *Term {
	if c == True {
		return a
	}
	if c == False {
		return b
	}
	if a == b {
		return a
	}
	if a.Sort != b.Sort {
		panic(fmt.Sprintf("Ite: sort mismatch %s vs %s", a.Sort, b.Sort))
	}
	if a.Sort.K == KBool {
		if a == True && b == False {
			return c
		}
		if a == False && b == True {
			return Not(c)
		}
		if a == True {
			return Or(c, b)
		}
		if b == False {
			return And(c, a)
		}
		if a == False {
			return And(Not(c), b)
		}
		if b == True {
			return Or(Not(c), a)
		}
	}
	if c.Op == "not" {
		return Ite(c.Args[0], b, a)
	}
	return mk("ite", a.Sort, c, a, b)
}

// ---------- bit-vector ops ----------

func bvbin(op string, a, b *Term) *Term {
	if a.Sort != b.Sort || a.Sort.K != KBV {
		panic(fmt.Sprintf("%s: sort mismatch %s vs %s", op, a.Sort, b.Sort))
	}
	w := a.Sort.W
	if a.IsConst() && b.IsConst() {
		x, y := a.Val, b.Val
		r := new(big.Int)
		switch op {
		case "bvadd":
			r.Add(x, y)
		case "bvsub":
			r.Sub(x, y)
		case "bvmul":
			r.Mul(x, y)
		case "bvand":
			r.And(x, y)
		case "bvor":
			r.Or(x, y)
		case "bvxor":
			r.Xor(x, y)
		case "bvudiv":
			if y.Sign() == 0 {
				r = mask(w)
			} else {
				r.Div(x, y)
			}
		case "bvurem":
			if y.Sign() == 0 {
				r.Set(x)
			} else {
				r.Mod(x, y)
			}
		case "bvsdiv":
			sx, sy := signedVal(a), signedVal(b)
			if sy.Sign() == 0 {
				if sx.Sign() < 0 {
					r.SetInt64(1)
				} else {
					r = mask(w)
				}
			} else {
				r.Quo(sx, sy)
			}
		case "bvsrem":
			sx, sy := signedVal(a), signedVal(b)
			if sy.Sign() == 0 {
				r.Set(sx)
			} else {
				r.Rem(sx, sy)
			}
		case "bvshl":
			if y.Cmp(big.NewInt(int64(w))) >= 0 {
				r.SetInt64(0)
			} else {
				r.Lsh(x, uint(y.Int64()))
			}
		case "bvlshr":
			if y.Cmp(big.NewInt(int64(w))) >= 0 {
				r.SetInt64(0)
			} else {
				r.Rsh(x, uint(y.Int64()))
			}
		case "bvashr":
			sx := signedVal(a)
			if y.Cmp(big.NewInt(int64(w))) >= 0 {
				if sx.Sign() < 0 {
					r.SetInt64(-1)
				} else {
					r.SetInt64(0)
				}
			} else {
				r.Rsh(sx, uint(y.Int64()))
			}
		default:
			panic(op)
		}
		return BVC(w, r)
	}
	zero := func(t *Term) bool { return t.IsConst() && t.Val.Sign() == 0 }
	ones := func(t *Term) bool { return t.IsConst() && t.Val.Cmp(mask(w)) == 0 }
	switch op {
	case "bvadd":
		if zero(a) {
			return b
		}
		if zero(b) {
			return a
		}
	case "bvsub":
		if zero(b) {
			return a
		}
		if a == b {
			return BVC64(w, 0)
		}
	case "bvmul":
		if zero(a) || zero(b) {
			return BVC64(w, 0)
		}
		if a.IsConst() && a.Val.Cmp(big.NewInt(1)) == 0 {
			return b
		}
		if b.IsConst() && b.Val.Cmp(big.NewInt(1)) == 0 {
			return a
		}
	case "bvand":
		if zero(a) || zero(b) {
			return BVC64(w, 0)
		}
		if ones(a) {
			return b
		}
		if ones(b) || a == b {
			return a
		}
	case "bvor":
		if zero(a) {
			return b
		}
		if zero(b) || a == b {
			return a
		}
		if ones(a) || ones(b) {
			return BVC(w, mask(w))
		}
	case "bvxor":
		if zero(a) {
			return b
		}
		if zero(b) {
			return a
		}
		if a == b {
			return BVC64(w, 0)
		}
	case "bvshl", "bvlshr", "bvashr":
		if zero(b) {
			return a
		}
		if zero(a) {
			return a
		}
		if b.IsConst() && b.Val.Cmp(big.NewInt(int64(w))) >= 0 && op != "bvashr" {
			return BVC64(w, 0)
		}
	}
	// operands keep their source order: specifications written in the order of the standard
	// then stay structurally close to the code, which the solvers' rewriters exploit
	return mk(op, a.Sort, a, b)
}

func BVAdd(a, b *Term) *Term  { return bvbin("bvadd", a, b) }
func BVSub(a, b *Term) *Term  { return bvbin("bvsub", a, b) }
func BVMul(a, b *Term) *Term  { return bvbin("bvmul", a, b) }
func BVAnd(a, b *Term) *Term  { return bvbin("bvand", a, b) }
func BVOr(a, b *Term) *Term   { return bvbin("bvor", a, b) }
func BVXor(a, b *Term) *Term  { return bvbin("bvxor", a, b) }
func BVShl(a, b *Term) *Term  { return bvbin("bvshl", a, b) }
func BVLshr(a, b *Term) *Term { return bvbin("bvlshr", a, b) }
func BVAshr(a, b *Term) *Term { return bvbin("bvashr", a, b) }
func BVUdiv(a, b *Term) *Term { return bvbin("bvudiv", a, b) }
func BVUrem(a, b *Term) *Term { return bvbin("bvurem", a, b) }
func BVSdiv(a, b *Term) *Term { return bvbin("bvsdiv", a, b) }
func BVSrem(a, b *Term) *Term { return bvbin("bvsrem", a, b) }

func BVNot(a *Term) *Term {
	if a.IsConst() {
		return BVC(a.Sort.W, new(big.Int).Xor(a.Val, mask(a.Sort.W)))
	}
	if a.Op == "bvnot" {
		return a.Args[0]
	}
	return mk("bvnot", a.Sort, a)
}

func BVNeg(a *Term) *Term {
	if a.IsConst() {
		return BVC(a.Sort.W, new(big.Int).Neg(a.Val))
	}
	return mk("bvneg", a.Sort, a)
}

func bvcmp(op string, a, b *Term) *Term {
	if a.Sort != b.Sort || a.Sort.K != KBV {
		panic(fmt.Sprintf("%s: sort mismatch %s vs %s", op, a.Sort, b.Sort))
	}
	if a.IsConst() && b.IsConst() {
		var c int
		if op == "bvult" || op == "bvule" {
			c = a.Val.Cmp(b.Val)
		} else {
			c = signedVal(a).Cmp(signedVal(b))
		}
		if op == "bvult" || op == "bvslt" {
			return BoolC(c < 0)
		}
		return BoolC(c <= 0)
	}
	if a == b {
		return BoolC(op == "bvule" || op == "bvsle")
	}
	if op == "bvult" && b.IsConst() && b.Val.Sign() == 0 {
		return False
	}
	if op == "bvule" && a.IsConst() && a.Val.Sign() == 0 {
		return True
	}
	return mk(op, BoolSort, a, b)
}

func BVUlt(a, b *Term) *Term { return bvcmp("bvult", a, b) }
func BVUle(a, b *Term) *Term { return bvcmp("bvule", a, b) }
func BVSlt(a, b *Term) *Term { return bvcmp("bvslt", a, b) }
func BVSle(a, b *Term) *Term { return bvcmp("bvsle", a, b) }

func Extract(hi, lo int, a *Term) *Term {
	w := a.Sort.W
	if lo == 0 && hi == w-1 {
		return a
	}
	if hi >= w || lo < 0 || hi < lo {
		panic(fmt.Sprintf("extract %d %d of width %d", hi, lo, w))
	}
	if a.IsConst() {
		v := new(big.Int).Rsh(a.Val, uint(lo))
		return BVC(hi-lo+1, v)
	}
	switch a.Op {
	case "extract":
		return Extract(hi+a.P2, lo+a.P2, a.Args[0])
	case "zext":
		iw := a.Args[0].Sort.W
		if hi < iw {
			return Extract(hi, lo, a.Args[0])
		}
		if lo >= iw {
			return BVC64(hi-lo+1, 0)
		}
	case "sext":
		iw := a.Args[0].Sort.W
		if hi < iw {
			return Extract(hi, lo, a.Args[0])
		}
	case "concat":
		lw := a.Args[1].Sort.W
		if hi < lw {
			return Extract(hi, lo, a.Args[1])
		}
		if lo >= lw {
			return Extract(hi-lw, lo-lw, a.Args[0])
		}
	}
	return intern(&Term{Op: "extract", Sort: BVSort(hi - lo + 1), Args: []*Term{a}, P1: hi, P2: lo})
}

func ZExt(w int, a *Term) *Term {
	iw := a.Sort.W
	if w == iw {
		return a
	}
	if w < iw {
		return Extract(w-1, 0, a)
	}
	if a.IsConst() {
		return BVC(w, a.Val)
	}
	if a.Op == "zext" {
		return ZExt(w, a.Args[0])
	}
	return intern(&Term{Op: "zext", Sort: BVSort(w), Args: []*Term{a}, P1: w - iw})
}

func SExt(w int, a *Term) *Term {
	iw := a.Sort.W
	if w == iw {
		return a
	}
	if w < iw {
		return Extract(w-1, 0, a)
	}
	if a.IsConst() {
		return BVC(w, signedVal(a))
	}
	return intern(&Term{Op: "sext", Sort: BVSort(w), Args: []*Term{a}, P1: w - iw})
}

func Concat(hi, lo *Term) *Term {
	if hi.IsConst() && lo.IsConst() {
		v := new(big.Int).Lsh(hi.Val, uint(lo.Sort.W))
		v.Or(v, lo.Val)
		return BVC(hi.Sort.W+lo.Sort.W, v)
	}
	// concat(extract(h,m+1,x), extract(m,l,x)) = extract(h,l,x)
	if hi.Op == "extract" && lo.Op == "extract" && hi.Args[0] == lo.Args[0] && hi.P2 == lo.P1+1 {
		return Extract(hi.P1, lo.P2, hi.Args[0])
	}
	return mk("concat", BVSort(hi.Sort.W+lo.Sort.W), hi, lo)
}

// ---------- arrays ----------

func ConstArr(s *Sort, v *Term) *Term {
	return intern(&Term{Op: "constarr", Sort: s, Args: []*Term{v}})
}

func distinctConsts(a, b *Term) bool {
	if a.IsConst() && b.IsConst() {
		return a.Val.Cmp(b.Val) != 0
	}
	if a.Sort.K == KInt {
		d := polySub(polyOf(a), polyOf(b))
		if c, ok := d.constant(); ok {
			return c.Sign() != 0
		}
	}
	if a.Sort.K == KBV {
		// x + c1 vs x + c2
		ba, ca := splitAddConst(a)
		bb, cb := splitAddConst(b)
		if ba == bb && ca.Cmp(cb) != 0 {
			return true
		}
	}
	return false
}

func splitAddConst(a *Term) (*Term, *big.Int) {
	if a.Op == "bvadd" {
		if a.Args[0].IsConst() {
			return a.Args[1], a.Args[0].Val
		}
		if a.Args[1].IsConst() {
			return a.Args[0], a.Args[1].Val
		}
	}
	if a.IsConst() {
		return nil, a.Val
	}
	return a, big.NewInt(0)
}

func Select(arr, idx *Term) *Term {
	if arr.Sort.K != KArr {
		panic("select on non-array " + arr.String())
	}
	if arr.Sort.Idx != idx.Sort {
		panic(fmt.Sprintf("select: index sort %s, want %s", idx.Sort, arr.Sort.Idx))
	}
	cur := arr
	for {
		switch cur.Op {
		case "store":
			if cur.Args[1] == idx {
				return cur.Args[2]
			}
			if distinctConsts(cur.Args[1], idx) {
				cur = cur.Args[0]
				continue
			}
		case "constarr":
			return cur.Args[0]
		}
		break
	}
	r := mk("select", arr.Sort.Elem, cur, idx)
	if arr.Sort.ElemLo != nil {
		SetRange(r, arr.Sort.ElemLo, arr.Sort.ElemHi)
	}
	return r
}

func Store(arr, idx, v *Term) *Term {
	if arr.Sort.Idx != idx.Sort || arr.Sort.Elem != v.Sort {
		panic(fmt.Sprintf("store: sorts %s [%s] := %s", arr.Sort, idx.Sort, v.Sort))
	}
	// overwrite of same index directly on top
	if arr.Op == "store" && arr.Args[1] == idx {
		return Store(arr.Args[0], idx, v)
	}
	// writing back what is there
	if v.Op == "select" && v.Args[0] == arr && v.Args[1] == idx {
		return arr
	}
	// keep constant-index stores sorted so equal contents give equal terms
	if arr.Op == "store" && idx.IsConst() && arr.Args[1].IsConst() && arr.Args[1].Val.Cmp(idx.Val) > 0 {
		return Store(Store(arr.Args[0], idx, v), arr.Args[1], arr.Args[2])
	}
	return mk("store", arr.Sort, arr, idx, v)
}

// ---------- quantifiers ----------

func Forall(bound []*Term, body *Term) *Term {
	if body == True || body == False {
		return body
	}
	return intern(&Term{Op: "forall", Sort: BoolSort, Args: []*Term{body}, Bound: bound})
}
func Exists(bound []*Term, body *Term) *Term {
	if body == True || body == False {
		return body
	}
	return intern(&Term{Op: "exists", Sort: BoolSort, Args: []*Term{body}, Bound: bound})
}

// ---------- substitution / traversal ----------

func Subst(t *Term, m map[*Term]*Term) *Term {
	cache := map[*Term]*Term{}
	var rec func(t *Term) *Term
	rec = func(t *Term) *Term {
		if r, ok := m[t]; ok {
			return r
		}
		if r, ok := cache[t]; ok {
			return r
		}
		var r *Term
		if t.Op == "poly" {
			r = t.Poly.substTerm(rec)
		} else if len(t.Args) == 0 {
			r = t
		} else {
			args := make([]*Term, len(t.Args))
			ch := false
			for i, a := range t.Args {
				args[i] = rec(a)
				if args[i] != a {
					ch = true
				}
			}
			if !ch {
				r = t
			} else {
				r = rebuild(t, args)
			}
		}
		cache[t] = r
		return r
	}
	return rec(t)
}

func rebuild(t *Term, args []*Term) *Term {
	switch t.Op {
	case "not":
		return Not(args[0])
	case "and":
		return And(args...)
	case "or":
		return Or(args...)
	case "=>":
		return Implies(args[0], args[1])
	case "=":
		return Eq(args[0], args[1])
	case "ite":
		return Ite(args[0], args[1], args[2])
	case "bvadd", "bvsub", "bvmul", "bvand", "bvor", "bvxor", "bvshl", "bvlshr", "bvashr", "bvudiv", "bvurem", "bvsdiv", "bvsrem":
		return bvbin(t.Op, args[0], args[1])
	case "bvnot":
		return BVNot(args[0])
	case "bvneg":
		return BVNeg(args[0])
	case "bvult", "bvule", "bvslt", "bvsle":
		return bvcmp(t.Op, args[0], args[1])
	case "extract":
		return Extract(t.P1, t.P2, args[0])
	case "zext":
		return ZExt(t.Sort.W, args[0])
	case "sext":
		return SExt(t.Sort.W, args[0])
	case "concat":
		return Concat(args[0], args[1])
	case "select":
		return Select(args[0], args[1])
	case "store":
		return Store(args[0], args[1], args[2])
	case "constarr":
		return ConstArr(t.Sort, args[0])
	case "uf":
		return UF(t.Name, t.Sort, args...)
	case "forall":
		return Forall(t.Bound, args[0])
	case "exists":
		return Exists(t.Bound, args[0])
	case "<=":
		return IntLe(args[0], args[1])
	case "<":
		return IntLt(args[0], args[1])
	case "div":
		return IntDiv(args[0], args[1])
	case "mod":
		return IntMod(args[0], args[1])
	}
	panic("rebuild: " + t.Op)
}

// FreeVars collects var and uf symbols (by name) occurring in t.
func collectSyms(t *Term, vars map[string]*Term, ufs map[string]*Term, seen map[*Term]bool) {
	if seen[t] {
		return
	}
	seen[t] = true
	switch t.Op {
	case "var":
		vars[t.Name] = t
	case "uf":
		if _, ok := ufs[t.Name]; !ok {
			ufs[t.Name] = t
		}
	case "poly":
		for _, a := range t.Poly.atoms() {
			collectSyms(a, vars, ufs, seen)
		}
	}
	for _, a := range t.Args {
		collectSyms(a, vars, ufs, seen)
	}
}

// String prints a bounded rendering (terms are DAGs: an unbounded tree print can be exponential).
func (t *Term) String() string {
	var sb strings.Builder
	var rec func(t *Term, depth int)
	rec = func(t *Term, depth int) {
		if sb.Len() > 600 {
			return
		}
		if depth > 7 {
			sb.WriteString("..")
			return
		}
		switch t.Op {
		case "true", "false", "bvconst", "intconst", "var", "bound":
			printTerm(&sb, t, nil)
			return
		case "poly":
			sb.WriteString("(poly")
			for i, m := range t.Poly.ms {
				if i > 6 {
					sb.WriteString(" ..")
					break
				}
				sb.WriteString(" " + m.coef.String())
				for _, a := range m.atoms {
					sb.WriteString("*")
					rec(a, depth+1)
				}
			}
			sb.WriteString(")")
			return
		}
		name := t.Op
		if t.Op == "uf" {
			name = t.Name
		}
		sb.WriteString("(" + name)
		for _, a := range t.Args {
			sb.WriteString(" ")
			rec(a, depth+1)
		}
		sb.WriteString(")")
	}
	rec(t, 0)
	s := sb.String()
	if len(s) > 400 {
		return s[:400] + "..."
	}
	return s
}

func sortedKeys(m map[string]*Term) []string {
	ks := make([]string, 0, len(m))
	for k := range m {
		ks = append(ks, k)
	}
	sort.Strings(ks)
	return ks
}
