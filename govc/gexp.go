package main

// Exponent contracts for scalar multiplication (property C14): `<function>#gexp`.
//
// The body of a multiplier is executed by a small interpreter in which
//   - integers, booleans and loop counters are concrete (the scheme parameters are constants of the call),
//   - the scalar is 256 symbolic bits k0..k255 (a byte of a range loop: 8 symbolic bits b0..b7),
//   - a point is a polynomial over Z in those symbols: its discrete logarithm with respect to the base (G or P),
//   - the meaning of each callee comes from its contract: NewSM2Point = 0, Double = 2e, Add = e1+e2, Set = copy,
//     extractHigherBits/extractLowerBits = the stated bits (proved, bit-vector contracts), selection from a table =
//     sum_t bit_t * weight_t when the table is linear in the window bits.
// Clauses:
//   gexp_scalar k                          the 32-byte scalar parameter (bits k0..k255, big endian)
//   gexp_call f(k, &T1, &T2, 6, 3, 14, 4)  (optional) the function is a thin wrapper: evaluate this call instead
//   gexp_table T dims=j window=6 weight=42*t+14*j+4    table T[j][*][v-1] = [sum_t v_t 2^weight]G  (lemma: C18 enumerates it)
//   gexp_table T window=4 weight=t         table T[*][v-1] = [sum_t v_t 2^t]G
//   gexp_out == scalar                     the returned point is [value of the scalar]Base
//   gexp_loop byte                         the body contains `for _, b := range <scalar>`: proved by induction
//                                          (ret = E before an iteration implies ret = 256 E + b after it)
// The obligation gexp:<function> holds when the polynomial of the returned point equals sum_j k_j 2^j
// (for the induction form: base case 0 and the step identity), by exact polynomial normal form.

import (
	"fmt"
	"go/ast"
	"go/constant"
	"go/token"
	"go/types"
	"math/big"
	"strconv"
	"strings"
)

type gPoint struct{ e *Poly }
type gBits struct{ b []*Poly } // little-endian bits, each a polynomial that takes values 0/1 (a symbol or 0)
type gTable struct {
	name string
	idx  []int64
}
type gScalar struct{}
type gByteSlice struct{ what string }
type gNil struct{}
type gArr struct{ e []interface{} }
type gPtr struct{ to *interface{} }

type gTableSpec struct {
	dims   int
	window int
	weight ast.Expr
}

type gDigit struct {
	name string
	idx  int
}
type gSelIndex struct{ bits *gBits }           // bits - 1 used as a table index
type gEntry struct {                           // coordinate array of the table entry selected by bits (bits >= 1)
	t     *gTable
	coord int64
	bits  *gBits
}
type gBitsNonzero struct{ bits *gBits }        // the condition bits > 0 / bits != 0
type gZeroIff struct {                         // a boolean that is true exactly when all the named symbols are zero
	z   map[string]bool
	neg bool
}

type gexpFail struct{ msg string }
type gexpWrong struct{ msg string } // the body is understood and does not compute the stated multiple

type gInterp struct {
	eng    *Engine
	tables map[string]*gTableSpec
	syms   map[string]*Term
	depth  int
	steps  int
	nafWidth int64
	nafDigits int
	byteLoop bool // a range loop over the scalar was proved by induction: the expected result is [V]Base
}

func (gi *gInterp) sym(n string) *Poly {
	t := gi.syms[n]
	if t == nil {
		t = Var("gexp$"+n, IntSort)
		gi.syms[n] = t
	}
	return polyOf(t)
}

func (gi *gInterp) fail(format string, a ...interface{}) {
	panic(gexpFail{fmt.Sprintf(format, a...)})
}

type gFrame struct {
	gi     *gInterp
	fi     *FuncInfo
	info   *types.Info
	vars   map[types.Object]*interface{}
	ret    []interface{}
	done   bool
	brk    bool
	cont   bool
	scalar types.Object
	condSyms []map[string]bool // symbols of the enclosing `if bits > 0` tests
}

func (f *gFrame) pos(p token.Pos) string {
	ps := f.fi.Pkg.Fset.Position(p)
	return fmt.Sprintf("%s:%d", ps.Filename[strings.LastIndex(ps.Filename, "/")+1:], ps.Line)
}

func zeroPoly() *Poly { return polyConst(big.NewInt(0)) }

func (f *gFrame) lookup(id *ast.Ident) *interface{} {
	o := f.info.Uses[id]
	if o == nil {
		o = f.info.Defs[id]
	}
	if o == nil {
		f.gi.fail("%s: unresolved identifier %s", f.pos(id.Pos()), id.Name)
	}
	if c, ok := o.(*types.Const); ok {
		var v interface{}
		switch c.Val().Kind() {
		case constant.Int:
			n, _ := constant.Int64Val(c.Val())
			v = n
		case constant.Bool:
			v = constant.BoolVal(c.Val())
		default:
			f.gi.fail("%s: constant %s of unsupported kind", f.pos(id.Pos()), id.Name)
		}
		return &v
	}
	if p, ok := f.vars[o]; ok {
		return p
	}
	if isPkgLevel(o) {
		if _, ok := f.gi.tables[o.Name()]; ok {
			var v interface{} = &gTable{name: o.Name()}
			return &v
		}
		f.gi.fail("%s: package-level variable %s is not a declared table", f.pos(id.Pos()), id.Name)
	}
	if id.Name == "nil" {
		var v interface{} = gNil{}
		return &v
	}
	if id.Name == "true" || id.Name == "false" {
		var v interface{} = id.Name == "true"
		return &v
	}
	f.gi.fail("%s: variable %s has no value", f.pos(id.Pos()), id.Name)
	return nil
}

func (f *gFrame) eval(e ast.Expr) interface{} {
	if tv, ok := f.info.Types[e]; ok && tv.Value != nil {
		switch tv.Value.Kind() {
		case constant.Int:
			n, ok := constant.Int64Val(tv.Value)
			if ok {
				return n
			}
		case constant.Bool:
			return constant.BoolVal(tv.Value)
		case constant.String:
			return constant.StringVal(tv.Value)
		}
	}
	switch x := e.(type) {
	case *ast.ParenExpr:
		return f.eval(x.X)
	case *ast.Ident:
		return *f.lookup(x)
	case *ast.BasicLit:
		if x.Kind == token.INT {
			n, _ := strconv.ParseInt(x.Value, 0, 64)
			return n
		}
		return x.Value
	case *ast.UnaryExpr:
		switch x.Op {
		case token.NOT:
			v := f.eval(x.X)
			if z, ok := v.(*gZeroIff); ok {
				return &gZeroIff{z: z.z, neg: !z.neg}
			}
			b, ok := v.(bool)
			if !ok {
				f.gi.fail("%s: ! of a symbolic condition", f.pos(x.Pos()))
			}
			return !b
		case token.SUB:
			return -f.eval(x.X).(int64)
		case token.AND:
			// &v, &(*first)[j], &table
			switch y := unparen(x.X).(type) {
			case *ast.Ident:
				return &gPtr{f.lookup(y)}
			default:
				v := f.eval(x.X)
				return &gPtr{&v}
			}
		}
	case *ast.StarExpr:
		v := f.eval(x.X)
		if p, ok := v.(*gPtr); ok {
			return *p.to
		}
		return v
	case *ast.BinaryExpr:
		l, r := f.eval(x.X), f.eval(x.Y)
		if lb, ok := l.(*gBits); ok {
			n, ok2 := r.(int64)
			if !ok2 {
				f.gi.fail("%s: operation %s on symbolic bits with a non-constant operand", f.pos(x.Pos()), x.Op)
			}
			switch x.Op {
			case token.SHR:
				if int(n) >= len(lb.b) {
					return &gBits{}
				}
				return &gBits{append([]*Poly{}, lb.b[n:]...)}
			case token.AND:
				var out []*Poly
				for i, b := range lb.b {
					if n>>uint(i)&1 == 1 {
						out = append(out, b)
					} else {
						out = append(out, zeroPoly())
					}
				}
				return &gBits{out}
			case token.GTR, token.NEQ:
				if n == 0 {
					return &gBitsNonzero{lb}
				}
			case token.SUB:
				if n == 1 {
					return &gSelIndex{lb}
				}
			}
			f.gi.fail("%s: operation %s on symbolic bits not modelled", f.pos(x.Pos()), x.Op)
		}
		if _, ok := l.(gNil); ok || isNilVal(r) {
			eq := isNilVal(l) == isNilVal(r)
			if x.Op == token.EQL {
				return eq
			}
			if x.Op == token.NEQ {
				return !eq
			}
		}
		switch lv := l.(type) {
		case int64:
			rv, ok := r.(int64)
			if !ok {
				f.gi.fail("%s: mixed operands in %s", f.pos(x.Pos()), x.Op)
			}
			switch x.Op {
			case token.ADD:
				return lv + rv
			case token.SUB:
				return lv - rv
			case token.MUL:
				return lv * rv
			case token.QUO:
				return lv / rv
			case token.REM:
				return lv % rv
			case token.SHL:
				return lv << uint(rv)
			case token.SHR:
				return lv >> uint(rv)
			case token.AND:
				return lv & rv
			case token.OR:
				return lv | rv
			case token.LSS:
				return lv < rv
			case token.LEQ:
				return lv <= rv
			case token.GTR:
				return lv > rv
			case token.GEQ:
				return lv >= rv
			case token.EQL:
				return lv == rv
			case token.NEQ:
				return lv != rv
			}
		case bool:
			rv, ok := r.(bool)
			if ok {
				switch x.Op {
				case token.LAND:
					return lv && rv
				case token.LOR:
					return lv || rv
				case token.EQL:
					return lv == rv
				case token.NEQ:
					return lv != rv
				}
			}
		}
		f.gi.fail("%s: expression %s not modelled", f.pos(x.Pos()), exprString(e))
	case *ast.IndexExpr:
		b := f.eval(x.X)
		iv := f.eval(x.Index)
		if si, ok := iv.(*gSelIndex); ok {
			if t, ok := b.(*gTable); ok {
				spec := f.gi.tables[t.name]
				if spec != nil && len(t.idx) == spec.dims+1 {
					return &gEntry{t: &gTable{t.name, t.idx[:spec.dims]}, coord: t.idx[spec.dims], bits: si.bits}
				}
			}
			f.gi.fail("%s: symbolic index into something that is not a table row", f.pos(x.Pos()))
		}
		i, ok := iv.(int64)
		if !ok {
			f.gi.fail("%s: symbolic index %s", f.pos(x.Pos()), exprString(x.Index))
		}
		switch v := b.(type) {
		case *gTable:
			return &gTable{v.name, append(append([]int64{}, v.idx...), i)}
		case *gArr:
			if i < 0 || int(i) >= len(v.e) {
				panic(gexpWrong{fmt.Sprintf("%s: index %d out of range of an array of %d (the code would panic here)", f.pos(x.Pos()), i, len(v.e))})
			}
			return v.e[i]
		}
		f.gi.fail("%s: indexing %T not modelled", f.pos(x.Pos()), b)
	case *ast.SliceExpr:
		b := f.eval(x.X)
		if x.Low == nil && x.High == nil {
			return b
		}
		f.gi.fail("%s: slicing not modelled", f.pos(x.Pos()))
	case *ast.CallExpr:
		rs := f.call(x)
		if len(rs) == 0 {
			return nil
		}
		return rs[0]
	case *ast.SelectorExpr:
		f.gi.fail("%s: selector %s not modelled", f.pos(x.Pos()), exprString(e))
	}
	f.gi.fail("%s: expression %s (%T) not modelled", f.pos(e.Pos()), exprString(e), e)
	return nil
}

func isNilVal(v interface{}) bool {
	switch x := v.(type) {
	case gNil:
		return true
	case nil:
		return true
	case *gPtr:
		return x == nil
	}
	return false
}

// tableWeights returns the weights of the window bits of a (fully indexed) table reference.
func (f *gFrame) tableWeights(t *gTable, pos token.Pos) []*big.Int {
	spec := f.gi.tables[t.name]
	if spec == nil {
		f.gi.fail("%s: table %s has no gexp_table clause", f.pos(pos), t.name)
	}
	if len(t.idx) != spec.dims {
		f.gi.fail("%s: table %s is indexed %d times, its clause declares %d", f.pos(pos), t.name, len(t.idx), spec.dims)
	}
	var out []*big.Int
	for tt := 0; tt < spec.window; tt++ {
		env := map[string]int64{"t": int64(tt)}
		if len(t.idx) > 0 {
			env["j"] = t.idx[0]
		}
		w := evalIntExpr(spec.weight, env)
		out = append(out, new(big.Int).Lsh(big.NewInt(1), uint(w)))
	}
	return out
}

func evalIntExpr(e ast.Expr, env map[string]int64) int64 {
	switch x := e.(type) {
	case *ast.ParenExpr:
		return evalIntExpr(x.X, env)
	case *ast.BasicLit:
		n, _ := strconv.ParseInt(x.Value, 0, 64)
		return n
	case *ast.Ident:
		return env[x.Name]
	case *ast.BinaryExpr:
		a, b := evalIntExpr(x.X, env), evalIntExpr(x.Y, env)
		switch x.Op {
		case token.ADD:
			return a + b
		case token.SUB:
			return a - b
		case token.MUL:
			return a * b
		}
	}
	panic(gexpFail{"weight expression not understood"})
}

func (f *gFrame) bitsArg(v interface{}, pos token.Pos) *gBits {
	switch b := v.(type) {
	case *gBits:
		return b
	case int64:
		var out []*Poly
		for i := 0; i < 8; i++ {
			out = append(out, polyConst(big.NewInt(b>>uint(i)&1)))
		}
		return &gBits{out}
	}
	f.gi.fail("%s: expected window bits, got %T", f.pos(pos), v)
	return nil
}

func (f *gFrame) pointArg(v interface{}, pos token.Pos) *gPoint {
	switch p := v.(type) {
	case *gPoint:
		return p
	case *gPtr:
		if q, ok := (*p.to).(*gPoint); ok {
			return q
		}
	}
	f.gi.fail("%s: expected a point, got %T", f.pos(pos), v)
	return nil
}

// selection: out = sum_t bits_t * weight_t (the table is linear in the window bits: its gexp_table clause)
func (f *gFrame) selectFrom(tbl interface{}, width int64, bits *gBits, pos token.Pos) *Poly {
	if p, ok := tbl.(*gPtr); ok {
		tbl = *p.to
	}
	switch t := tbl.(type) {
	case *gTable:
		ws := f.tableWeights(t, pos)
		if width != int64(1)<<uint(len(ws))-1 {
			f.gi.fail("%s: selection width %d does not match the table's window of %d bits", f.pos(pos), width, len(ws))
		}
		acc := zeroPoly()
		for i, b := range bits.b {
			if i < len(ws) {
				acc = polyAdd(acc, polyScale(b, ws[i]))
			} else if len(b.ms) != 0 {
				f.gi.fail("%s: selection bits wider than the table's window", f.pos(pos))
			}
		}
		return acc
	case *gArr:
		// a table built from points at run time (TransformPrecomputed): entry v-1 must be v times entry 0 (linear)
		if int64(len(t.e)) != width {
			f.gi.fail("%s: selection width %d differs from the table length %d", f.pos(pos), width, len(t.e))
		}
		base := f.pointArg(t.e[0], pos).e
		for v := 1; v <= len(t.e); v++ {
			want := polyScale(base, big.NewInt(int64(v)))
			if polySub(f.pointArg(t.e[v-1], pos).e, want).key() != zeroPoly().key() {
				f.gi.fail("%s: run-time table entry %d is not %d times entry 0", f.pos(pos), v-1, v)
			}
		}
		acc := zeroPoly()
		for i, b := range bits.b {
			if int64(1)<<uint(i) <= width {
				// b_i * 2^i * base: product of a bit symbol with the base polynomial
				acc = polyAdd(acc, polyScale(polyMul(b, base), new(big.Int).Lsh(big.NewInt(1), uint(i))))
			} else if len(b.ms) != 0 {
				f.gi.fail("%s: selection bits wider than the table", f.pos(pos))
			}
		}
		return acc
	}
	f.gi.fail("%s: selection from %T not modelled", f.pos(pos), tbl)
	return nil
}

func (f *gFrame) call(c *ast.CallExpr) []interface{} {
	f.gi.steps++
	if f.gi.steps > 200000 {
		f.gi.fail("interpreter step limit")
	}
	// conversions
	if tv, ok := f.info.Types[c.Fun]; ok && tv.IsType() {
		return []interface{}{f.eval(c.Args[0])}
	}
	name := ""
	var recv ast.Expr
	switch fx := unparen(c.Fun).(type) {
	case *ast.Ident:
		name = fx.Name
	case *ast.SelectorExpr:
		if _, ok := f.info.Selections[fx]; ok {
			recv = fx.X
			name = fx.Sel.Name
		} else {
			name = exprString(fx)
		}
	}
	switch name {
	case "len":
		switch v := f.eval(c.Args[0]).(type) {
		case gScalar:
			return []interface{}{int64(32)}
		case *gArr:
			return []interface{}{int64(len(v.e))}
		case *gTable:
			spec := f.gi.tables[v.name]
			if spec != nil && len(v.idx) == spec.dims+1 {
				return []interface{}{int64(1)<<uint(spec.window) - 1}
			}
			f.gi.fail("%s: len of a partially indexed table", f.pos(c.Pos()))
		}
		f.gi.fail("%s: len of %s not modelled", f.pos(c.Pos()), exprString(c.Args[0]))
	case "panic":
		f.gi.fail("%s: reaches panic(%s)", f.pos(c.Pos()), exprString(c.Args[0]))
	case "math.Pow":
		a, ok1 := f.eval(c.Args[0]).(int64)
		b, ok2 := f.eval(c.Args[1]).(int64)
		if ok1 && ok2 && a == 2 && b >= 0 && b < 62 {
			return []interface{}{int64(1) << uint(b)}
		}
		f.gi.fail("%s: math.Pow with non-constant arguments", f.pos(c.Pos()))
	case "fmt.Errorf", "errors.New":
		return []interface{}{"error"}
	case "NewSM2Point":
		return []interface{}{&gPoint{zeroPoly()}}
	case "NewFromXY":
		ex, ok1 := f.eval(c.Args[0]).(*gEntry)
		ey, ok2 := f.eval(c.Args[1]).(*gEntry)
		if !ok1 || !ok2 || ex.t.name != ey.t.name || fmt.Sprint(ex.t.idx) != fmt.Sprint(ey.t.idx) || ex.coord != 0 || ey.coord != 1 || ex.bits != ey.bits {
			f.gi.fail("%s: NewFromXY of something other than the x and y rows of one table entry", f.pos(c.Pos()))
		}
		ws := f.tableWeights(ex.t, c.Pos())
		acc := zeroPoly()
		for i, b := range ex.bits.b {
			if i < len(ws) {
				acc = polyAdd(acc, polyScale(b, ws[i]))
			} else if len(b.ms) != 0 {
				f.gi.fail("%s: selection bits wider than the table's window", f.pos(c.Pos()))
			}
		}
		return []interface{}{&gPoint{acc}}
	case "utils.DecomposeNAF":
		arr, ok := f.eval(c.Args[0]).(*gArr)
		n, ok2 := f.eval(c.Args[2]).(int64)
		if _, isS := f.eval(c.Args[1]).(gScalar); !ok || !ok2 || !isS || int64(len(arr.e)) != n {
			f.gi.fail("%s: DecomposeNAF call not of the modelled form (digits array of length n, scalar, n, w)", f.pos(c.Pos()))
		}
		w, _ := f.eval(c.Args[3]).(int64)
		f.gi.nafWidth = w
		for i := range arr.e {
			arr.e[i] = &gDigit{name: fmt.Sprintf("d%d", i), idx: i}
		}
		f.gi.nafDigits = len(arr.e)
		return nil
	case "extractHigherBits":
		idx, window, step := f.eval(c.Args[1]).(int64), f.eval(c.Args[2]).(int64), f.eval(c.Args[3]).(int64)
		var out []*Poly
		for t := int64(0); t < window; t++ {
			j := t*step + idx
			if j < 0 || j > 255 {
				f.gi.fail("%s: extractHigherBits reads bit %d of a 256-bit scalar", f.pos(c.Pos()), j)
			}
			out = append(out, f.gi.sym(fmt.Sprintf("k%d", j)))
		}
		return []interface{}{&gBits{out}}
	case "extractLowerBits":
		cnt := f.eval(c.Args[1]).(int64)
		var out []*Poly
		for t := int64(0); t < cnt; t++ {
			out = append(out, f.gi.sym(fmt.Sprintf("k%d", t)))
		}
		return []interface{}{&gBits{out}}
	case "selectPoints":
		out := f.pointArg(f.eval(c.Args[0]), c.Pos())
		width := f.eval(c.Args[2]).(int64)
		out.e = f.selectFrom(f.eval(c.Args[1]), width, f.bitsArg(f.eval(c.Args[3]), c.Pos()), c.Pos())
		return []interface{}{out}
	case "TransformPrecomputed":
		src := f.eval(c.Args[0])
		if p, ok := src.(*gPtr); ok {
			src = *p.to
		}
		arr, ok := src.(*gArr)
		width := f.eval(c.Args[1]).(int64)
		if !ok || int64(len(arr.e)) != width {
			f.gi.fail("%s: TransformPrecomputed of something that is not an array of %d points", f.pos(c.Pos()), width)
		}
		cp := &gArr{}
		for _, e := range arr.e {
			cp.e = append(cp.e, &gPoint{f.pointArg(e, c.Pos()).e})
		}
		return []interface{}{cp}
	}
	if recv != nil {
		switch name {
		case "Double":
			q := f.pointArg(f.eval(recv), c.Pos())
			p := f.pointArg(f.eval(c.Args[0]), c.Pos())
			q.e = polyScale(p.e, big.NewInt(2))
			return []interface{}{q}
		case "Add":
			q := f.pointArg(f.eval(recv), c.Pos())
			a, b := f.pointArg(f.eval(c.Args[0]), c.Pos()), f.pointArg(f.eval(c.Args[1]), c.Pos())
			q.e = polyAdd(a.e, b.e)
			return []interface{}{q}
		case "Set":
			q := f.pointArg(f.eval(recv), c.Pos())
			q.e = f.pointArg(f.eval(c.Args[0]), c.Pos()).e
			return []interface{}{q}
		case "Negate":
			q := f.pointArg(f.eval(recv), c.Pos())
			q.e = polyScale(f.pointArg(f.eval(c.Args[0]), c.Pos()).e, big.NewInt(-1))
			return []interface{}{q}
		case "MultiSelectXY", "MultiSelectXYZ":
			q := f.pointArg(f.eval(recv), c.Pos())
			if len(q.e.ms) != 0 {
				f.gi.fail("%s: masked selection into a point that is not the fresh point at infinity (bits = 0 keeps the receiver)", f.pos(c.Pos()))
			}
			width := f.eval(c.Args[1]).(int64)
			q.e = f.selectFrom(f.eval(c.Args[0]), width, f.bitsArg(f.eval(c.Args[2]), c.Pos()), c.Pos())
			return []interface{}{q}
		}
		f.gi.fail("%s: method %s not modelled", f.pos(c.Pos()), name)
	}
	// in-package function with a body: interpret it
	if id, ok := unparen(c.Fun).(*ast.Ident); ok {
		if fn, ok := f.info.Uses[id].(*types.Func); ok {
			if cfi := f.gi.eng.funcs[funcKey(fn)]; cfi != nil && cfi.Decl.Body != nil {
				var args []interface{}
				for _, a := range c.Args {
					args = append(args, f.eval(a))
				}
				return f.gi.run(cfi, args, nil)
			}
		}
	}
	f.gi.fail("%s: call to %s not modelled", f.pos(c.Pos()), name)
	return nil
}

func (gi *gInterp) run(fi *FuncInfo, args []interface{}, pre func(*gFrame)) []interface{} {
	gi.depth++
	if gi.depth > 8 {
		gi.fail("call depth")
	}
	defer func() { gi.depth-- }()
	f := &gFrame{gi: gi, fi: fi, info: fi.Pkg.TypesInfo, vars: map[types.Object]*interface{}{}}
	objs := paramObjs(fi)
	for i, o := range objs {
		if o == nil || i >= len(args) {
			continue
		}
		v := args[i]
		f.vars[o] = &v
	}
	if pre != nil {
		pre(f)
	}
	f.block(fi.Decl.Body)
	return f.ret
}

func (f *gFrame) block(b *ast.BlockStmt) {
	for i, s := range b.List {
		if f.done || f.brk || f.cont {
			return
		}
		// `d := digits[i]` with a symbolic signed-window digit: case analysis over the digit set on the rest of the block
		if as, ok := s.(*ast.AssignStmt); ok && len(as.Rhs) == 1 && len(as.Lhs) == 1 {
			if ix, ok := unparen(as.Rhs[0]).(*ast.IndexExpr); ok {
				if arr, ok := f.tryEval(ix.X).(*gArr); ok {
					if j, ok := f.tryEval(ix.Index).(int64); ok && j >= 0 && int(j) < len(arr.e) {
						if d, ok := arr.e[j].(*gDigit); ok {
							f.splitDigit(as, d, b.List[i+1:])
							return
						}
					}
				}
			}
		}
		f.stmt(s)
	}
}

// tryEval evaluates an expression, returning nil instead of failing.
func (f *gFrame) tryEval(e ast.Expr) (v interface{}) {
	defer func() {
		if r := recover(); r != nil {
			if _, ok := r.(gexpFail); ok {
				v = nil
				return
			}
			panic(r)
		}
	}()
	return f.eval(e)
}

type gSnap struct {
	points map[*gPoint]*Poly
	vars   map[types.Object]interface{}
}

func (f *gFrame) snapshot() *gSnap {
	sn := &gSnap{points: map[*gPoint]*Poly{}, vars: map[types.Object]interface{}{}}
	var collect func(v interface{})
	collect = func(v interface{}) {
		switch y := v.(type) {
		case *gPoint:
			sn.points[y] = y.e
		case *gArr:
			for _, e := range y.e {
				collect(e)
			}
		case *gPtr:
			collect(*y.to)
		}
	}
	for o, p := range f.vars {
		collect(*p)
		sn.vars[o] = *p
	}
	return sn
}

func (f *gFrame) restore(sn *gSnap) {
	for p, e := range sn.points {
		p.e = e
	}
	for o := range f.vars {
		if v, ok := sn.vars[o]; ok {
			*f.vars[o] = v
		} else {
			delete(f.vars, o)
		}
	}
	f.cont, f.brk = false, false
}

// polyDrop substitutes 0 for the named symbols.
func polyDrop(p *Poly, zero map[string]bool) *Poly {
	var ms []mono
	for _, m := range p.ms {
		keep := true
		for _, a := range m.atoms {
			if zero[strings.TrimPrefix(a.Name, "gexp$")] {
				keep = false
				break
			}
		}
		if keep {
			ms = append(ms, m)
		}
	}
	return mkPoly(ms)
}

func bitsSyms(b *gBits) map[string]bool {
	out := map[string]bool{}
	for _, p := range b.b {
		for _, m := range p.ms {
			for _, a := range m.atoms {
				out[strings.TrimPrefix(a.Name, "gexp$")] = true
			}
		}
	}
	return out
}

func unionSyms(a, b map[string]bool) map[string]bool {
	out := map[string]bool{}
	for k := range a {
		out[k] = true
	}
	for k := range b {
		out[k] = true
	}
	return out
}

func sameFlag(a, b interface{}) bool {
	switch x := a.(type) {
	case bool:
		y, ok := b.(bool)
		return ok && x == y
	case *gZeroIff:
		y, ok := b.(*gZeroIff)
		if !ok || x.neg != y.neg || len(x.z) != len(y.z) {
			return false
		}
		for k := range x.z {
			if !y.z[k] {
				return false
			}
		}
		return true
	}
	return false
}

// splitDigit: `lhs := digits[i]` followed by rest, for a symbolic signed-window digit d in {0, +-1, +-3, ..., +-(2^w - 1)}.
// The rest of the block is executed once per digit value; the accumulators must depend linearly on the value
// (result(v) = result(0) + v * K), which gives the merged result result(0) + d * K; a flag that is cleared exactly
// when d != 0 becomes "true iff (its previous condition and d == 0)".
func (f *gFrame) splitDigit(as *ast.AssignStmt, d *gDigit, rest []ast.Stmt) {
	w := f.gi.nafWidth
	if w <= 0 || w > 7 {
		f.gi.fail("%s: digit width unknown", f.pos(as.Pos()))
	}
	vals := []int64{0}
	for v := int64(1); v < int64(1)<<uint(w); v += 2 {
		vals = append(vals, v, -v)
	}
	pre := f.snapshot()
	type res struct {
		pts  map[*gPoint]*Poly
		vars map[types.Object]interface{}
	}
	results := map[int64]*res{}
	for _, v := range vals {
		f.restore(pre)
		f.assign(as.Lhs[0], v, as.Tok == token.DEFINE)
		for _, st := range rest {
			if f.done || f.brk || f.cont {
				break
			}
			f.stmt(st)
		}
		if f.done || f.brk {
			f.gi.fail("%s: return/break under a symbolic digit", f.pos(as.Pos()))
		}
		r := &res{pts: map[*gPoint]*Poly{}, vars: map[types.Object]interface{}{}}
		for p := range pre.points {
			r.pts[p] = p.e
		}
		for o := range pre.vars {
			r.vars[o] = *f.vars[o]
		}
		results[v] = r
	}
	f.restore(pre)
	dsym := f.gi.sym(d.name)
	base, unit := results[0], results[1]
	for p := range pre.points {
		K := polySub(unit.pts[p], base.pts[p])
		for _, v := range vals {
			want := polyAdd(base.pts[p], polyScale(K, big.NewInt(v)))
			if len(polySub(results[v].pts[p], want).ms) != 0 {
				panic(gexpWrong{fmt.Sprintf("%s: for the digit value %d the accumulator is [%s]; digit 0 gives [%s] and digit 1 adds [%s], so %d should add %d times that", f.pos(as.Pos()), v, gexpPolyString(results[v].pts[p]), gexpPolyString(base.pts[p]), gexpPolyString(K), v, v)})
			}
		}
		p.e = polyAdd(base.pts[p], polyMul(dsym, K))
	}
	for o, v0 := range pre.vars {
		switch v0.(type) {
		case bool, *gZeroIff:
		default:
			continue
		}
		b0 := base.vars[o]
		bn := unit.vars[o]
		for _, v := range vals[1:] {
			if !sameFlag(results[v].vars[o], bn) {
				f.gi.fail("%s: a flag depends on the digit value beyond zero/non-zero", f.pos(as.Pos()))
			}
		}
		switch {
		case sameFlag(b0, bn):
			*f.vars[o] = b0
		default:
			bnb, ok := bn.(bool)
			if !ok || bnb {
				f.gi.fail("%s: flag update under a symbolic digit not of the form `flag = false when the digit is non-zero`", f.pos(as.Pos()))
			}
			switch x := b0.(type) {
			case bool:
				if x {
					*f.vars[o] = &gZeroIff{z: map[string]bool{d.name: true}}
				} else {
					*f.vars[o] = false
				}
			case *gZeroIff:
				if x.neg {
					f.gi.fail("%s: negated flag", f.pos(as.Pos()))
				}
				*f.vars[o] = &gZeroIff{z: unionSyms(x.z, map[string]bool{d.name: true})}
			}
		}
	}
	f.cont = false
}

func (f *gFrame) assign(l ast.Expr, v interface{}, define bool) {
	switch x := unparen(l).(type) {
	case *ast.Ident:
		if x.Name == "_" {
			return
		}
		o := f.info.Defs[x]
		if o == nil {
			o = f.info.Uses[x]
		}
		if p, ok := f.vars[o]; ok && !define {
			if bv, isBool := v.(bool); isBool && len(f.condSyms) > 0 {
				if bv {
					f.gi.fail("%s: a flag is set to true under a symbolic condition", f.pos(l.Pos()))
				}
				all := map[string]bool{}
				for _, cs := range f.condSyms {
					all = unionSyms(all, cs)
				}
				switch cur := (*p).(type) {
				case bool:
					if cur {
						*p = &gZeroIff{z: all}
					}
				case *gZeroIff:
					*p = &gZeroIff{z: unionSyms(cur.z, all)}
				}
				return
			}
			*p = v
			return
		}
		nv := v
		f.vars[o] = &nv
	case *ast.IndexExpr:
		b := f.eval(x.X)
		i, ok := f.eval(x.Index).(int64)
		arr, ok2 := b.(*gArr)
		if !ok || !ok2 || i < 0 || int(i) >= len(arr.e) {
			f.gi.fail("%s: store to %s not modelled", f.pos(l.Pos()), exprString(l))
		}
		arr.e[i] = v
	default:
		f.gi.fail("%s: assignment to %s not modelled", f.pos(l.Pos()), exprString(l))
	}
}

func (f *gFrame) zeroOf(t types.Type, pos token.Pos) interface{} {
	switch u := t.Underlying().(type) {
	case *types.Basic:
		if u.Info()&types.IsBoolean != 0 {
			return false
		}
		if u.Info()&types.IsInteger != 0 {
			return int64(0)
		}
	case *types.Array:
		a := &gArr{}
		for i := int64(0); i < u.Len(); i++ {
			a.e = append(a.e, f.zeroOf(u.Elem(), pos))
		}
		return a
	case *types.Pointer, *types.Slice, *types.Interface:
		return gNil{}
	}
	f.gi.fail("%s: zero value of %s not modelled", f.pos(pos), t)
	return nil
}

func (f *gFrame) stmt(s ast.Stmt) {
	f.gi.steps++
	switch x := s.(type) {
	case *ast.BlockStmt:
		f.block(x)
	case *ast.ExprStmt:
		f.eval(x.X)
	case *ast.DeclStmt:
		gd := x.Decl.(*ast.GenDecl)
		for _, sp := range gd.Specs {
			vs, ok := sp.(*ast.ValueSpec)
			if !ok {
				continue // const/type declarations: constants are resolved through the type checker
			}
			for i, n := range vs.Names {
				if i < len(vs.Values) {
					f.assign(n, f.eval(vs.Values[i]), true)
				} else {
					f.assign(n, f.zeroOf(f.info.Defs[n].Type(), n.Pos()), true)
				}
			}
		}
	case *ast.AssignStmt:
		if x.Tok != token.ASSIGN && x.Tok != token.DEFINE {
			// op-assign on concrete integers
			l, ok1 := f.eval(x.Lhs[0]).(int64)
			r, ok2 := f.eval(x.Rhs[0]).(int64)
			if !ok1 || !ok2 {
				f.gi.fail("%s: %s on non-concrete operands", f.pos(x.Pos()), x.Tok)
			}
			switch x.Tok {
			case token.ADD_ASSIGN:
				f.assign(x.Lhs[0], l+r, false)
			case token.SUB_ASSIGN:
				f.assign(x.Lhs[0], l-r, false)
			default:
				f.gi.fail("%s: %s not modelled", f.pos(x.Pos()), x.Tok)
			}
			return
		}
		if len(x.Rhs) == 1 && len(x.Lhs) > 1 {
			rs := f.call(x.Rhs[0].(*ast.CallExpr))
			for i, l := range x.Lhs {
				var v interface{} = gNil{}
				if i < len(rs) {
					v = rs[i]
				}
				f.assign(l, v, x.Tok == token.DEFINE)
			}
			return
		}
		var vals []interface{}
		for _, r := range x.Rhs {
			vals = append(vals, f.eval(r))
		}
		for i, l := range x.Lhs {
			f.assign(l, vals[i], x.Tok == token.DEFINE)
		}
	case *ast.IncDecStmt:
		v, ok := f.eval(x.X).(int64)
		if !ok {
			f.gi.fail("%s: ++/-- on a non-concrete value", f.pos(x.Pos()))
		}
		if x.Tok == token.INC {
			f.assign(x.X, v+1, false)
		} else {
			f.assign(x.X, v-1, false)
		}
	case *ast.IfStmt:
		if x.Init != nil {
			f.stmt(x.Init)
		}
		cv := f.eval(x.Cond)
		switch c := cv.(type) {
		case bool:
			if c {
				f.block(x.Body)
			} else if x.Else != nil {
				f.stmt(x.Else)
			}
		case *gBitsNonzero:
			// `if bits > 0 { B }`: B runs on the general state; it must be a no-op on every accumulator when all the window
			// bits are zero (then skipping it is the same); flags cleared inside become "true iff ... and bits == 0"
			if x.Else != nil {
				f.gi.fail("%s: else arm of a window-bits test not modelled", f.pos(x.Pos()))
			}
			syms := bitsSyms(c.bits)
			pre := f.snapshot()
			f.condSyms = append(f.condSyms, syms)
			f.block(x.Body)
			f.condSyms = f.condSyms[:len(f.condSyms)-1]
			if f.done || f.brk || f.cont {
				f.gi.fail("%s: control leaves the body of a window-bits test", f.pos(x.Pos()))
			}
			for p, before := range pre.points {
				if len(polySub(polyDrop(p.e, syms), polyDrop(before, syms)).ms) != 0 {
					panic(gexpWrong{fmt.Sprintf("%s: the body of `if %s` changes an accumulator even when the window bits are all zero", f.pos(x.Pos()), exprString(x.Cond))})
				}
			}
		case *gZeroIff:
			// a flag that is true exactly when all symbols of Z are zero (nothing has been added yet). The arm for
			// flag == false is the general case; under Z := 0 both arms must have the same effect on every accumulator.
			var armTrue, armFalse ast.Stmt = x.Body, x.Else
			if c.neg {
				armTrue, armFalse = x.Else, x.Body
			}
			run := func(st ast.Stmt) {
				if st != nil {
					f.stmt(st)
				}
				if f.done || f.brk || f.cont {
					f.gi.fail("%s: control leaves an arm of a flag test", f.pos(x.Pos()))
				}
			}
			pre := f.snapshot()
			zero := func() {
				for p, before := range pre.points {
					p.e = polyDrop(before, c.z)
				}
			}
			zero()
			run(armTrue)
			a := map[*gPoint]*Poly{}
			for p := range pre.points {
				a[p] = polyDrop(p.e, c.z)
			}
			flagsTrue := map[types.Object]interface{}{}
			for o := range pre.vars {
				flagsTrue[o] = *f.vars[o]
			}
			f.restore(pre)
			zero()
			run(armFalse)
			for p := range pre.points {
				if len(polySub(polyDrop(p.e, c.z), a[p]).ms) != 0 {
					panic(gexpWrong{fmt.Sprintf("%s: when the flag `%s` is set (nothing added yet: %d symbols zero) its two arms differ: [%s] versus [%s]", f.pos(x.Pos()), exprString(x.Cond), len(c.z), gexpPolyString(a[p]), gexpPolyString(polyDrop(p.e, c.z)))})
				}
			}
			f.restore(pre)
			run(armFalse)
			// flags: an arm for flag == true that clears the flag itself leaves it false in every case
			for o, v0 := range pre.vars {
				if z0, ok := v0.(*gZeroIff); ok && sameFlag(z0, &gZeroIff{z: c.z}) {
					if ft, ok := flagsTrue[o].(bool); ok && !ft && sameFlag(*f.vars[o], z0) {
						*f.vars[o] = false
					}
				}
			}
		default:
			f.gi.fail("%s: condition %s depends on the scalar (symbolic)", f.pos(x.Cond.Pos()), exprString(x.Cond))
		}
	case *ast.ForStmt:
		if x.Init != nil {
			f.stmt(x.Init)
		}
		for it := 0; ; it++ {
			if it > 5000 {
				f.gi.fail("%s: loop bound", f.pos(x.Pos()))
			}
			if x.Cond != nil {
				c, ok := f.eval(x.Cond).(bool)
				if !ok {
					f.gi.fail("%s: loop condition is symbolic", f.pos(x.Cond.Pos()))
				}
				if !c {
					break
				}
			}
			f.block(x.Body)
			if f.done {
				return
			}
			if f.brk {
				f.brk = false
				break
			}
			f.cont = false
			if x.Post != nil {
				f.stmt(x.Post)
			}
		}
	case *ast.RangeStmt:
		if _, ok := f.eval(x.X).(gScalar); ok {
			f.rangeScalar(x)
			return
		}
		f.gi.fail("%s: range over %s not modelled", f.pos(x.Pos()), exprString(x.X))
	case *ast.ReturnStmt:
		f.ret = nil
		if len(x.Results) == 1 {
			if c, ok := unparen(x.Results[0]).(*ast.CallExpr); ok {
				if tv, ok := f.info.Types[c.Fun]; !ok || !tv.IsType() {
					f.ret = f.call(c)
					f.done = true
					return
				}
			}
		}
		for _, r := range x.Results {
			f.ret = append(f.ret, f.eval(r))
		}
		f.done = true
	case *ast.BranchStmt:
		switch x.Tok {
		case token.BREAK:
			f.brk = true
		case token.CONTINUE:
			f.cont = true
		default:
			f.gi.fail("%s: %s not modelled", f.pos(x.Pos()), x.Tok)
		}
	case *ast.EmptyStmt:
	default:
		f.gi.fail("%s: statement %T not modelled", f.pos(s.Pos()), s)
	}
}

// rangeScalar proves `for _, b := range scalar { body }` by induction on the number of bytes consumed:
// (base) from the state at loop entry, one iteration with a symbolic byte b turns the accumulator A0 into 256*A0 + b;
// (step) from a state in which the accumulator is an arbitrary E and the flags are as after the first iteration,
// one iteration gives 256*E + b and leaves the flags unchanged. Afterwards the accumulator is [V]Base, V = the
// big-endian value of the scalar (any length).
func (f *gFrame) rangeScalar(x *ast.RangeStmt) {
	if x.Key != nil {
		if id, ok := x.Key.(*ast.Ident); !ok || id.Name != "_" {
			f.gi.fail("%s: range with an index variable is not modelled", f.pos(x.Pos()))
		}
	}
	vid, ok := x.Value.(*ast.Ident)
	if !ok {
		f.gi.fail("%s: range without a value variable", f.pos(x.Pos()))
	}
	points := map[*gPoint]*Poly{}
	var collect func(v interface{})
	collect = func(v interface{}) {
		switch y := v.(type) {
		case *gPoint:
			points[y] = y.e
		case *gArr:
			for _, e := range y.e {
				collect(e)
			}
		case *gPtr:
			collect(*y.to)
		}
	}
	scal := map[types.Object]interface{}{}
	for o, p := range f.vars {
		collect(*p)
		switch (*p).(type) {
		case bool, int64:
			scal[o] = *p
		}
	}
	byteBits := func() *gBits {
		var bs []*Poly
		for i := 0; i < 8; i++ {
			bs = append(bs, f.gi.sym(fmt.Sprintf("b%d", i)))
		}
		return &gBits{bs}
	}
	bval := zeroPoly()
	for i := 0; i < 8; i++ {
		bval = polyAdd(bval, polyScale(f.gi.sym(fmt.Sprintf("b%d", i)), big.NewInt(int64(1)<<uint(i))))
	}
	runBody := func() {
		f.assign(vid, byteBits(), true)
		f.block(x.Body)
		if f.done || f.brk {
			f.gi.fail("%s: the loop body leaves the loop (return/break): not an accumulation loop", f.pos(x.Pos()))
		}
		f.cont = false
	}
	// base: first iteration from the entry state
	runBody()
	var acc *gPoint
	for p, before := range points {
		if polySub(p.e, before).key() != zeroPoly().key() {
			if acc != nil {
				f.gi.fail("%s: more than one point changes in the loop", f.pos(x.Pos()))
			}
			acc = p
		}
	}
	if acc == nil {
		f.gi.fail("%s: no accumulator point changes in the loop", f.pos(x.Pos()))
	}
	want := polyAdd(polyScale(points[acc], big.NewInt(256)), bval)
	if len(polySub(acc.e, want).ms) != 0 {
		panic(gexpWrong{fmt.Sprintf("%s: first iteration of the byte loop: the accumulator becomes [%s], expected 256*A0 + b", f.pos(x.Pos()), gexpPolyString(acc.e))})
	}
	after := map[types.Object]interface{}{}
	for o := range scal {
		after[o] = *f.vars[o]
	}
	// step: arbitrary accumulator E, flags as after the first iteration
	for p, before := range points {
		p.e = before
	}
	E := f.gi.sym("E")
	acc.e = E
	for o, v := range after {
		*f.vars[o] = v
	}
	runBody()
	want = polyAdd(polyScale(E, big.NewInt(256)), bval)
	if len(polySub(acc.e, want).ms) != 0 {
		panic(gexpWrong{fmt.Sprintf("%s: inductive step of the byte loop: the accumulator becomes [%s], expected 256*E + b", f.pos(x.Pos()), gexpPolyString(acc.e))})
	}
	for p, before := range points {
		if p != acc && polySub(p.e, before).key() != zeroPoly().key() {
			f.gi.fail("%s: inductive step changes another point", f.pos(x.Pos()))
		}
	}
	for o, v := range after {
		if *f.vars[o] != v {
			f.gi.fail("%s: a flag/counter changes again in later iterations: the induction hypothesis does not cover it", f.pos(x.Pos()))
		}
	}
	acc.e = f.gi.sym("V")
	f.gi.byteLoop = true
}

// VerifyGexp checks a #gexp contract.
func (eng *Engine) VerifyGexp(key string) (obs []ringObl, err error) {
	fi := eng.funcs[key]
	ct := eng.contracts[key+"#gexp"]
	if fi == nil || fi.Decl.Body == nil {
		return nil, fmt.Errorf("no function %s", key)
	}
	if ct == nil {
		return nil, fmt.Errorf("no #gexp contract for %s", key)
	}
	gi := &gInterp{eng: eng, tables: map[string]*gTableSpec{}, syms: map[string]*Term{}}
	scalarName, baseName, nafName := "", "", ""
	for _, raw := range ct.Raw {
		fs := strings.Fields(raw)
		switch fs[0] {
		case "gexp_base":
			baseName = fs[1]
		case "gexp_naf":
			nafName = fs[1]
		case "gexp_scalar":
			scalarName = fs[1]
		case "gexp_table":
			spec := &gTableSpec{}
			for _, kv := range fs[2:] {
				switch {
				case strings.HasPrefix(kv, "dims="):
					spec.dims = len(strings.Split(kv[5:], ","))
				case strings.HasPrefix(kv, "window="):
					n, _ := strconv.Atoi(kv[7:])
					spec.window = n
				case strings.HasPrefix(kv, "weight="):
					e, perr := parseSpecExpr(kv[7:])
					if perr != nil {
						return nil, fmt.Errorf("gexp_table: %v", perr)
					}
					spec.weight = e
				}
			}
			if spec.weight == nil || spec.window == 0 {
				return nil, fmt.Errorf("gexp_table %s: window= and weight= are required", fs[1])
			}
			gi.tables[fs[1]] = spec
		}
	}
	if scalarName == "" {
		return nil, fmt.Errorf("%s#gexp: gexp_scalar missing", key)
	}
	pos := fi.Pkg.Fset.Position(fi.Decl.Pos())
	ob := ringObl{Name: key + "/gexp:result", Pos: fmt.Sprintf("%s:%d", pos.Filename[strings.LastIndex(pos.Filename, "/")+1:], pos.Line)}
	var result []interface{}
	func() {
		defer func() {
			if r := recover(); r != nil {
				if gf, ok := r.(gexpFail); ok {
					ob.Msg = "not in the straight-line subset: " + gf.msg
					return
				}
				if gw, ok := r.(gexpWrong); ok {
					ob.Msg = gw.msg
					return
				}
				ob.Msg = fmt.Sprintf("not in the straight-line subset: interpreter error: %v", r)
			}
		}()
		var args []interface{}
		for _, n := range paramNames(fi) {
			if n == scalarName {
				args = append(args, gScalar{})
			} else if n == nafName && nafName != "" {
				args = append(args, gScalar{})
			} else if n == baseName {
				if nafName != "" {
					args = append(args, &gPoint{gi.sym("PB")})
				} else {
					args = append(args, &gPoint{polyConst(big.NewInt(1))})
				}
			} else {
				args = append(args, gNil{})
			}
		}
		result = gi.run(fi, args, nil)
	}()
	if ob.Msg != "" {
		return []ringObl{ob}, nil
	}
	if len(result) == 0 {
		ob.Msg = "the function returned nothing"
		return []ringObl{ob}, nil
	}
	pt, ok := result[0].(*gPoint)
	if !ok {
		ob.Msg = fmt.Sprintf("the function returned %T on the 32-byte path, not a point", result[0])
		return []ringObl{ob}, nil
	}
	want := zeroPoly()
	for j := 0; j < 256; j++ {
		want = polyAdd(want, polyScale(gi.sym(fmt.Sprintf("k%d", j)), new(big.Int).Lsh(big.NewInt(1), uint(j))))
	}
	if gi.byteLoop {
		want = gi.sym("V")
	}
	if nafName != "" {
		// [g]G + [s]P with s = sum_i d_i 2^i (lemma: the digits represent the scalar - postcondition of utils.DecomposeNAF, proved in C20)
		for i := 0; i < gi.nafDigits; i++ {
			want = polyAdd(want, polyScale(polyMul(gi.sym(fmt.Sprintf("d%d", i)), gi.sym("PB")), new(big.Int).Lsh(big.NewInt(1), uint(i))))
		}
	}
	diff := polySub(pt.e, want)
	if len(diff.ms) == 0 {
		ob.OK = true
		ob.Msg = fmt.Sprintf("%d interpreter steps", gi.steps)
	} else {
		ob.Msg = "the returned point is [" + gexpPolyString(pt.e) + "]G, not [sum_j k_j 2^j]G: difference " + gexpPolyString(diff)
	}
	return []ringObl{ob}, nil
}

func gexpPolyString(p *Poly) string {
	var parts []string
	for i, m := range p.ms {
		if i >= 5 {
			parts = append(parts, fmt.Sprintf("... (%d terms)", len(p.ms)))
			break
		}
		s := ""
		if m.coef.BitLen() > 16 && new(big.Int).And(m.coef, new(big.Int).Sub(m.coef, big.NewInt(1))).Sign() == 0 {
			s = fmt.Sprintf("2^%d", m.coef.BitLen()-1)
		} else {
			s = m.coef.String()
		}
		for _, a := range m.atoms {
			s += "*" + strings.TrimPrefix(a.Name, "gexp$")
		}
		parts = append(parts, s)
	}
	if len(parts) == 0 {
		return "0"
	}
	return strings.Join(parts, " + ")
}
