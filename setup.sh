#!/bin/sh
# Build the verification framework offline from files on disk.
set -e
cd "$(dirname "$0")"
export GOFLAGS=-mod=mod GOPROXY=off GOSUMDB=off GOTOOLCHAIN=local
mkdir -p bin evidence
(cd govc && go build -o ../bin/govc .)
