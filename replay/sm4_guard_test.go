// Guard-page replay for the amd64 assembly routines of package sm4.
// Injected with `go test -overlay` as /repo/sm4/zz_guard_test.go; see run.sh (pkgdir "sm4guard").
//
// Every pointer argument of a routine is laid against an inaccessible page: once with its last
// granted byte at the end of a mapped page (the next page is PROT_NONE), once with its first byte at
// the start of a mapped page (the previous page is PROT_NONE). The sizes are exactly the spans the
// contracts in /verif/spec/asm_amd64.contracts grant. A fault is reported as REPLAY-FAIL; so is any
// change to a read-only input. This is what asmvc uses to replay a refuted mem/frame obligation on
// the real code, and the bounded stand-in for the data computed by the kernels.
//
// VERIF_FUNCS=comma list of case names (default all); VERIF_N=largest message length (default 80).

//go:build amd64

package sm4

import (
	"bytes"
	"fmt"
	"os"
	"runtime/debug"
	"strconv"
	"strings"
	"syscall"
	"testing"
	"unsafe"
)

const vgPage = 4096

// vgBuf returns n bytes whose end (hi) or start (!hi) touches a PROT_NONE page.
func vgBuf(n int, hi bool) []byte {
	pages := (n + vgPage - 1) / vgPage
	if pages == 0 {
		pages = 1
	}
	m, err := syscall.Mmap(-1, 0, (pages+2)*vgPage, syscall.PROT_READ|syscall.PROT_WRITE, syscall.MAP_ANON|syscall.MAP_PRIVATE)
	if err != nil {
		panic(err)
	}
	if err := syscall.Mprotect(m[:vgPage], syscall.PROT_NONE); err != nil {
		panic(err)
	}
	if err := syscall.Mprotect(m[(pages+1)*vgPage:], syscall.PROT_NONE); err != nil {
		panic(err)
	}
	data := m[vgPage : (pages+1)*vgPage]
	if hi {
		return data[len(data)-n : len(data) : len(data)]
	}
	return data[:n:n]
}

// vgPtr returns the address of the first byte even for an empty buffer.
func vgPtr(b []byte) *byte {
	if cap(b) == 0 {
		return nil
	}
	return &b[:1][0]
}

func vgFill(b []byte, seed byte) {
	for i := range b {
		b[i] = byte(i)*7 + seed
	}
}

type vgEnv struct {
	t     *testing.T
	sel   map[string]bool
	fails int
	runs  int
}

func (e *vgEnv) want(name string) bool { return e.sel == nil || e.sel[name] }

// call runs f and reports a fault as a failure.
func (e *vgEnv) call(name, input string, f func()) (faulted bool) {
	e.runs++
	defer func() {
		if r := recover(); r != nil {
			faulted = true
			e.fails++
			if e.fails <= 20 {
				fmt.Printf("REPLAY-FAIL case=%s input=%s fault=%v\n", name, input, r)
			}
		}
	}()
	f()
	return false
}

func (e *vgEnv) changed(name, input, what string) {
	e.fails++
	if e.fails <= 20 {
		fmt.Printf("REPLAY-FAIL case=%s input=%s modified=%s\n", name, input, what)
	}
}

func vgRK(src *[32]uint32, hi bool) *uint32 {
	b := vgBuf(128, hi)
	for i := 0; i < 32; i++ {
		b[4*i] = byte(src[i])
		b[4*i+1] = byte(src[i] >> 8)
		b[4*i+2] = byte(src[i] >> 16)
		b[4*i+3] = byte(src[i] >> 24)
	}
	return (*uint32)(unsafe.Pointer(&b[0]))
}

func TestVerifGuard(t *testing.T) {
	old := debug.SetPanicOnFault(true)
	defer debug.SetPanicOnFault(old)
	if !candoAsm {
		fmt.Println("REPLAY-SKIP reason=cpu-without-gfni-avx512")
		return
	}
	e := &vgEnv{t: t}
	if s := os.Getenv("VERIF_FUNCS"); s != "" {
		e.sel = map[string]bool{}
		for _, f := range strings.Split(s, ",") {
			e.sel[strings.TrimSpace(f)] = true
		}
	}
	maxN := 80
	if s := os.Getenv("VERIF_N"); s != "" {
		if v, err := strconv.Atoi(s); err == nil && v > 0 {
			maxN = v
		}
	}
	key := []byte{1, 2, 3, 4, 5, 6, 7, 8, 9, 10, 11, 12, 13, 14, 15, 16}
	var encN, decN [32]uint32
	expandKeyAsm(&key[0], &encN[0], &decN[0])

	for _, hi := range []bool{true, false} {
		pl := "lo"
		if hi {
			pl = "hi"
		}
		if e.want("expandKeyAsm") {
			k := vgBuf(16, hi)
			copy(k, key)
			enc, dec := vgBuf(128, hi), vgBuf(128, hi)
			e.call("expandKeyAsm", pl, func() {
				expandKeyAsm(&k[0], (*uint32)(unsafe.Pointer(&enc[0])), (*uint32)(unsafe.Pointer(&dec[0])))
			})
			if !bytes.Equal(k, key) {
				e.changed("expandKeyAsm", pl, "key")
			}
		}
		type blk struct {
			name string
			n    int
			f    func(rk *uint32, dst, src *byte)
		}
		for _, b := range []blk{{"cryptoBlockAsm", 16, cryptoBlockAsm}, {"cryptoBlockAsmX2", 32, cryptoBlockAsmX2}, {"cryptoBlockAsmX4", 64, cryptoBlockAsmX4},
			{"cryptoBlockAsmX8", 128, cryptoBlockAsmX8}, {"cryptoBlockAsmX16", 256, cryptoBlockAsmX16}} {
			if !e.want(b.name) {
				continue
			}
			for _, rkSrc := range []*[32]uint32{&encN, &decN} {
				rk := vgRK(rkSrc, hi)
				src, dst := vgBuf(b.n, hi), vgBuf(b.n, hi)
				vgFill(src, 3)
				keep := append([]byte{}, src...)
				e.call(b.name, pl, func() { b.f(rk, &dst[0], &src[0]) })
				if !bytes.Equal(src, keep) {
					e.changed(b.name, pl, "src")
				}
			}
		}
		if e.want("copyAsm") {
			for n := 1; n <= maxN+64; n++ {
				src, dst := vgBuf(n, hi), vgBuf(n, hi)
				vgFill(src, 9)
				keep := append([]byte{}, src...)
				if e.call("copyAsm", fmt.Sprintf("%s,len=%d", pl, n), func() { copyAsm(&dst[0], &src[0], n) }) {
					break
				}
				if !bytes.Equal(src, keep) || !bytes.Equal(dst, keep) {
					e.changed("copyAsm", fmt.Sprintf("%s,len=%d", pl, n), "src-or-wrong-copy")
					break
				}
			}
		}
		if e.want("gHashBlocks") {
			for cnt := 1; cnt <= 20; cnt++ { // the contract requires count >= 1 (amd64: only the package tests call it)
				h, tag, data := vgBuf(16, hi), vgBuf(16, hi), vgBuf(16*cnt, hi)
				vgFill(h, 1)
				vgFill(data, 2)
				if e.call("gHashBlocks", fmt.Sprintf("%s,count=%d", pl, cnt), func() { gHashBlocks(&h[0], &tag[0], vgPtr(data), cnt) }) {
					break
				}
			}
		}
		for _, ts := range []int{16, 12} {
			if !e.want("sealAsm") && !e.want("openAsm") {
				break
			}
			sealBad, openBad := false, false
			for _, al := range []int{0, 1, 15, 16, 17, 33, 64, 65} {
				for n := 0; n <= maxN; n++ {
					in := fmt.Sprintf("%s,tag=%d,aad=%d,len=%d", pl, ts, al, n)
					rk := vgRK(&encN, hi)
					nonce, pt, aad, tmp := vgBuf(12, hi), vgBuf(n, hi), vgBuf(al, hi), vgBuf(32, hi)
					vgFill(nonce, 5)
					vgFill(pt, 6)
					vgFill(aad, 7)
					dst := vgBuf(n+ts, hi)
					keepN, keepP, keepA := append([]byte{}, nonce...), append([]byte{}, pt...), append([]byte{}, aad...)
					if e.want("sealAsm") && !sealBad {
						if e.call("sealAsm", in, func() { sealAsm(rk, ts, &dst[0], nonce, pt, aad, &tmp[0]) }) {
							sealBad = true
						} else if !bytes.Equal(nonce, keepN) || !bytes.Equal(pt, keepP) || !bytes.Equal(aad, keepA) {
							e.changed("sealAsm", in, "nonce/plaintext/aad")
							sealBad = true
						}
					}
					if !e.want("openAsm") || openBad {
						continue
					}
					// a valid ciphertext from ordinary buffers, opened from guarded ones
					ct0 := make([]byte, n+ts)
					tmp0 := make([]byte, 32)
					sealAsm(&encN[0], ts, &ct0[0], keepN, keepP, keepA, &tmp0[0])
					for _, flip := range []bool{false, true} {
						ct := vgBuf(n+ts, hi)
						copy(ct, ct0)
						if flip {
							ct[len(ct)-1] ^= 1
						}
						keepC := append([]byte{}, ct...)
						out := vgBuf(n, hi)
						res := -1
						inn := fmt.Sprintf("%s,flip=%v", in, flip)
						if e.call("openAsm", inn, func() { res = openAsm(rk, ts, vgPtr(out), nonce, ct, aad, &tmp[0]) }) {
							openBad = true
							break
						}
						if !bytes.Equal(ct, keepC) || !bytes.Equal(nonce, keepN) || !bytes.Equal(aad, keepA) {
							e.changed("openAsm", inn, "ciphertext/nonce/aad")
							openBad = true
							break
						}
						if (res == 1) != !flip || (!flip && !bytes.Equal(out, keepP)) {
							e.fails++
							fmt.Printf("REPLAY-FAIL case=openAsm input=%s wrong-result=%d\n", inn, res)
							openBad = true
							break
						}
					}
				}
			}
		}
	}
	if e.fails == 0 {
		fmt.Printf("REPLAY-OK case=guard n=%d\n", e.runs)
	} else {
		t.Fail()
	}
}
