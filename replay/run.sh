#!/usr/bin/env bash
# Differential replay runner.
#   run.sh <pkgdir, e.g. sm2/internal/fiat> [repo root, default /repo]
# Injects /verif/replay/<x>_replay_test.go into the real package as
# zz_replay_test.go with `go test -overlay` (nothing is written into the repo)
# and runs TestVerifReplay. VERIF_FUNCS / VERIF_SEED / VERIF_N / VERIF_TIMEOUT
# are passed through. -v is used so that the REPLAY-OK lines of passing runs are
# shown too. Exit status = exit status of go test.
set -u

if [ $# -lt 1 ]; then
    echo "usage: $0 <pkgdir> [repo root]" >&2
    exit 2
fi

here="$(cd "$(dirname "${BASH_SOURCE[0]}")" && pwd)"
pkg="${1#./}"
pkg="${pkg%/}"
repo="${2:-/repo}"
repo="$(cd "$repo" && pwd)" || exit 2

dstname=zz_replay_test.go
testre='^TestVerifReplay$'
case "$pkg" in
    utils)             src=utils_replay_test.go ;;
    sm2/internal/fiat) src=fiat_replay_test.go ;;
    sm2/internal)      src=internal_replay_test.go ;;
    sm2)               src=sm2_replay_test.go ;;
    sm3)               src=sm3_replay_test.go ;;
    sm4)               src=sm4_replay_test.go ;;
    sm4guard)          src=sm4_guard_test.go; pkg=sm4; dstname=zz_guard_test.go; testre='^TestVerifGuard$' ;;
    sm4arm64gcm)       src=sm4_arm64gcm_test.go.tmpl; pkg=sm4; dstname=zz_arm64gcm_test.go; testre='^TestVerifArm64Gcm$'; wholefile=1 ;;
    sm4arm64glue)      src=sm4_arm64glue_test.go.tmpl; pkg=sm4; dstname=zz_arm64glue_test.go; testre='^TestVerifArm64Glue$'; extract=ensureCapacity ;;
    *) echo "run.sh: no replay test for package dir '$pkg'" >&2; exit 2 ;;
esac

if [ ! -f "$here/$src" ]; then
    echo "run.sh: missing $here/$src" >&2
    exit 2
fi
if [ ! -d "$repo/$pkg" ]; then
    echo "run.sh: missing package directory $repo/$pkg" >&2
    exit 2
fi

tmp="$(mktemp -d)"
trap 'rm -rf "$tmp"' EXIT
srcfile="$here/$src"
if [ -n "${extract:-}" ]; then
    # mechanical extraction of the named functions from the arm64 glue of the tree under test
    python3 - "$repo/sm4/sm4_gcm_arm64.go" "$here/$src" "$tmp/extracted_test.go" $extract <<'PY'
import re, sys
src, tmpl, out = sys.argv[1:4]
names = sys.argv[4:]
text = open(src).read()
body = open(tmpl).read()
for n in names:
    m = re.search(r'^func %s\(.*?^}\n' % re.escape(n), text, re.S | re.M)
    if not m:
        body += '\nfunc %sArm64(array []byte, asked int) (head, tail []byte) { panic("function %s not found in sm4_gcm_arm64.go") }\n' % (n, n)
        continue
    body += '\n' + m.group(0).replace('func %s(' % n, 'func %sArm64(' % n, 1)
open(out, 'w').write(body)
PY
    srcfile="$tmp/extracted_test.go"
fi

extra_overlay=""
if [ -n "${wholefile:-}" ]; then
    # the whole arm64 glue file, mechanically transformed (see the header of the template)
    python3 - "$repo/sm4/sm4_gcm_arm64.go" "$here/$src" "$tmp/extracted_test.go" <<'PY'
import re, sys
src, tmpl, out = sys.argv[1:4]
text = open(src).read()
# drop everything up to and including the import block
m = re.search(r'^import \((.*?)^\)\n', text, re.S | re.M)
if m:
    text = text[m.end():]
else:
    text = re.sub(r'^package \w+\n', '', text, flags=re.M)
    text = re.sub(r'^//go:build.*\n', '', text, flags=re.M)
# drop body-less declarations of the arm64-only assembly routines
text = re.sub(r'^//go:noescape\n(?=func xor\d+\()', '', text, flags=re.M)
text = re.sub(r'^func xor\d+\([^)]*\)[ \t]*\n', '', text, flags=re.M)
text = text.replace('*sm4GcmAsm)', '*sm4GcmArm64)')
text = re.sub(r'\bensureCapacity\(', 'ensureCapacityArm64(', text)
open(out, 'w').write(open(tmpl).read() + '\n' + text)
PY
    srcfile="$tmp/extracted_test.go"
    sed -i 's/unsafePointer(/unsafe.Pointer(/g; s/^import (/import (\n\t"unsafe"/' "$srcfile"
    extra_overlay=", \"$repo/$pkg/zz_replay_test.go\": \"$here/sm4_replay_test.go\""
fi

cat > "$tmp/overlay.json" <<EOF
{"Replace": {"$repo/$pkg/$dstname": "$srcfile"$extra_overlay}}
EOF

export GOFLAGS=-mod=mod GOPROXY=off GOSUMDB=off GOTOOLCHAIN=local
export VERIF_FUNCS="${VERIF_FUNCS:-}" VERIF_SEED="${VERIF_SEED:-}" VERIF_N="${VERIF_N:-}"

cd "$repo" || exit 2
go test -overlay "$tmp/overlay.json" -vet=off -count=1 -v \
    -timeout "${VERIF_TIMEOUT:-300}s" -run "$testre" "./$pkg"
exit $?
