#!/usr/bin/env bash
# Differential replay runner.
#   run.sh <pkgdir, e.g. sm2/internal/fiat> [repo root, default /repo]
# Injects /verif/replay/<x>_replay_test.go into the real package as
# zz_replay_test.go with `go test -overlay` (nothing is written into the repo)
# and runs TestVerifReplay. VERIF_FUNCS / VERIF_SEED / VERIF_N / VERIF_TIMEOUT
# are passed through. -v is used so that the REPLAY-OK lines of passing runs are
# shown too. Exit status = exit status of go test.
set -u

if [ $# -lt 1 ]; then
    echo "usage: $0 <pkgdir> [repo root]" >&2
    exit 2
fi

here="$(cd "$(dirname "${BASH_SOURCE[0]}")" && pwd)"
pkg="${1#./}"
pkg="${pkg%/}"
repo="${2:-/repo}"
repo="$(cd "$repo" && pwd)" || exit 2

dstname=zz_replay_test.go
testre='^TestVerifReplay$'
case "$pkg" in
    utils)             src=utils_replay_test.go ;;
    sm2/internal/fiat) src=fiat_replay_test.go ;;
    sm2/internal)      src=internal_replay_test.go ;;
    sm2)               src=sm2_replay_test.go ;;
    sm3)               src=sm3_replay_test.go ;;
    sm4)               src=sm4_replay_test.go ;;
    sm4guard)          src=sm4_guard_test.go; pkg=sm4; dstname=zz_guard_test.go; testre='^TestVerifGuard$' ;;
    *) echo "run.sh: no replay test for package dir '$pkg'" >&2; exit 2 ;;
esac

if [ ! -f "$here/$src" ]; then
    echo "run.sh: missing $here/$src" >&2
    exit 2
fi
if [ ! -d "$repo/$pkg" ]; then
    echo "run.sh: missing package directory $repo/$pkg" >&2
    exit 2
fi

tmp="$(mktemp -d)"
trap 'rm -rf "$tmp"' EXIT

cat > "$tmp/overlay.json" <<EOF
{"Replace": {"$repo/$pkg/$dstname": "$here/$src"}}
EOF

export GOFLAGS=-mod=mod GOPROXY=off GOSUMDB=off GOTOOLCHAIN=local
export VERIF_FUNCS="${VERIF_FUNCS:-}" VERIF_SEED="${VERIF_SEED:-}" VERIF_N="${VERIF_N:-}"

cd "$repo" || exit 2
go test -overlay "$tmp/overlay.json" -vet=off -count=1 -v \
    -timeout "${VERIF_TIMEOUT:-300}s" -run "$testre" "./$pkg"
exit $?
