// Differential replay test for package internal (github.com/bilibili/smgo/sm2/internal).
// Injected with `go test -overlay` as /repo/sm2/internal/zz_replay_test.go; see run.sh.
// The reference is affine chord-and-tangent arithmetic over math/big on the curve
// y^2 = x^3 - 3x + b (mod p) of GM/T 0003.5 (SM2 recommended parameters), with an
// explicit point at infinity and double-and-add scalar multiplication.

package internal

import (
	"bytes"
	"encoding/hex"
	"fmt"
	"hash/fnv"
	"math/big"
	"math/rand"
	"os"
	"strconv"
	"strings"
	"testing"

	"github.com/bilibili/smgo/sm2/internal/fiat"
)

// ---------------------------------------------------------------- harness

type vrEnv struct {
	t    *testing.T
	seed int64
	n    int
	sel  map[string]bool // nil = all
	seen map[string]bool
}

type vrCase struct {
	env   *vrEnv
	name  string
	rng   *rand.Rand
	n     int
	runs  int
	fails int
	skip  string // non-empty: case could not run here (reason)
}

func vrNewEnv(t *testing.T) *vrEnv {
	e := &vrEnv{t: t, seed: 1, n: 200, seen: map[string]bool{}}
	if s := strings.TrimSpace(os.Getenv("VERIF_SEED")); s != "" {
		v, err := strconv.ParseInt(s, 10, 64)
		if err != nil {
			t.Fatalf("bad VERIF_SEED %q", s)
		}
		e.seed = v
	}
	if s := strings.TrimSpace(os.Getenv("VERIF_N")); s != "" {
		v, err := strconv.Atoi(s)
		if err != nil || v < 0 {
			t.Fatalf("bad VERIF_N %q", s)
		}
		e.n = v
	}
	if s := strings.TrimSpace(os.Getenv("VERIF_FUNCS")); s != "" && s != "all" {
		e.sel = map[string]bool{}
		for _, f := range strings.Split(s, ",") {
			if f = strings.TrimSpace(f); f != "" {
				e.sel[f] = true
			}
		}
	}
	return e
}

// run executes one case if selected. Every case gets its own generator that is
// derived from VERIF_SEED and the case name only, so that a single case
// selected with VERIF_FUNCS replays exactly the inputs of the full run.
func (e *vrEnv) run(name string, f func(c *vrCase)) {
	e.seen[name] = true
	if e.sel != nil && !e.sel[name] {
		return
	}
	h := fnv.New64a()
	h.Write([]byte(name))
	master := rand.New(rand.NewSource(e.seed))
	sub := master.Int63() ^ int64(h.Sum64()&0x7fffffffffffffff)
	c := &vrCase{env: e, name: name, rng: rand.New(rand.NewSource(sub)), n: e.n}
	func() {
		defer func() {
			if r := recover(); r != nil {
				c.fail("harness", fmt.Sprintf("panic:%v", r), "no panic")
			}
		}()
		f(c)
	}()
	if c.skip != "" {
		fmt.Printf("REPLAY-SKIP case=%s reason=%s\n", c.name, vrOneLine(c.skip))
	} else if c.fails == 0 {
		fmt.Printf("REPLAY-OK case=%s n=%d\n", c.name, c.runs)
	}
}

// runExtra is like run for cases that are outside the documented contract of the
// package (e.g. undocumented aliasing): they are not part of "all" and run only
// when named explicitly in VERIF_FUNCS.
func (e *vrEnv) runExtra(name string, f func(c *vrCase)) {
	if e.sel == nil {
		e.seen[name] = true
		return
	}
	e.run(name, f)
}

func (e *vrEnv) finish() {
	for f := range e.sel {
		if !e.seen[f] {
			fmt.Printf("REPLAY-UNKNOWN case=%s\n", f)
			e.t.Errorf("unknown case %q", f)
		}
	}
}

func vrOneLine(s string) string {
	s = strings.ReplaceAll(s, "\n", "\\n")
	s = strings.ReplaceAll(s, " ", "_")
	if len(s) > 6000 {
		s = s[:6000] + "...(truncated)"
	}
	if s == "" {
		s = "-"
	}
	return s
}

func (c *vrCase) fail(input, got, want string) {
	c.fails++
	c.env.t.Fail()
	if c.fails <= 5 {
		fmt.Printf("REPLAY-FAIL case=%s input=%s got=%s want=%s\n", c.name, vrOneLine(input), vrOneLine(got), vrOneLine(want))
	}
}

// check counts one comparison.
func (c *vrCase) check(ok bool, input string, got, want interface{}) bool {
	c.runs++
	if !ok {
		c.fail(input, fmt.Sprint(got), fmt.Sprint(want))
	}
	return ok
}

// vrTry runs f and converts a panic into a string.
func vrTry(f func()) (panicked string) {
	defer func() {
		if r := recover(); r != nil {
			panicked = fmt.Sprintf("panic:%v", r)
		}
	}()
	f()
	return ""
}

func vrHex(b []byte) string { return hex.EncodeToString(b) }

func vrBytes(r *rand.Rand, n int) []byte {
	b := make([]byte, n)
	r.Read(b)
	return b
}

// ---------------------------------------------------------------- reference curve

func vrMustHex(s string) *big.Int {
	v, ok := new(big.Int).SetString(strings.ReplaceAll(s, " ", ""), 16)
	if !ok {
		panic("bad hex " + s)
	}
	return v
}

// GM/T 0003.5-2012 recommended curve parameters.
var (
	vrP  = vrMustHex("FFFFFFFE FFFFFFFF FFFFFFFF FFFFFFFF FFFFFFFF 00000000 FFFFFFFF FFFFFFFF")
	vrA  = vrMustHex("FFFFFFFE FFFFFFFF FFFFFFFF FFFFFFFF FFFFFFFF 00000000 FFFFFFFF FFFFFFFC")
	vrB  = vrMustHex("28E9FA9E 9D9F5E34 4D5A9E4B CF6509A7 F39789F5 15AB8F92 DDBCBD41 4D940E93")
	vrN  = vrMustHex("FFFFFFFE FFFFFFFF FFFFFFFF FFFFFFFF 7203DF6B 21C6052B 53BBF409 39D54123")
	vrGx = vrMustHex("32C4AE2C 1F198119 5F990446 6A39C994 8FE30BBF F2660BE1 715A4589 334C74C7")
	vrGy = vrMustHex("BC3736A2 F4F6779C 59BDCEE3 6B692153 D0A9877C C62A4740 02DF32E5 2139F0A0")
	vrG  = vrPt{x: vrGx, y: vrGy}
	vrO  = vrPt{inf: true}
)

type vrPt struct {
	x, y *big.Int
	inf  bool
}

func vrModP(v *big.Int) *big.Int { return v.Mod(v, vrP) }

func vrOnCurve(x, y *big.Int) bool {
	if x.Sign() < 0 || y.Sign() < 0 || x.Cmp(vrP) >= 0 || y.Cmp(vrP) >= 0 {
		return false
	}
	l := new(big.Int).Mul(y, y)
	vrModP(l)
	return l.Cmp(vrRHS(x)) == 0
}

// vrRHS returns x^3 + a*x + b mod p.
func vrRHS(x *big.Int) *big.Int {
	r := new(big.Int).Mul(x, x)
	r.Mul(r, x)
	r.Add(r, new(big.Int).Mul(vrA, x))
	r.Add(r, vrB)
	return vrModP(r)
}

func vrNeg(p vrPt) vrPt {
	if p.inf {
		return vrO
	}
	return vrPt{x: new(big.Int).Set(p.x), y: vrModP(new(big.Int).Neg(p.y))}
}

func vrEq(p, q vrPt) bool {
	if p.inf || q.inf {
		return p.inf == q.inf
	}
	return p.x.Cmp(q.x) == 0 && p.y.Cmp(q.y) == 0
}

func vrAddPt(p, q vrPt) vrPt {
	if p.inf {
		return q
	}
	if q.inf {
		return p
	}
	var lam *big.Int
	if p.x.Cmp(q.x) == 0 {
		if p.y.Cmp(q.y) != 0 || p.y.Sign() == 0 {
			return vrO // q = -p
		}
		// tangent: (3x^2 + a) / (2y)
		num := new(big.Int).Mul(p.x, p.x)
		num.Mul(num, big.NewInt(3))
		num.Add(num, vrA)
		den := new(big.Int).Lsh(p.y, 1)
		den.ModInverse(vrModP(den), vrP)
		lam = vrModP(num.Mul(num, den))
	} else {
		num := new(big.Int).Sub(q.y, p.y)
		den := new(big.Int).Sub(q.x, p.x)
		den.ModInverse(vrModP(den), vrP)
		lam = vrModP(num.Mul(num, den))
	}
	x3 := new(big.Int).Mul(lam, lam)
	x3.Sub(x3, p.x)
	x3.Sub(x3, q.x)
	vrModP(x3)
	y3 := new(big.Int).Sub(p.x, x3)
	y3.Mul(y3, lam)
	y3.Sub(y3, p.y)
	vrModP(y3)
	return vrPt{x: x3, y: y3}
}

// vrMulPt returns [k]P by left-to-right double-and-add (k >= 0, any size).
func vrMulPt(k *big.Int, p vrPt) vrPt {
	r := vrO
	for i := k.BitLen() - 1; i >= 0; i-- {
		r = vrAddPt(r, r)
		if k.Bit(i) == 1 {
			r = vrAddPt(r, p)
		}
	}
	return r
}

// vrEnc is the SEC1 uncompressed encoding (one zero byte for infinity).
func vrEnc(p vrPt) []byte {
	if p.inf {
		return []byte{0}
	}
	out := make([]byte, 65)
	out[0] = 4
	p.x.FillBytes(out[1:33])
	p.y.FillBytes(out[33:65])
	return out
}

func vrSelfTest(t *testing.T) {
	if !vrP.ProbablyPrime(20) || !vrN.ProbablyPrime(20) {
		t.Fatal("reference: p or n not prime")
	}
	if new(big.Int).Add(vrA, big.NewInt(3)).Cmp(vrP) != 0 {
		t.Fatal("reference: a != p-3")
	}
	if !vrOnCurve(vrGx, vrGy) {
		t.Fatal("reference: G not on curve")
	}
	if !vrMulPt(vrN, vrG).inf {
		t.Fatal("reference: [n]G != O")
	}
	if !vrEq(vrMulPt(new(big.Int).Sub(vrN, big.NewInt(1)), vrG), vrNeg(vrG)) {
		t.Fatal("reference: [n-1]G != -G")
	}
	// (P+Q)+R == P+(Q+R) and [a+b]G == [a]G+[b]G on fixed values
	a, b := big.NewInt(0x1234567), vrMustHex("89abcdef0123456789abcdef0123456789abcdef")
	if !vrEq(vrMulPt(new(big.Int).Add(a, b), vrG), vrAddPt(vrMulPt(a, vrG), vrMulPt(b, vrG))) {
		t.Fatal("reference: not additive")
	}
	// the package's own parameters agree with the standard's
	pr := getCurve().Params()
	if pr.P.Cmp(vrP) != 0 || pr.N.Cmp(vrN) != 0 || pr.B.Cmp(vrB) != 0 || pr.Gx.Cmp(vrGx) != 0 || pr.Gy.Cmp(vrGy) != 0 {
		fmt.Printf("REPLAY-FAIL case=params input=- got=%x,%x,%x,%x,%x want=standard_parameters\n", pr.P, pr.N, pr.B, pr.Gx, pr.Gy)
		t.Fail()
	}
}

// ---------------------------------------------------------------- helpers on real points

func vrB32(v *big.Int) []byte { return v.FillBytes(make([]byte, 32)) }

func vrElem(v *big.Int) *fiat.SM2Element {
	e, err := new(fiat.SM2Element).SetBytes(vrB32(v))
	if err != nil {
		panic("vrElem: " + err.Error())
	}
	return e
}

func vrRandBig(r *rand.Rand, m *big.Int) *big.Int {
	b := make([]byte, 40)
	r.Read(b)
	v := new(big.Int).SetBytes(b)
	return v.Mod(v, m)
}

// vrLambda returns a random non-zero projective scaling factor; 1 sometimes.
func vrLambda(r *rand.Rand) *big.Int {
	switch r.Intn(6) {
	case 0:
		return big.NewInt(1)
	case 1:
		return new(big.Int).Sub(vrP, big.NewInt(1))
	case 2:
		return big.NewInt(int64(2 + r.Intn(5)))
	}
	for {
		l := vrRandBig(r, vrP)
		if l.Sign() != 0 {
			return l
		}
	}
}

// vrMk builds the projective point (x*l : y*l : l) for affine p, (0 : l : 0) for infinity.
func vrMk(p vrPt, l *big.Int) *SM2Point {
	le := vrElem(l)
	if p.inf {
		return &SM2Point{x: new(fiat.SM2Element), y: le, z: new(fiat.SM2Element)}
	}
	return &SM2Point{
		x: new(fiat.SM2Element).Mul(vrElem(p.x), le),
		y: new(fiat.SM2Element).Mul(vrElem(p.y), le),
		z: le,
	}
}

type vrSnap [3][32]byte

func vrSnapOf(p *SM2Point) (s vrSnap) {
	copy(s[0][:], p.x.Bytes())
	copy(s[1][:], p.y.Bytes())
	copy(s[2][:], p.z.Bytes())
	return
}

func vrPS(p vrPt) string {
	if p.inf {
		return "O"
	}
	return fmt.Sprintf("(%x,%x)", p.x, p.y)
}

func vrProj(p *SM2Point) string {
	return fmt.Sprintf("(%x:%x:%x)", p.x.Bytes(), p.y.Bytes(), p.z.Bytes())
}

// vrPool is a set of reference points [k]G with their scalars.
type vrPool struct {
	k  []*big.Int
	pt []vrPt
}

func vrNewPool(c *vrCase, size int) *vrPool {
	pl := &vrPool{}
	add := func(k *big.Int) {
		pl.k = append(pl.k, k)
		pl.pt = append(pl.pt, vrMulPt(k, vrG))
	}
	for _, k := range []int64{1, 2, 3, 4, 5, 15, 16} {
		add(big.NewInt(k))
		add(new(big.Int).Sub(vrN, big.NewInt(k)))
	}
	half := new(big.Int).Rsh(vrN, 1)
	add(half)
	add(new(big.Int).Add(half, big.NewInt(1)))
	for i := 0; i < size; i++ {
		add(vrRandBig(c.rng, vrN))
	}
	return pl
}

func (pl *vrPool) pick(r *rand.Rand) (int, vrPt) {
	i := r.Intn(len(pl.pt))
	return i, pl.pt[i]
}

// vrSmallXPoint finds an on-curve point with x < 2^32 (so that x+p fits 32 bytes).
func vrSmallXPoint() vrPt {
	e := new(big.Int).Add(vrP, big.NewInt(1))
	e.Rsh(e, 2) // p = 3 mod 4: sqrt(v) = v^((p+1)/4)
	for x := int64(0); ; x++ {
		bx := big.NewInt(x)
		rhs := vrRHS(bx)
		y := new(big.Int).Exp(rhs, e, vrP)
		if new(big.Int).Exp(y, big.NewInt(2), vrP).Cmp(rhs) == 0 {
			return vrPt{x: bx, y: y}
		}
	}
}

// vrSmallCoordPoints: on-curve points whose x has one, two or three leading zero 64-bit words (x just above 0, 2^64,
// 2^128) or sits at the word boundary 2^192, both signs of y. Conversions that work word by word or strip leading
// zeros meet their corner cases here (random points never do: probability 2^-64).
func vrSmallCoordPoints() []vrPt {
	e := new(big.Int).Add(vrP, big.NewInt(1))
	e.Rsh(e, 2)
	var out []vrPt
	for _, base := range []*big.Int{big.NewInt(1), new(big.Int).Lsh(big.NewInt(1), 64), new(big.Int).Lsh(big.NewInt(1), 128), new(big.Int).Sub(new(big.Int).Lsh(big.NewInt(1), 192), big.NewInt(8))} {
		found := 0
		for d := int64(0); d < 64 && found < 2; d++ {
			bx := new(big.Int).Add(base, big.NewInt(d))
			rhs := vrRHS(bx)
			y := new(big.Int).Exp(rhs, e, vrP)
			if new(big.Int).Exp(y, big.NewInt(2), vrP).Cmp(rhs) == 0 {
				out = append(out, vrPt{x: bx, y: y}, vrPt{x: bx, y: new(big.Int).Sub(vrP, y)})
				found++
			}
		}
	}
	return out
}

// ---------------------------------------------------------------- cases: group law

func vrCaseAdd(c *vrCase) {
	pl := vrNewPool(c, 30)
	one := func(a, b vrPt, mode int, tag string) {
		want := vrEnc(vrAddPt(a, b))
		p1 := vrMk(a, vrLambda(c.rng))
		p2 := vrMk(b, vrLambda(c.rng))
		if mode >= 3 && !vrEq(a, b) {
			mode = 0
		}
		q := NewSM2Point()
		switch mode {
		case 1:
			q = p1
		case 2:
			q = p2
		case 3:
			p2 = p1
		case 4:
			p2 = p1
			q = p1
		default:
			q = vrMk(pl.pt[c.rng.Intn(len(pl.pt))], vrLambda(c.rng)) // stale content
		}
		s1, s2 := vrSnapOf(p1), vrSnapOf(p2)
		in := fmt.Sprintf(`{"p1":"%s","p2":"%s","proj1":"%s","proj2":"%s","alias":%d,"kind":"%s"}`, vrPS(a), vrPS(b), vrProj(p1), vrProj(p2), mode, tag)
		var got []byte
		var ret *SM2Point
		if p := vrTry(func() { ret = q.Add(p1, p2); got = q.Bytes() }); p != "" {
			c.check(false, in, p, vrHex(want))
			return
		}
		if ret != q {
			c.check(false, in, "did not return receiver", "receiver")
			return
		}
		if bytes.Equal(got, want) {
			if q != p1 && vrSnapOf(p1) != s1 {
				c.check(false, in, "p1 modified", "p1 unchanged")
				return
			}
			if q != p2 && vrSnapOf(p2) != s2 {
				c.check(false, in, "p2 modified", "p2 unchanged")
				return
			}
		}
		c.check(bytes.Equal(got, want), in, vrHex(got), vrHex(want))
	}
	// special pairs, each in every aliasing mode
	for i, a := range pl.pt[:18] {
		for mode := 0; mode <= 4; mode++ {
			one(a, a, mode, "P+P")
			one(a, vrNeg(a), mode, "P+(-P)")
			one(a, vrO, mode, "P+O")
			one(vrO, a, mode, "O+P")
			one(a, pl.pt[(i+1)%18], mode, "P+Q")
		}
	}
	for mode := 0; mode <= 4; mode++ {
		one(vrO, vrO, mode, "O+O")
	}
	// points of the form (x, 0) do not exist on this curve (n is odd); points with x = 0 or small x
	sp := vrSmallXPoint()
	for mode := 0; mode <= 4; mode++ {
		one(sp, sp, mode, "smallx+smallx")
		one(sp, vrNeg(sp), mode, "smallx-smallx")
		one(sp, vrG, mode, "smallx+G")
	}
	for i := 0; i < c.n; i++ {
		_, a := pl.pick(c.rng)
		_, b := pl.pick(c.rng)
		one(a, b, c.rng.Intn(3), "random")
	}
}

func vrCaseDouble(c *vrCase) {
	pl := vrNewPool(c, 30)
	one := func(a vrPt, alias bool) {
		want := vrEnc(vrAddPt(a, a))
		p := vrMk(a, vrLambda(c.rng))
		q := vrMk(vrG, vrLambda(c.rng))
		if alias {
			q = p
		}
		s := vrSnapOf(p)
		in := fmt.Sprintf(`{"p":"%s","proj":"%s","alias":%v}`, vrPS(a), vrProj(p), alias)
		var got []byte
		var ret *SM2Point
		if pn := vrTry(func() { ret = q.Double(p); got = q.Bytes() }); pn != "" {
			c.check(false, in, pn, vrHex(want))
			return
		}
		if ret != q || (!alias && vrSnapOf(p) != s) {
			c.check(false, in, "receiver not returned or operand modified", "receiver returned, operand unchanged")
			return
		}
		c.check(bytes.Equal(got, want), in, vrHex(got), vrHex(want))
	}
	one(vrO, false)
	one(vrO, true)
	sp := vrSmallXPoint()
	one(sp, false)
	one(sp, true)
	for _, a := range pl.pt {
		one(a, false)
		one(a, true)
	}
	for i := 0; i < c.n; i++ {
		_, a := pl.pick(c.rng)
		one(a, i&1 == 0)
	}
}

func vrCaseNegate(c *vrCase) {
	pl := vrNewPool(c, 30)
	one := func(a vrPt, alias bool) {
		want := vrEnc(vrNeg(a))
		p := vrMk(a, vrLambda(c.rng))
		q := vrMk(vrG, vrLambda(c.rng))
		if alias {
			q = p
		}
		s := vrSnapOf(p)
		in := fmt.Sprintf(`{"p":"%s","proj":"%s","alias":%v}`, vrPS(a), vrProj(p), alias)
		var got []byte
		var ret *SM2Point
		if pn := vrTry(func() { ret = q.Negate(p); got = q.Bytes() }); pn != "" {
			c.check(false, in, pn, vrHex(want))
			return
		}
		if ret != q || (!alias && vrSnapOf(p) != s) {
			c.check(false, in, "receiver not returned or operand modified", "receiver returned, operand unchanged")
			return
		}
		if !c.check(bytes.Equal(got, want), in, vrHex(got), vrHex(want)) {
			return
		}
		// P + (-P) = O with the real Add
		sum := NewSM2Point().Add(vrMk(a, vrLambda(c.rng)), q)
		c.check(bytes.Equal(sum.Bytes(), []byte{0}), in+":P+Negate(P)", vrHex(sum.Bytes()), "00")
	}
	one(vrO, false)
	one(vrO, true)
	for _, a := range pl.pt {
		one(a, false)
		one(a, true)
	}
	for i := 0; i < c.n; i++ {
		_, a := pl.pick(c.rng)
		one(a, i&1 == 0)
	}
}

func vrCaseSelectSet(c *vrCase) {
	pl := vrNewPool(c, 10)
	pts := append([]vrPt{vrO}, pl.pt...)
	for i := 0; i < c.n+8; i++ {
		a := pts[c.rng.Intn(len(pts))]
		b := pts[c.rng.Intn(len(pts))]
		p1 := vrMk(a, vrLambda(c.rng))
		p2 := vrMk(b, vrLambda(c.rng))
		cond := i & 1
		want := p2
		if cond == 1 {
			want = p1
		}
		ws := vrSnapOf(want)
		q := NewSM2Point()
		switch (i / 2) % 3 {
		case 1:
			q = p1
		case 2:
			q = p2
		}
		in := fmt.Sprintf(`{"p1":"%s","p2":"%s","cond":%d,"alias":%d}`, vrProj(p1), vrProj(p2), cond, (i/2)%3)
		var ret *SM2Point
		if pn := vrTry(func() { ret = q.Select(p1, p2, cond) }); pn != "" {
			c.check(false, in, pn, "selected point")
			continue
		}
		c.check(ret == q && vrSnapOf(q) == ws, in, vrProj(q), fmt.Sprintf("p%d", 2-cond))
		// Set
		r := NewSM2Point()
		rr := r.Set(p1)
		c.check(rr == r && vrSnapOf(r) == vrSnapOf(p1) && r.x != p1.x && r.y != p1.y && r.z != p1.z, in+":Set", vrProj(r), vrProj(p1))
	}
	// constructors
	o := NewSM2Point()
	c.check(bytes.Equal(o.Bytes(), []byte{0}), "NewSM2Point", vrHex(o.Bytes()), "00")
	g := NewSM2Generator()
	c.check(bytes.Equal(g.Bytes(), vrEnc(vrG)), "NewSM2Generator", vrHex(g.Bytes()), vrHex(vrEnc(vrG)))
	g.Double(g) // must not change the package's generator
	g2 := NewSM2Generator()
	c.check(bytes.Equal(g2.Bytes(), vrEnc(vrG)), "NewSM2Generator after mutation of a copy", vrHex(g2.Bytes()), vrHex(vrEnc(vrG)))
}

// ---------------------------------------------------------------- cases: encoding

func vrCaseBytes(c *vrCase) {
	pl := vrNewPool(c, 30)
	one := func(a vrPt, l *big.Int) {
		p := vrMk(a, l)
		s := vrSnapOf(p)
		want := vrEnc(a)
		wx := new(big.Int)
		if !a.inf {
			wx = a.x
		}
		in := fmt.Sprintf(`{"p":"%s","proj":"%s"}`, vrPS(a), vrProj(p))
		var b1, b2 []byte
		var x1, x2 *big.Int
		if pn := vrTry(func() { b1 = p.Bytes() }); pn != "" {
			c.check(false, in+":Bytes", pn, vrHex(want))
			return
		}
		if pn := vrTry(func() { b2 = p.Bytes_Unsafe() }); pn != "" {
			c.check(false, in+":Bytes_Unsafe", pn, vrHex(want))
			return
		}
		if pn := vrTry(func() { x1 = p.GetAffineX() }); pn != "" {
			c.check(false, in+":GetAffineX", pn, wx.Text(16))
			return
		}
		if pn := vrTry(func() { x2 = p.GetAffineX_Unsafe() }); pn != "" {
			c.check(false, in+":GetAffineX_Unsafe", pn, wx.Text(16))
			return
		}
		c.check(bytes.Equal(b1, want), in+":Bytes", vrHex(b1), vrHex(want))
		c.check(bytes.Equal(b2, want), in+":Bytes_Unsafe", vrHex(b2), vrHex(want))
		c.check(x1 != nil && x1.Cmp(wx) == 0, in+":GetAffineX", x1, wx)
		c.check(x2 != nil && x2.Cmp(wx) == 0, in+":GetAffineX_Unsafe", x2, wx)
		c.check(vrSnapOf(p) == s, in+":unchanged", vrProj(p), "point unchanged")
		// round trip through SetBytes
		q := vrMk(vrG, big.NewInt(7))
		r, err := q.SetBytes(b1)
		ok := err == nil && r == q && bytes.Equal(q.Bytes(), want)
		c.check(ok, in+":SetBytes(Bytes())", fmt.Sprintf("err=%v,%s", err, vrHex(q.Bytes())), vrHex(want))
	}
	one(vrO, big.NewInt(1))
	one(vrO, big.NewInt(5))
	sp := vrSmallXPoint() // leading zero bytes in x
	one(sp, big.NewInt(1))
	one(sp, vrLambda(c.rng))
	for _, a := range vrSmallCoordPoints() {
		one(a, big.NewInt(1))
		one(a, vrLambda(c.rng))
	}
	for _, a := range pl.pt {
		one(a, big.NewInt(1))
		one(a, vrLambda(c.rng))
	}
	// points whose x or y has leading zero bytes: search a few
	found := 0
	for k := int64(1); k < 4000 && found < 6; k++ {
		a := vrMulPt(big.NewInt(k*7919), vrG)
		if a.x.BitLen() <= 248 || a.y.BitLen() <= 248 {
			one(a, vrLambda(c.rng))
			found++
		}
	}
	for i := 0; i < c.n; i++ {
		_, a := pl.pick(c.rng)
		one(a, vrLambda(c.rng))
	}
}

func vrCaseSetBytes(c *vrCase) {
	pl := vrNewPool(c, 20)
	one := func(b []byte, tag string) {
		b0 := append([]byte(nil), b...)
		// reference decision
		var want []byte // nil = reject
		switch {
		case len(b) == 1 && b[0] == 0:
			want = []byte{0}
		case len(b) == 65 && b[0] == 4:
			x := new(big.Int).SetBytes(b[1:33])
			y := new(big.Int).SetBytes(b[33:65])
			if vrOnCurve(x, y) {
				want = append([]byte(nil), b...)
			}
		}
		q := vrMk(pl.pt[c.rng.Intn(len(pl.pt))], vrLambda(c.rng))
		s := vrSnapOf(q)
		in := fmt.Sprintf(`{"len":%d,"b":"%s","kind":"%s"}`, len(b), vrHex(b), tag)
		var r *SM2Point
		var err error
		if pn := vrTry(func() { r, err = q.SetBytes(b) }); pn != "" {
			c.check(false, in, pn, fmt.Sprintf("accept=%v", want != nil))
			return
		}
		if !bytes.Equal(b, b0) {
			c.check(false, in, "input modified", "input unchanged")
			return
		}
		if want != nil {
			ok := err == nil && r == q && bytes.Equal(q.Bytes(), want)
			c.check(ok, in, fmt.Sprintf("err=%v,returnsReceiver=%v,bytes=%s", err, r == q, vrHex(q.Bytes())), "err=<nil>,bytes="+vrHex(want))
		} else {
			ok := err != nil && r == nil && vrSnapOf(q) == s
			c.check(ok, in, fmt.Sprintf("err=%v,nil=%v,receiverUnchanged=%v", err, r == nil, vrSnapOf(q) == s), "err!=nil,nil=true,receiverUnchanged=true")
		}
	}
	one(nil, "nil")
	one([]byte{}, "empty")
	one([]byte{0}, "infinity")
	for _, a := range vrSmallCoordPoints() {
		one(vrEnc(a), "small coordinate")
		// the same x plus p where that still fits 32 bytes: non-canonical, must be rejected
		xp := new(big.Int).Add(a.x, vrP)
		if xp.BitLen() <= 256 {
			b := vrEnc(a)
			copy(b[1:33], vrB32(xp))
			one(b, "small x plus p")
		}
	}
	for _, v := range []byte{1, 2, 3, 4, 5, 0xff} {
		one([]byte{v}, "one byte")
	}
	one([]byte{0, 0}, "two zero bytes")
	sp := vrSmallXPoint()
	pts := append([]vrPt{vrG, vrNeg(vrG), sp, vrNeg(sp)}, pl.pt...)
	for _, a := range pts {
		enc := vrEnc(a)
		one(enc, "valid")
		for _, pre := range []byte{0, 1, 2, 3, 5, 6, 7, 0x40, 0x84, 0xff} {
			e := append([]byte{}, enc...)
			e[0] = pre
			one(e, "wrong prefix")
		}
		one(enc[:64], "truncated 64")
		one(enc[:33], "truncated 33")
		one(enc[1:], "no prefix")
		one(append(append([]byte{}, enc...), 0), "66 bytes")
		one(append([]byte{0}, enc...), "leading zero 66")
		for _, pre := range []byte{0, 2, 3} { // compressed-looking
			e := append([]byte{pre}, enc[1:33]...)
			one(e, "compressed form")
		}
		// off curve: y+1, x+1, swapped, y negated with x changed
		y1 := new(big.Int).Add(a.y, big.NewInt(1))
		y1.Mod(y1, vrP)
		one(vrEnc(vrPt{x: a.x, y: y1}), "y+1")
		x1 := new(big.Int).Add(a.x, big.NewInt(1))
		x1.Mod(x1, vrP)
		one(vrEnc(vrPt{x: x1, y: a.y}), "x+1")
		one(vrEnc(vrPt{x: a.y, y: a.x}), "swapped")
		one(vrEnc(vrPt{x: a.x, y: new(big.Int)}), "y=0")
		one(vrEnc(vrPt{x: new(big.Int), y: new(big.Int)}), "(0,0)")
		// single bit flips
		for j := 0; j < 4; j++ {
			e := append([]byte{}, enc...)
			bit := c.rng.Intn(65 * 8)
			e[bit/8] ^= 1 << uint(bit%8)
			one(e, "bit flip")
		}
	}
	// non-canonical coordinates: x+p with (x mod p, y) on the curve
	xp := new(big.Int).Add(sp.x, vrP)
	e := make([]byte, 65)
	e[0] = 4
	xp.FillBytes(e[1:33])
	sp.y.FillBytes(e[33:65])
	one(e, "x+p on curve after reduction")
	// a point with small y does not come for free; still encode y >= p patterns
	for _, d := range []int64{0, 1, 2} {
		for _, which := range []int{0, 1, 2} {
			e := vrEnc(vrG)
			v := new(big.Int).Add(vrP, big.NewInt(d))
			if which == 0 || which == 2 {
				v.FillBytes(e[1:33])
			}
			if which == 1 || which == 2 {
				v.FillBytes(e[33:65])
			}
			one(e, "coordinate >= p")
		}
	}
	ff := bytes.Repeat([]byte{0xff}, 65)
	ff[0] = 4
	one(ff, "all ff")
	one(append([]byte{4}, make([]byte, 64)...), "all zero")
	for i := 0; i < c.n; i++ {
		b := vrBytes(c.rng, 65)
		b[0] = 4
		one(b, "random 65")
		l := c.rng.Intn(80)
		one(vrBytes(c.rng, l), "random length")
	}
}

func vrCaseCheckOnCurve(c *vrCase) {
	pl := vrNewPool(c, 20)
	one := func(x, y *big.Int) {
		want := vrOnCurve(x, y)
		in := fmt.Sprintf(`{"x":"%x","y":"%x"}`, x, y)
		var err error
		if pn := vrTry(func() { err = Sm2CheckOnCurve(vrElem(x), vrElem(y)) }); pn != "" {
			c.check(false, in, pn, want)
			return
		}
		c.check((err == nil) == want, in, fmt.Sprintf("err=%v", err), fmt.Sprintf("oncurve=%v", want))
	}
	sp := vrSmallXPoint()
	for _, a := range append([]vrPt{vrG, sp}, pl.pt...) {
		one(a.x, a.y)
		one(a.x, vrModP(new(big.Int).Neg(a.y)))
		one(a.y, a.x)
		one(a.x, vrModP(new(big.Int).Add(a.y, big.NewInt(1))))
		one(vrModP(new(big.Int).Add(a.x, big.NewInt(1))), a.y)
	}
	z := new(big.Int)
	pm1 := new(big.Int).Sub(vrP, big.NewInt(1))
	for _, x := range []*big.Int{z, big.NewInt(1), pm1} {
		for _, y := range []*big.Int{z, big.NewInt(1), pm1} {
			one(x, y)
		}
	}
	for i := 0; i < c.n; i++ {
		one(vrRandBig(c.rng, vrP), vrRandBig(c.rng, vrP))
	}
}

// ---------------------------------------------------------------- cases: scalar multiplication

type vrScheme struct{ window, sub, iter, rem int }

var vrSchemes = []vrScheme{{6, 3, 14, 4}, {5, 3, 17, 1}, {4, 2, 32, 0}, {7, 3, 12, 4}}

// vrScalars32 returns boundary 32-byte scalars.
func vrScalars32(c *vrCase, full bool) [][]byte {
	var out [][]byte
	add := func(v *big.Int) { out = append(out, vrB32(v)) }
	two256 := new(big.Int).Lsh(big.NewInt(1), 256)
	for _, k := range []int64{0, 1, 2, 3, 15, 16, 17, 31, 32, 63, 64, 255, 256} {
		add(big.NewInt(k))
	}
	for d := int64(-3); d <= 3; d++ {
		add(new(big.Int).Add(vrN, big.NewInt(d)))
	}
	add(new(big.Int).Sub(two256, big.NewInt(1)))
	add(new(big.Int).Sub(two256, big.NewInt(2)))
	add(new(big.Int).Rsh(vrN, 1))
	add(new(big.Int).Add(new(big.Int).Rsh(vrN, 1), big.NewInt(1)))
	add(new(big.Int).Sub(vrP, big.NewInt(1)))
	add(vrP)
	out = append(out, bytes.Repeat([]byte{0xaa}, 32), bytes.Repeat([]byte{0x55}, 32), bytes.Repeat([]byte{0x0f}, 32), bytes.Repeat([]byte{0xf0}, 32), bytes.Repeat([]byte{0x80}, 32), bytes.Repeat([]byte{0x01}, 32))
	step := 1
	if !full {
		step = 5
	}
	for i := 0; i < 256; i += step { // single bit, and all ones below it
		add(new(big.Int).Lsh(big.NewInt(1), uint(i)))
		add(new(big.Int).Sub(new(big.Int).Lsh(big.NewInt(1), uint(i)), big.NewInt(1)))
	}
	if full {
		// every window of every scheme all ones: bits {t*sub*iter + i + j*iter + rem, t < window}
		for _, s := range vrSchemes {
			for i := 0; i < s.iter; i++ {
				for j := 0; j < s.sub; j++ {
					v := new(big.Int)
					for t := 0; t < s.window; t++ {
						v.SetBit(v, t*s.sub*s.iter+i+j*s.iter+s.rem, 1)
					}
					add(v)
				}
			}
			if s.rem > 0 { // the remainder window all ones, and everything except it
				add(big.NewInt(int64(1)<<uint(s.rem) - 1))
				v := new(big.Int).Sub(two256, big.NewInt(int64(1)<<uint(s.rem)))
				add(v)
			}
		}
	}
	return out
}

func vrRandScalar32(r *rand.Rand) []byte {
	b := make([]byte, 32)
	r.Read(b)
	switch r.Intn(8) {
	case 0:
		for j := 0; j < 1+r.Intn(31); j++ {
			b[j] = 0
		}
	case 1:
		for j := 0; j < 1+r.Intn(31); j++ {
			b[j] = 0xff
		}
	case 2:
		for j := 0; j < 1+r.Intn(31); j++ {
			b[31-j] = 0
		}
	case 3:
		for j := range b {
			if r.Intn(3) > 0 {
				b[j] = 0
			}
		}
	}
	return b
}

func vrBaseMultCase(name string, f func([]byte) (*SM2Point, error)) func(c *vrCase) {
	return func(c *vrCase) {
		one := func(k []byte) {
			k0 := append([]byte(nil), k...)
			want := vrEnc(vrMulPt(new(big.Int).SetBytes(k), vrG))
			in := fmt.Sprintf(`{"k":"%s"}`, vrHex(k))
			var p *SM2Point
			var err error
			if pn := vrTry(func() { p, err = f(k) }); pn != "" {
				c.check(false, in, pn, vrHex(want))
				return
			}
			if err != nil || p == nil {
				c.check(false, in, fmt.Sprintf("err=%v", err), vrHex(want))
				return
			}
			if !bytes.Equal(k, k0) {
				c.check(false, in, "scalar modified", "scalar unchanged")
				return
			}
			got := p.Bytes()
			c.check(bytes.Equal(got, want), in, vrHex(got), vrHex(want))
		}
		for _, k := range vrScalars32(c, true) {
			one(k)
		}
		for i := 0; i < c.n; i++ {
			one(vrRandScalar32(c.rng))
		}
		// wrong lengths: the algorithm needs exactly 32 bytes; it must say so, not panic
		for _, l := range []int{0, 1, 31, 33, 64} {
			k := vrBytes(c.rng, l)
			in := fmt.Sprintf(`{"k":"%s","len":%d}`, vrHex(k), l)
			var p *SM2Point
			var err error
			if pn := vrTry(func() { p, err = f(k) }); pn != "" {
				c.check(false, in, pn, "error")
				continue
			}
			c.check(err != nil && p == nil, in, fmt.Sprintf("err=%v,point==nil:%v", err, p == nil), "err!=nil,point=nil")
		}
	}
}

// vrCaseWindows: every value of every window at every position of the production schedule (6-3-14 plus the
// 4-bit remainder), one window at a time, through the public entry ScalarBaseMult: 42*63 + 15 = 2661 scalars
// (exhaustive when n >= 1000, every 7th otherwise). Also checks that the schedule of every scheme covers each of
// the 256 bit positions exactly once.
func vrCaseWindows(c *vrCase) {
	for _, s := range vrSchemes {
		seen := make([]int, 256)
		for i := 0; i < s.iter; i++ {
			for j := 0; j < s.sub; j++ {
				for t := 0; t < s.window; t++ {
					seen[t*s.sub*s.iter+i+j*s.iter+s.rem]++
				}
			}
		}
		for b := 0; b < s.rem; b++ {
			seen[b]++
		}
		for b, n := range seen {
			c.check(n == 1, fmt.Sprintf(`{"scheme":"%d-%d-%d-%d","bit":%d}`, s.window, s.sub, s.iter, s.rem, b), n, 1)
		}
	}
	s := vrSchemes[0]
	stride := 7
	if c.n >= 1000 {
		stride = 1
	}
	cnt := 0
	one := func(v *big.Int) {
		cnt++
		if cnt%stride != 0 {
			return
		}
		k := vrB32(v)
		want := vrEnc(vrMulPt(v, vrG))
		in := fmt.Sprintf(`{"k":"%s"}`, vrHex(k))
		var p *SM2Point
		var err error
		if pn := vrTry(func() { p, err = ScalarBaseMult(k) }); pn != "" || err != nil || p == nil {
			c.check(false, in, fmt.Sprintf("panic=%q err=%v", pn, err), vrHex(want))
			return
		}
		got := p.Bytes()
		c.check(bytes.Equal(got, want), in, vrHex(got), vrHex(want))
	}
	for i := 0; i < s.iter; i++ {
		for j := 0; j < s.sub; j++ {
			for val := 1; val < 1<<uint(s.window); val++ {
				v := new(big.Int)
				for t := 0; t < s.window; t++ {
					if val>>uint(t)&1 == 1 {
						v.SetBit(v, t*s.sub*s.iter+i+j*s.iter+s.rem, 1)
					}
				}
				one(v)
			}
		}
	}
	for val := 1; val < 1<<uint(s.rem); val++ {
		one(big.NewInt(int64(val)))
	}
}

func vrCaseScalarMult(c *vrCase) {
	pl := vrNewPool(c, 12)
	one := func(a vrPt, k []byte) {
		k0 := append([]byte(nil), k...)
		want := vrEnc(vrMulPt(new(big.Int).SetBytes(k), a))
		p := vrMk(a, vrLambda(c.rng))
		s := vrSnapOf(p)
		in := fmt.Sprintf(`{"P":"%s","proj":"%s","k":"%s","len":%d}`, vrPS(a), vrProj(p), vrHex(k), len(k))
		var q *SM2Point
		var err error
		if pn := vrTry(func() { q, err = ScalarMult(p, k) }); pn != "" {
			c.check(false, in, pn, vrHex(want))
			return
		}
		if err != nil || q == nil {
			c.check(false, in, fmt.Sprintf("err=%v", err), vrHex(want))
			return
		}
		if !bytes.Equal(k, k0) || vrSnapOf(p) != s {
			c.check(false, in, "inputs modified", "inputs unchanged")
			return
		}
		got := q.Bytes()
		c.check(bytes.Equal(got, want), in, vrHex(got), vrHex(want))
	}
	// every length 0..40
	for l := 0; l <= 40; l++ {
		_, a := pl.pick(c.rng)
		one(a, vrBytes(c.rng, l))
		one(vrG, bytes.Repeat([]byte{0xff}, l))
		one(a, make([]byte, l))
		if l > 0 {
			k := make([]byte, l)
			k[l-1] = 1
			one(a, k)
			k = make([]byte, l)
			k[0] = 0x80
			one(a, k)
		}
	}
	one(vrG, nil)
	// 32-byte boundary scalars on a few points, including infinity and -G
	pts := []vrPt{vrG, vrNeg(vrG), vrO, pl.pt[len(pl.pt)-1]}
	for i, k := range vrScalars32(c, false) {
		one(pts[i%len(pts)], k)
	}
	// every nibble value in every nibble position class
	for v := 0; v < 16; v++ {
		k := make([]byte, 32)
		k[0] = byte(v << 4)
		k[15] = byte(v)
		k[31] = byte(v<<4 | v)
		one(pl.pt[v%len(pl.pt)], k)
	}
	for i := 0; i < c.n; i++ {
		_, a := pl.pick(c.rng)
		if c.rng.Intn(4) == 0 {
			one(a, vrBytes(c.rng, c.rng.Intn(41)))
		} else {
			one(a, vrRandScalar32(c.rng))
		}
	}
}

func vrCaseMixedMult(c *vrCase) {
	pl := vrNewPool(c, 12)
	one := func(g []byte, a vrPt, s []byte) {
		g0, s0 := append([]byte(nil), g...), append([]byte(nil), s...)
		w := vrAddPt(vrMulPt(new(big.Int).SetBytes(g), vrG), vrMulPt(new(big.Int).SetBytes(s), a))
		want := vrEnc(w)
		p := vrMk(a, vrLambda(c.rng))
		snap := vrSnapOf(p)
		in := fmt.Sprintf(`{"g":"%s","P":"%s","proj":"%s","s":"%s"}`, vrHex(g), vrPS(a), vrProj(p), vrHex(s))
		var q *SM2Point
		var err error
		if pn := vrTry(func() { q, err = ScalarMixedMult_Unsafe(g, p, s) }); pn != "" {
			c.check(false, in, pn, vrHex(want))
			return
		}
		if err != nil || q == nil {
			c.check(false, in, fmt.Sprintf("err=%v", err), vrHex(want))
			return
		}
		if !bytes.Equal(g, g0) || !bytes.Equal(s, s0) || vrSnapOf(p) != snap {
			c.check(false, in, "inputs modified", "inputs unchanged")
			return
		}
		got := q.Bytes()
		c.check(bytes.Equal(got, want), in, vrHex(got), vrHex(want))
	}
	twoG := vrAddPt(vrG, vrG)
	special := []vrPt{vrG, vrNeg(vrG), twoG, vrNeg(twoG)}
	bnd := vrScalars32(c, false)
	small := func(v int64) []byte { return vrB32(big.NewInt(v)) }
	// s with many leading zero bytes (full 32-byte length), g likewise
	for _, a := range append(special, pl.pt[len(pl.pt)-2:]...) {
		for _, v := range []int64{0, 1, 2, 3, 7, 8, 9, 15, 16, 17, 255, 256, 65535} {
			one(vrRandScalar32(c.rng), a, small(v))
			one(small(v), a, vrRandScalar32(c.rng))
			one(small(v), a, small(v))
		}
		// g*G + s*P = O and doubling collisions: P = G, g = s; P = -G, g = s; g + s = n
		k := vrRandBig(c.rng, vrN)
		one(vrB32(k), a, vrB32(k))
		one(vrB32(k), a, vrB32(new(big.Int).Sub(vrN, k)))
		one(vrB32(vrN), a, vrB32(vrN))
		one(vrB32(new(big.Int).Sub(vrN, big.NewInt(1))), a, vrB32(new(big.Int).Sub(vrN, big.NewInt(1))))
	}
	for i, k := range bnd {
		a := special[i%len(special)]
		one(k, a, bnd[(i*7+3)%len(bnd)])
		one(vrRandScalar32(c.rng), pl.pt[i%len(pl.pt)], k)
	}
	for i := 0; i < c.n; i++ {
		var a vrPt
		if c.rng.Intn(3) == 0 {
			a = special[c.rng.Intn(len(special))]
		} else {
			_, a = pl.pick(c.rng)
		}
		one(vrRandScalar32(c.rng), a, vrRandScalar32(c.rng))
	}
	// histories: a point object is used, then overwritten in place with another point (SetBytes) and used again, then
	// the first point is used through a fresh object - every call must depend on the current value of its argument only
	for h := 0; h < 6; h++ {
		_, a := pl.pick(c.rng)
		_, b := pl.pick(c.rng)
		obj := vrMk(a, big.NewInt(1))
		g, s := vrRandScalar32(c.rng), vrRandScalar32(c.rng)
		if h%2 == 0 {
			s = small(int64(1 + 2*h)) // digits +-1 of the recoding use the caller's own point
		}
		step := func(p *SM2Point, cur vrPt, tag string) {
			w := vrAddPt(vrMulPt(new(big.Int).SetBytes(g), vrG), vrMulPt(new(big.Int).SetBytes(s), cur))
			want := vrEnc(w)
			in := fmt.Sprintf(`{"history":"%s","g":"%s","P":"%s","s":"%s"}`, tag, vrHex(g), vrPS(cur), vrHex(s))
			var q *SM2Point
			var err error
			if pn := vrTry(func() { q, err = ScalarMixedMult_Unsafe(g, p, s) }); pn != "" || err != nil || q == nil {
				c.check(false, in, fmt.Sprintf("%serr=%v", pn, err), vrHex(want))
				return
			}
			got := q.Bytes()
			c.check(bytes.Equal(got, want), in, vrHex(got), vrHex(want))
		}
		step(obj, a, "1: A through obj")
		if _, err := obj.SetBytes(vrEnc(b)); err != nil {
			continue
		}
		if h%2 == 0 {
			// A again right after obj was overwritten, before any call under B
			step(vrMk(a, big.NewInt(1)), a, "2: A through a fresh affine object, obj now holds B")
			step(obj, b, "3: B through obj")
		} else {
			step(obj, b, "2: obj overwritten with B")
			step(vrMk(a, big.NewInt(1)), a, "3: A through a fresh affine object")
		}
		step(vrMk(a, vrLambda(c.rng)), a, "4: A through a fresh projective object")
		step(obj, b, "5: B through obj again")
	}
}

// ---------------------------------------------------------------- cases: bit extraction, selection, tables

func vrCaseExtractBit(c *vrCase) {
	ks := vrScalars32(c, false)
	for i := 0; i < c.n/4+4; i++ {
		ks = append(ks, vrRandScalar32(c.rng))
	}
	for _, k := range ks {
		v := new(big.Int).SetBytes(k)
		bad := -1
		var gotb byte
		pn := vrTry(func() {
			for idx := 0; idx < 256; idx++ {
				if g := extractBit(k, idx); uint(g) != v.Bit(idx) {
					bad, gotb = idx, g
					return
				}
			}
		})
		in := fmt.Sprintf(`{"k":"%s","idx":%d}`, vrHex(k), bad)
		if pn != "" {
			c.check(false, in, pn, "bit")
			continue
		}
		want := uint(0)
		if bad >= 0 {
			want = v.Bit(bad)
		}
		c.check(bad < 0, in, gotb, want)
	}
}

func vrCaseExtractHigherBits(c *vrCase) {
	ks := vrScalars32(c, false)
	for i := 0; i < c.n/4+4; i++ {
		ks = append(ks, vrRandScalar32(c.rng))
	}
	for _, k := range ks {
		v := new(big.Int).SetBytes(k)
		for _, s := range vrSchemes {
			step := s.sub * s.iter
			for idx := s.rem; idx < s.rem+step; idx++ {
				var want byte
				for t := 0; t < s.window; t++ {
					want |= byte(v.Bit(t*step+idx)) << uint(t)
				}
				var got byte
				in := fmt.Sprintf(`{"k":"%s","idx":%d,"window":%d,"stepSize":%d}`, vrHex(k), idx, s.window, step)
				if pn := vrTry(func() { got = extractHigherBits(k, idx, s.window, step) }); pn != "" {
					c.check(false, in, pn, want)
					continue
				}
				if got != want {
					c.check(false, in, got, want)
				}
			}
		}
		c.runs++
	}
}

func vrCaseExtractLowerBits(c *vrCase) {
	ks := vrScalars32(c, false)
	for i := 0; i < c.n/4+4; i++ {
		ks = append(ks, vrRandScalar32(c.rng))
	}
	for v := 0; v < 256; v++ {
		k := vrBytes(c.rng, 32)
		k[31] = byte(v)
		ks = append(ks, k)
	}
	for _, k := range ks {
		v := new(big.Int).SetBytes(k)
		for count := 0; count <= 8; count++ {
			want := byte(new(big.Int).And(v, big.NewInt(int64(1)<<uint(count)-1)).Uint64())
			var got byte
			in := fmt.Sprintf(`{"k":"%s","count":%d}`, vrHex(k), count)
			if pn := vrTry(func() { got = extractLowerBits(k, count) }); pn != "" {
				c.check(false, in, pn, want)
				continue
			}
			if got != want {
				c.check(false, in, got, want)
			}
		}
		c.runs++
	}
}

// MultiSelectXY / MultiSelectXYZ over a table built by TransformPrecomputed:
// bits == 0 leaves the receiver unchanged; bits in 1..width gives entry bits-1
// (with Z = 1 for the XY variant).
func vrCaseMultiSelect(c *vrCase) {
	pl := vrNewPool(c, 20)
	for iter := 0; iter < c.n/4+8; iter++ {
		width := []int{1, 2, 3, 15, 31, 63, 127}[iter%7]
		pts := make([]*SM2Point, width)
		ref := make([]vrPt, width)
		for i := range pts {
			_, ref[i] = pl.pick(c.rng)
			pts[i] = vrMk(ref[i], vrLambda(c.rng))
		}
		table := TransformPrecomputed(&pts, width)
		for _, hasZ := range []bool{false, true} {
			for _, bits := range []int{0, 1, width, 1 + c.rng.Intn(width), (width + 1) / 2} {
				_, ra := pl.pick(c.rng)
				q := vrMk(ra, vrLambda(c.rng))
				before := vrSnapOf(q)
				in := fmt.Sprintf(`{"width":%d,"bits":%d,"xyz":%v}`, width, bits, hasZ)
				var ret *SM2Point
				pn := vrTry(func() {
					if hasZ {
						ret = q.MultiSelectXYZ(&table, width, byte(bits))
					} else {
						ret = q.MultiSelectXY(&table, width, byte(bits))
					}
				})
				if pn != "" {
					c.check(false, in, pn, "selected entry")
					continue
				}
				got := vrSnapOf(q)
				var want vrSnap
				switch {
				case bits == 0:
					want = before
				case hasZ:
					want = vrSnapOf(pts[bits-1])
				default:
					want = vrSnapOf(pts[bits-1])
					copy(want[2][:], vrB32(big.NewInt(1)))
				}
				c.check(ret == q && got == want, in, fmt.Sprintf("%x", got), fmt.Sprintf("%x", want))
			}
		}
	}
}

// tables: every precomputed entry of every scheme is the affine point
// [ sum_t bit_t(idx) * 2^(t*sub*iter + j*iter + rem) ] G   (sub-table j, entry idx),
// the remainder tables hold [idx]G.
func vrCaseTables(c *vrCase) {
	type tab struct {
		s      vrScheme
		first  [][][]*[4]uint64
		second [][]*[4]uint64
	}
	tabs := []tab{
		{vrSchemes[0], sm2Precomputed_6_3_14, sm2Precomputed_6_3_14_Remainder},
		{vrSchemes[1], sm2Precomputed_5_3_17, sm2Precomputed_5_3_17_Remainder},
		{vrSchemes[2], sm2Precomputed_4_2_32, nil},
		{vrSchemes[3], sm2Precomputed_7_3_12, sm2Precomputed_7_3_12_Remainder},
	}
	chk := func(in string, x, y *[4]uint64, k *big.Int) {
		want := vrEnc(vrMulPt(k, vrG))
		var got []byte
		if pn := vrTry(func() { got = NewFromXY(x, y).Bytes() }); pn != "" {
			c.check(false, in, pn, vrHex(want))
			return
		}
		c.check(bytes.Equal(got, want), in, vrHex(got), vrHex(want))
	}
	for _, tb := range tabs {
		s := tb.s
		name := fmt.Sprintf("%d_%d_%d", s.window, s.sub, s.iter)
		if len(tb.first) != s.sub {
			c.check(false, name, fmt.Sprintf("%d sub-tables", len(tb.first)), s.sub)
			continue
		}
		for j := 0; j < s.sub; j++ {
			w := 1<<uint(s.window) - 1
			if len(tb.first[j]) < 2 || len(tb.first[j][0]) != w || len(tb.first[j][1]) != w {
				c.check(false, fmt.Sprintf("%s sub-table %d", name, j), "wrong shape", fmt.Sprintf("2 x %d", w))
				continue
			}
			for idx := 1; idx <= w; idx++ {
				k := new(big.Int)
				for t := 0; t < s.window; t++ {
					if idx>>uint(t)&1 == 1 {
						k.SetBit(k, t*s.sub*s.iter+j*s.iter+s.rem, 1)
					}
				}
				chk(fmt.Sprintf(`{"table":"%s","sub":%d,"entry":%d}`, name, j, idx), tb.first[j][0][idx-1], tb.first[j][1][idx-1], k)
			}
		}
		if s.rem >= 1 {
			w := 1<<uint(s.rem) - 1
			if len(tb.second) < 2 || len(tb.second[0]) != w || len(tb.second[1]) != w {
				c.check(false, name+" remainder", "wrong shape", fmt.Sprintf("2 x %d", w))
				continue
			}
			for idx := 1; idx <= w; idx++ {
				chk(fmt.Sprintf(`{"table":"%s_Remainder","entry":%d}`, name, idx), tb.second[0][idx-1], tb.second[1][idx-1], big.NewInt(int64(idx)))
			}
		}
	}
}

func vrCaseParams(c *vrCase) {
	n := GetN()
	c.check(n.Cmp(vrN) == 0, "GetN", n.Text(16), vrN.Text(16))
	n.SetInt64(5) // must be a copy
	c.check(GetN().Cmp(vrN) == 0, "GetN after mutating the returned value", GetN().Text(16), vrN.Text(16))
	var want []byte
	for _, v := range []*big.Int{vrA, vrB, vrGx, vrGy} {
		want = append(want, vrB32(v)...)
	}
	c.check(bytes.Equal(GetZBytes(), want), "GetZBytes", vrHex(GetZBytes()), vrHex(want))
}

func TestVerifReplay(t *testing.T) {
	vrSelfTest(t)
	e := vrNewEnv(t)
	e.run("params", vrCaseParams)
	e.run("SM2Point.Add", vrCaseAdd)
	e.run("SM2Point.Double", vrCaseDouble)
	e.run("SM2Point.Negate", vrCaseNegate)
	e.run("SM2Point.Select", vrCaseSelectSet)
	e.run("SM2Point.Bytes", vrCaseBytes)
	e.run("SM2Point.SetBytes", vrCaseSetBytes)
	e.run("Sm2CheckOnCurve", vrCaseCheckOnCurve)
	e.run("ScalarBaseMult", vrBaseMultCase("ScalarBaseMult", ScalarBaseMult))
	e.run("scalarBaseMult_SkipBitExtraction_6_3_14", vrBaseMultCase("6_3_14", scalarBaseMult_SkipBitExtraction_6_3_14))
	e.run("scalarBaseMult_SkipBitExtraction_4_2_32", vrBaseMultCase("4_2_32", scalarBaseMult_SkipBitExtraction_4_2_32))
	e.run("scalarBaseMult_SkipBitExtraction_5_3_17", vrBaseMultCase("5_3_17", scalarBaseMult_SkipBitExtraction_5_3_17))
	e.run("scalarBaseMult_SkipBitExtraction_7_3_12", vrBaseMultCase("7_3_12", scalarBaseMult_SkipBitExtraction_7_3_12))
	e.run("ScalarBaseMult.windows", vrCaseWindows)
	e.run("ScalarMult", vrCaseScalarMult)
	e.run("ScalarMixedMult_Unsafe", vrCaseMixedMult)
	e.run("extractBit", vrCaseExtractBit)
	e.run("extractHigherBits", vrCaseExtractHigherBits)
	e.run("extractLowerBits", vrCaseExtractLowerBits)
	e.run("SM2Point.MultiSelect", vrCaseMultiSelect)
	e.run("tables", vrCaseTables)
	e.finish()
}
