// Differential replay test for package fiat (github.com/bilibili/smgo/sm2/internal/fiat).
// Injected with `go test -overlay` as /repo/sm2/internal/fiat/zz_replay_test.go; see run.sh.
// The reference is math/big arithmetic modulo
//   p = 2^256 - 2^224 - 2^96 + 2^64 - 1                      (prefix sm2,       SM2Element)
//   n = FFFFFFFE FFFFFFFF FFFFFFFF FFFFFFFF 7203DF6B 21C6052B 53BBF409 39D54123
//                                                            (prefix sm2Scalar, SM2ScalarElement)
// with R = 2^256 (Montgomery radix), limbs little-endian uint64[4].

package fiat

import (
	"bytes"
	"encoding/hex"
	"fmt"
	"hash/fnv"
	"math/big"
	"math/rand"
	"os"
	"strconv"
	"strings"
	"testing"
)

// ---------------------------------------------------------------- harness

type vrEnv struct {
	t    *testing.T
	seed int64
	n    int
	sel  map[string]bool // nil = all
	seen map[string]bool
}

type vrCase struct {
	env   *vrEnv
	name  string
	rng   *rand.Rand
	n     int
	runs  int
	fails int
	skip  string // non-empty: case could not run here (reason)
}

func vrNewEnv(t *testing.T) *vrEnv {
	e := &vrEnv{t: t, seed: 1, n: 200, seen: map[string]bool{}}
	if s := strings.TrimSpace(os.Getenv("VERIF_SEED")); s != "" {
		v, err := strconv.ParseInt(s, 10, 64)
		if err != nil {
			t.Fatalf("bad VERIF_SEED %q", s)
		}
		e.seed = v
	}
	if s := strings.TrimSpace(os.Getenv("VERIF_N")); s != "" {
		v, err := strconv.Atoi(s)
		if err != nil || v < 0 {
			t.Fatalf("bad VERIF_N %q", s)
		}
		e.n = v
	}
	if s := strings.TrimSpace(os.Getenv("VERIF_FUNCS")); s != "" && s != "all" {
		e.sel = map[string]bool{}
		for _, f := range strings.Split(s, ",") {
			if f = strings.TrimSpace(f); f != "" {
				e.sel[f] = true
			}
		}
	}
	return e
}

// run executes one case if selected. Every case gets its own generator that is
// derived from VERIF_SEED and the case name only, so that a single case
// selected with VERIF_FUNCS replays exactly the inputs of the full run.
func (e *vrEnv) run(name string, f func(c *vrCase)) {
	e.seen[name] = true
	if e.sel != nil && !e.sel[name] {
		return
	}
	h := fnv.New64a()
	h.Write([]byte(name))
	master := rand.New(rand.NewSource(e.seed))
	sub := master.Int63() ^ int64(h.Sum64()&0x7fffffffffffffff)
	c := &vrCase{env: e, name: name, rng: rand.New(rand.NewSource(sub)), n: e.n}
	func() {
		defer func() {
			if r := recover(); r != nil {
				c.fail("harness", fmt.Sprintf("panic:%v", r), "no panic")
			}
		}()
		f(c)
	}()
	if c.skip != "" {
		fmt.Printf("REPLAY-SKIP case=%s reason=%s\n", c.name, vrOneLine(c.skip))
	} else if c.fails == 0 {
		fmt.Printf("REPLAY-OK case=%s n=%d\n", c.name, c.runs)
	}
}

// runExtra is like run for cases that are outside the documented contract of the
// package (e.g. undocumented aliasing): they are not part of "all" and run only
// when named explicitly in VERIF_FUNCS.
func (e *vrEnv) runExtra(name string, f func(c *vrCase)) {
	if e.sel == nil {
		e.seen[name] = true
		return
	}
	e.run(name, f)
}

func (e *vrEnv) finish() {
	for f := range e.sel {
		if !e.seen[f] {
			fmt.Printf("REPLAY-UNKNOWN case=%s\n", f)
			e.t.Errorf("unknown case %q", f)
		}
	}
}

func vrOneLine(s string) string {
	s = strings.ReplaceAll(s, "\n", "\\n")
	s = strings.ReplaceAll(s, " ", "_")
	if len(s) > 6000 {
		s = s[:6000] + "...(truncated)"
	}
	if s == "" {
		s = "-"
	}
	return s
}

func (c *vrCase) fail(input, got, want string) {
	c.fails++
	c.env.t.Fail()
	if c.fails <= 5 {
		fmt.Printf("REPLAY-FAIL case=%s input=%s got=%s want=%s\n", c.name, vrOneLine(input), vrOneLine(got), vrOneLine(want))
	}
}

// check counts one comparison.
func (c *vrCase) check(ok bool, input string, got, want interface{}) bool {
	c.runs++
	if !ok {
		c.fail(input, fmt.Sprint(got), fmt.Sprint(want))
	}
	return ok
}

// vrTry runs f and converts a panic into a string.
func vrTry(f func()) (panicked string) {
	defer func() {
		if r := recover(); r != nil {
			panicked = fmt.Sprintf("panic:%v", r)
		}
	}()
	f()
	return ""
}

func vrHex(b []byte) string { return hex.EncodeToString(b) }

func vrBytes(r *rand.Rand, n int) []byte {
	b := make([]byte, n)
	r.Read(b)
	return b
}

// ---------------------------------------------------------------- reference field

type vrL = [4]uint64

type vrField struct {
	prefix string // "sm2" or "sm2Scalar"
	m      *big.Int
	rinv   *big.Int // R^-1 mod m
	spec   []*big.Int

	add, sub, mul           func(o, a, b *vrL)
	opp, square, toM, fromM func(o, a *vrL)
	inv                     func(o, a *vrL)
	toBytes                 func(o *[32]byte, a *vrL)
	fromBytes               func(o *vrL, a *[32]byte)
	selectznz               func(o *vrL, c uint64, a, b *vrL)
	nonzero                 func(o *uint64, a *vrL)
	cmov                    func(o *uint64, c, a, b uint64)
	setOne                  func(o *vrL)
	msat                    func(o *[5]uint64)
}

var vrR = new(big.Int).Lsh(big.NewInt(1), 256)

func vrMustHex(s string) *big.Int {
	v, ok := new(big.Int).SetString(strings.ReplaceAll(s, " ", ""), 16)
	if !ok {
		panic("bad hex " + s)
	}
	return v
}

func vrPow2(k uint) *big.Int { return new(big.Int).Lsh(big.NewInt(1), k) }

func vrToLimbs(v *big.Int) vrL {
	if v.Sign() < 0 || v.BitLen() > 256 {
		panic("vrToLimbs: out of range")
	}
	var l vrL
	b := v.FillBytes(make([]byte, 32))
	for i := 0; i < 4; i++ {
		for j := 0; j < 8; j++ {
			l[i] |= uint64(b[31-8*i-j]) << (8 * uint(j))
		}
	}
	return l
}

func vrFromLimbs(l vrL) *big.Int {
	v := new(big.Int)
	for i := 3; i >= 0; i-- {
		v.Lsh(v, 64)
		v.Or(v, new(big.Int).SetUint64(l[i]))
	}
	return v
}

func vrLS(l vrL) string { return fmt.Sprintf("[%#x,%#x,%#x,%#x]", l[0], l[1], l[2], l[3]) }

func (f *vrField) mod(v *big.Int) *big.Int { return new(big.Int).Mod(v, f.m) }

func vrNewField(prefix string, m *big.Int) *vrField {
	f := &vrField{prefix: prefix, m: m}
	f.rinv = new(big.Int).ModInverse(vrR, m)
	one := big.NewInt(1)
	add := func(v *big.Int) {
		v = f.mod(v)
		for _, s := range f.spec {
			if s.Cmp(v) == 0 {
				return
			}
		}
		f.spec = append(f.spec, v)
	}
	for _, k := range []int64{0, 1, 2, 3} {
		add(big.NewInt(k))
		add(new(big.Int).Sub(m, big.NewInt(k+1))) // m-1, m-2, ...
	}
	half := new(big.Int).Rsh(m, 1)
	add(half)
	add(new(big.Int).Add(half, one))
	for _, k := range []uint{32, 63, 64, 96, 127, 128, 192, 224, 255} {
		add(vrPow2(k))
		add(new(big.Int).Sub(vrPow2(k), one))
	}
	add(vrR)                        // R mod m (Montgomery one)
	add(new(big.Int).Sub(vrR, one)) // 2^256-1 mod m
	add(new(big.Int).Add(f.mod(vrR), one))
	add(new(big.Int).Mul(vrR, vrR)) // R^2 mod m
	add(f.rinv)
	add(vrMustHex("FFFFFFFF00000000FFFFFFFF00000000FFFFFFFF00000000FFFFFFFF00000000"))
	add(vrMustHex("00000000FFFFFFFF00000000FFFFFFFF00000000FFFFFFFF00000000FFFFFFFF"))
	add(vrMustHex("FFFFFFFFFFFFFFFF0000000000000000FFFFFFFFFFFFFFFF0000000000000000"))
	add(vrMustHex("0000000000000000FFFFFFFFFFFFFFFF0000000000000000FFFFFFFFFFFFFFFF"))
	// the other modulus, reduced
	add(vrMustHex("FFFFFFFEFFFFFFFFFFFFFFFFFFFFFFFFFFFFFFFF00000000FFFFFFFFFFFFFFFF"))
	add(vrMustHex("FFFFFFFEFFFFFFFFFFFFFFFFFFFFFFFF7203DF6B21C6052B53BBF40939D54123"))
	return f
}

// gen returns a value in [0, m): special value, limb pattern, or uniform.
func (f *vrField) gen(r *rand.Rand) *big.Int {
	switch r.Intn(4) {
	case 0:
		return new(big.Int).Set(f.spec[r.Intn(len(f.spec))])
	case 1:
		ml := vrToLimbs(f.m)
		var l vrL
		for i := range l {
			switch r.Intn(10) {
			case 0:
				l[i] = 0
			case 1:
				l[i] = 1
			case 2:
				l[i] = 1<<32 - 1
			case 3:
				l[i] = 1 << 32
			case 4:
				l[i] = 1 << 63
			case 5:
				l[i] = ^uint64(0)
			case 6:
				l[i] = ml[i]
			case 7:
				l[i] = ml[i] - 1
			case 8:
				l[i] = ml[i] + 1
			default:
				l[i] = r.Uint64()
			}
		}
		v := vrFromLimbs(l)
		if v.Cmp(f.m) >= 0 {
			v.Sub(v, f.m)
		}
		return v
	default:
		v := vrFromLimbs(vrL{r.Uint64(), r.Uint64(), r.Uint64(), r.Uint64()})
		if v.Cmp(f.m) >= 0 {
			v.Sub(v, f.m)
		}
		return v
	}
}

// pairs calls g on the cross product of the special values and on n random pairs.
func (f *vrField) pairs(c *vrCase, g func(a, b *big.Int, idx int)) {
	idx := 0
	for _, a := range f.spec {
		for _, b := range f.spec {
			g(a, b, idx)
			idx++
		}
	}
	for i := 0; i < c.n; i++ {
		a := f.gen(c.rng)
		b := f.gen(c.rng)
		if c.rng.Intn(8) == 0 {
			b = new(big.Int).Set(a)
		}
		if c.rng.Intn(8) == 0 {
			b = f.mod(new(big.Int).Neg(a))
		}
		g(a, b, idx)
		idx++
	}
}

func (f *vrField) singles(c *vrCase, g func(a *big.Int, idx int)) {
	idx := 0
	for _, a := range f.spec {
		g(a, idx)
		idx++
	}
	for i := 0; i < c.n; i++ {
		g(f.gen(c.rng), idx)
		idx++
	}
}

// binop checks a two-operand limb primitive, with all aliasing variants.
func (f *vrField) binop(c *vrCase, op func(o, a, b *vrL), ref func(a, b *big.Int) *big.Int) {
	f.pairs(c, func(a, b *big.Int, idx int) {
		want := vrToLimbs(ref(a, b))
		la, lb := vrToLimbs(a), vrToLimbs(b)
		la0, lb0 := la, lb
		var out *vrL
		mode := idx % 4
		pa, pb := &la, &lb
		switch mode {
		case 0:
			out = &vrL{c.rng.Uint64(), c.rng.Uint64(), c.rng.Uint64(), c.rng.Uint64()}
		case 1:
			out = pa
		case 2:
			out = pb
		case 3:
			out = &vrL{}
			if la == lb {
				pb = pa // same pointer for both operands
			}
		}
		in := fmt.Sprintf(`{"a":"%s","b":"%s","alias":%d}`, vrLS(la0), vrLS(lb0), mode)
		if p := vrTry(func() { op(out, pa, pb) }); p != "" {
			c.check(false, in, p, vrLS(want))
			return
		}
		got := *out
		ok := got == want
		if ok && mode != 1 && la != la0 {
			c.check(false, in, "arg1 modified:"+vrLS(la), "arg1 unchanged")
			return
		}
		if ok && mode != 2 && lb != lb0 {
			c.check(false, in, "arg2 modified:"+vrLS(lb), "arg2 unchanged")
			return
		}
		c.check(ok, in, vrLS(got), vrLS(want))
	})
}

// unop checks a one-operand limb primitive; odd indices call it with out == arg.
func (f *vrField) unop(c *vrCase, op func(o, a *vrL), ref func(a *big.Int) *big.Int) {
	f.unopAlias(c, op, ref, -1)
}

// unopAlias: alias = 0 never aliases, 1 always (out == arg), -1 alternates.
func (f *vrField) unopAlias(c *vrCase, op func(o, a *vrL), ref func(a *big.Int) *big.Int, alias int) {
	f.singles(c, func(a *big.Int, idx int) {
		want := vrToLimbs(ref(a))
		la := vrToLimbs(a)
		la0 := la
		var out *vrL
		mode := idx % 2
		if alias >= 0 {
			mode = alias
		}
		if mode == 0 {
			out = &vrL{c.rng.Uint64(), c.rng.Uint64(), c.rng.Uint64(), c.rng.Uint64()}
		} else {
			out = &la
		}
		in := fmt.Sprintf(`{"a":"%s","alias":%d}`, vrLS(la0), mode)
		if p := vrTry(func() { op(out, &la) }); p != "" {
			c.check(false, in, p, vrLS(want))
			return
		}
		got := *out
		if got == want && mode == 0 && la != la0 {
			c.check(false, in, "arg1 modified:"+vrLS(la), "arg1 unchanged")
			return
		}
		c.check(got == want, in, vrLS(got), vrLS(want))
	})
}

func vrRandL(r *rand.Rand) vrL {
	var l vrL
	for i := range l {
		switch r.Intn(6) {
		case 0:
			l[i] = 0
		case 1:
			l[i] = ^uint64(0)
		case 2:
			l[i] = 1 << uint(r.Intn(64))
		default:
			l[i] = r.Uint64()
		}
	}
	return l
}

func (f *vrField) primCases(e *vrEnv) {
	p := f.prefix
	m := f.m
	e.run(p+"Add", func(c *vrCase) {
		f.binop(c, f.add, func(a, b *big.Int) *big.Int { return f.mod(new(big.Int).Add(a, b)) })
	})
	e.run(p+"Sub", func(c *vrCase) {
		f.binop(c, f.sub, func(a, b *big.Int) *big.Int { return f.mod(new(big.Int).Sub(a, b)) })
	})
	e.run(p+"Opp", func(c *vrCase) {
		f.unop(c, f.opp, func(a *big.Int) *big.Int { return f.mod(new(big.Int).Neg(a)) })
	})
	e.run(p+"Mul", func(c *vrCase) {
		f.binop(c, f.mul, func(a, b *big.Int) *big.Int {
			return f.mod(new(big.Int).Mul(new(big.Int).Mul(a, b), f.rinv))
		})
	})
	e.run(p+"Square", func(c *vrCase) {
		f.unop(c, f.square, func(a *big.Int) *big.Int {
			return f.mod(new(big.Int).Mul(new(big.Int).Mul(a, a), f.rinv))
		})
	})
	e.run(p+"ToMontgomery", func(c *vrCase) {
		f.unop(c, f.toM, func(a *big.Int) *big.Int { return f.mod(new(big.Int).Mul(a, vrR)) })
	})
	e.run(p+"FromMontgomery", func(c *vrCase) {
		f.unop(c, f.fromM, func(a *big.Int) *big.Int { return f.mod(new(big.Int).Mul(a, f.rinv)) })
	})
	e.run(p+"ToBytes", func(c *vrCase) {
		f.singles(c, func(a *big.Int, idx int) {
			la := vrToLimbs(a)
			be := a.FillBytes(make([]byte, 32))
			var want, got [32]byte
			for i := range want {
				want[i] = be[31-i]
				got[i] = byte(c.rng.Intn(256))
			}
			in := fmt.Sprintf(`{"a":"%s"}`, vrLS(la))
			if p := vrTry(func() { f.toBytes(&got, &la) }); p != "" {
				c.check(false, in, p, vrHex(want[:]))
				return
			}
			c.check(got == want && la == vrToLimbs(a), in, vrHex(got[:]), vrHex(want[:]))
		})
	})
	e.run(p+"FromBytes", func(c *vrCase) {
		f.singles(c, func(a *big.Int, idx int) {
			be := a.FillBytes(make([]byte, 32))
			var le [32]byte
			for i := range le {
				le[i] = be[31-i]
			}
			le0 := le
			want := vrToLimbs(a)
			got := vrRandL(c.rng)
			in := fmt.Sprintf(`{"bytes_le":"%s"}`, vrHex(le[:]))
			if p := vrTry(func() { f.fromBytes(&got, &le) }); p != "" {
				c.check(false, in, p, vrLS(want))
				return
			}
			c.check(got == want && le == le0, in, vrLS(got), vrLS(want))
		})
	})
	e.run(p+"Selectznz", func(c *vrCase) {
		for i := 0; i < c.n+16; i++ {
			a, b := vrRandL(c.rng), vrRandL(c.rng)
			cond := uint64(i & 1)
			want := a
			if cond != 0 {
				want = b
			}
			a0, b0 := a, b
			pa, pb := &a, &b
			out := &vrL{c.rng.Uint64(), 1, 2, 3}
			mode := (i / 2) % 4
			switch mode {
			case 1:
				out = pa
			case 2:
				out = pb
			case 3:
				pb = pa
				b0 = a0
				want = a
			}
			in := fmt.Sprintf(`{"cond":%d,"arg2":"%s","arg3":"%s","alias":%d}`, cond, vrLS(a0), vrLS(b0), mode)
			if p := vrTry(func() { f.selectznz(out, cond, pa, pb) }); p != "" {
				c.check(false, in, p, vrLS(want))
				continue
			}
			c.check(*out == want, in, vrLS(*out), vrLS(want))
		}
	})
	e.run(p+"Nonzero", func(c *vrCase) {
		one := func(a vrL) {
			a0 := a
			var got uint64 = 0x5555
			in := fmt.Sprintf(`{"a":"%s"}`, vrLS(a0))
			if p := vrTry(func() { f.nonzero(&got, &a) }); p != "" {
				c.check(false, in, p, "zero iff a==0")
				return
			}
			wantZero := a0 == vrL{}
			c.check((got == 0) == wantZero && a == a0, in, fmt.Sprintf("%#x", got), fmt.Sprintf("zero=%v", wantZero))
		}
		one(vrL{})
		for i := 0; i < 4; i++ {
			for _, v := range []uint64{1, 1 << 31, 1 << 32, 1 << 63, ^uint64(0)} {
				var a vrL
				a[i] = v
				one(a)
			}
		}
		one(vrToLimbs(m))
		for i := 0; i < c.n; i++ {
			one(vrRandL(c.rng))
		}
	})
	e.run(p+"CmovznzU64", func(c *vrCase) {
		vals := []uint64{0, 1, 1<<32 - 1, 1 << 32, 1 << 63, ^uint64(0)}
		one := func(cond, a, b uint64) {
			want := a
			if cond != 0 {
				want = b
			}
			var got uint64 = 0x1234
			in := fmt.Sprintf(`{"cond":%d,"arg2":"%#x","arg3":"%#x"}`, cond, a, b)
			if p := vrTry(func() { f.cmov(&got, cond, a, b) }); p != "" {
				c.check(false, in, p, fmt.Sprintf("%#x", want))
				return
			}
			c.check(got == want, in, fmt.Sprintf("%#x", got), fmt.Sprintf("%#x", want))
		}
		for _, a := range vals {
			for _, b := range vals {
				one(0, a, b)
				one(1, a, b)
			}
		}
		for i := 0; i < c.n; i++ {
			one(uint64(i&1), c.rng.Uint64(), c.rng.Uint64())
		}
	})
	e.run(p+"SetOne", func(c *vrCase) {
		want := vrToLimbs(f.mod(vrR))
		for i := 0; i < 3; i++ {
			got := vrRandL(c.rng)
			f.setOne(&got)
			c.check(got == want, "{}", vrLS(got), vrLS(want))
		}
	})
	e.run(p+"Msat", func(c *vrCase) {
		var got [5]uint64
		for i := range got {
			got[i] = c.rng.Uint64()
		}
		f.msat(&got)
		ml := vrToLimbs(m)
		want := [5]uint64{ml[0], ml[1], ml[2], ml[3], 0}
		c.check(got == want, "{}", fmt.Sprintf("%#x", got), fmt.Sprintf("%#x", want))
	})
	// Montgomery domain: z = R^2 / x (so that from_mont(z)*from_mont(x) = 1), 0 -> 0.
	// The case with suffix .alias calls it with z == x (same pointer). No caller in
	// the library does that; the addition-chain code overwrites z before its last
	// use of x, so the .alias case is expected to fail on the current code. It is
	// an extra case: it runs only when named in VERIF_FUNCS.
	invRef := func(a *big.Int) *big.Int {
		if a.Sign() == 0 {
			return new(big.Int)
		}
		ai := new(big.Int).ModInverse(a, m)
		return f.mod(new(big.Int).Mul(ai, new(big.Int).Mul(vrR, vrR)))
	}
	e.run(p+"FermatInvert_FiatAC", func(c *vrCase) { f.unopAlias(c, f.inv, invRef, 0) })
	e.runExtra(p+"FermatInvert_FiatAC.alias", func(c *vrCase) { f.unopAlias(c, f.inv, invRef, 1) })
}

// ---------------------------------------------------------------- element wrappers

// vrEl abstracts over *SM2Element and *SM2ScalarElement (the module's language
// version predates generics).
type vrEl interface {
	raw() *vrL
	SetBytes(v []byte) (same bool, isNil bool, err error)
	Bytes() []byte
	Add(a, b vrEl)
	Sub(a, b vrEl)
	Mul(a, b vrEl)
	Square(a vrEl)
	Opp(a vrEl) bool // false if unsupported
	Invert(a vrEl)
	Equal(a vrEl) int
	IsZero() int
	Select(a, b vrEl, cond int)
	One()
	Set(a vrEl)
	ToBigInt() *big.Int
}

type vrElP struct{ e *SM2Element }
type vrElN struct{ e *SM2ScalarElement }

func (x vrElP) raw() *vrL { return (*vrL)(&x.e.x) }
func (x vrElP) SetBytes(v []byte) (bool, bool, error) {
	r, err := x.e.SetBytes(v)
	return r == x.e, r == nil, err
}
func (x vrElP) Bytes() []byte    { return x.e.Bytes() }
func (x vrElP) Add(a, b vrEl)    { r := x.e.Add(a.(vrElP).e, b.(vrElP).e); vrSame(r == x.e) }
func (x vrElP) Sub(a, b vrEl)    { r := x.e.Sub(a.(vrElP).e, b.(vrElP).e); vrSame(r == x.e) }
func (x vrElP) Mul(a, b vrEl)    { r := x.e.Mul(a.(vrElP).e, b.(vrElP).e); vrSame(r == x.e) }
func (x vrElP) Square(a vrEl)    { r := x.e.Square(a.(vrElP).e); vrSame(r == x.e) }
func (x vrElP) Opp(a vrEl) bool  { r := x.e.Opp(a.(vrElP).e); vrSame(r == x.e); return true }
func (x vrElP) Invert(a vrEl)    { r := x.e.Invert(a.(vrElP).e); vrSame(r == x.e) }
func (x vrElP) Equal(a vrEl) int { return x.e.Equal(a.(vrElP).e) }
func (x vrElP) IsZero() int      { return x.e.IsZero() }
func (x vrElP) Select(a, b vrEl, cond int) {
	r := x.e.Select(a.(vrElP).e, b.(vrElP).e, cond)
	vrSame(r == x.e)
}
func (x vrElP) One()               { r := x.e.One(); vrSame(r == x.e) }
func (x vrElP) Set(a vrEl)         { r := x.e.Set(a.(vrElP).e); vrSame(r == x.e) }
func (x vrElP) ToBigInt() *big.Int { return x.e.ToBigInt() }

func (x vrElN) raw() *vrL { return (*vrL)(&x.e.x) }
func (x vrElN) SetBytes(v []byte) (bool, bool, error) {
	r, err := x.e.SetBytes(v)
	return r == x.e, r == nil, err
}
func (x vrElN) Bytes() []byte    { return x.e.Bytes() }
func (x vrElN) Add(a, b vrEl)    { r := x.e.Add(a.(vrElN).e, b.(vrElN).e); vrSame(r == x.e) }
func (x vrElN) Sub(a, b vrEl)    { r := x.e.Sub(a.(vrElN).e, b.(vrElN).e); vrSame(r == x.e) }
func (x vrElN) Mul(a, b vrEl)    { r := x.e.Mul(a.(vrElN).e, b.(vrElN).e); vrSame(r == x.e) }
func (x vrElN) Square(a vrEl)    { r := x.e.Square(a.(vrElN).e); vrSame(r == x.e) }
func (x vrElN) Opp(a vrEl) bool  { return false }
func (x vrElN) Invert(a vrEl)    { r := x.e.Invert(a.(vrElN).e); vrSame(r == x.e) }
func (x vrElN) Equal(a vrEl) int { return x.e.Equal(a.(vrElN).e) }
func (x vrElN) IsZero() int      { return x.e.IsZero() }
func (x vrElN) Select(a, b vrEl, cond int) {
	r := x.e.Select(a.(vrElN).e, b.(vrElN).e, cond)
	vrSame(r == x.e)
}
func (x vrElN) One()               { r := x.e.One(); vrSame(r == x.e) }
func (x vrElN) Set(a vrEl)         { r := x.e.Set(a.(vrElN).e); vrSame(r == x.e) }
func (x vrElN) ToBigInt() *big.Int { return x.e.ToBigInt() }

// vrSame panics (caught by vrTry and reported) if a method does not return its receiver.
func vrSame(ok bool) {
	if !ok {
		panic("method did not return its receiver")
	}
}

type vrElems struct {
	f    *vrField
	name string // "SM2Element" or "SM2ScalarElement"
	zero func() vrEl
}

// mk builds an element with value v directly in the Montgomery representation,
// without going through SetBytes.
func (t *vrElems) mk(v *big.Int) vrEl {
	e := t.zero()
	*e.raw() = vrToLimbs(t.f.mod(new(big.Int).Mul(v, vrR)))
	return e
}

// val reads the value of e from its raw representation; "" if canonical.
func (t *vrElems) val(e vrEl) (*big.Int, string) {
	r := vrFromLimbs(*e.raw())
	if r.Cmp(t.f.m) >= 0 {
		return nil, "raw representation >= modulus: " + vrLS(*e.raw())
	}
	return t.f.mod(new(big.Int).Mul(r, t.f.rinv)), ""
}

func vrBH(v *big.Int) string { return vrHex(v.FillBytes(make([]byte, 32))) }

func (t *vrElems) binop(c *vrCase, op func(o, a, b vrEl), ref func(a, b *big.Int) *big.Int) {
	t.f.pairs(c, func(a, b *big.Int, idx int) {
		want := ref(a, b)
		ea, eb := t.mk(a), t.mk(b)
		out := t.mk(big.NewInt(int64(idx) + 77))
		mode := idx % 4
		switch mode {
		case 1:
			out = ea
		case 2:
			out = eb
		case 3:
			if a.Cmp(b) == 0 {
				eb = ea
			}
		}
		in := fmt.Sprintf(`{"a":"%s","b":"%s","alias":%d}`, vrBH(a), vrBH(b), mode)
		if p := vrTry(func() { op(out, ea, eb) }); p != "" {
			c.check(false, in, p, vrBH(want))
			return
		}
		got, msg := t.val(out)
		if msg != "" {
			c.check(false, in, msg, vrBH(want))
			return
		}
		if mode != 1 {
			if v, _ := t.val(ea); v == nil || v.Cmp(a) != 0 {
				c.check(false, in, "operand 1 modified", "operand 1 unchanged")
				return
			}
		}
		if mode != 2 {
			if v, _ := t.val(eb); v == nil || v.Cmp(b) != 0 {
				c.check(false, in, "operand 2 modified", "operand 2 unchanged")
				return
			}
		}
		c.check(got.Cmp(want) == 0, in, vrBH(got), vrBH(want))
	})
}

func (t *vrElems) unop(c *vrCase, op func(o, a vrEl), ref func(a *big.Int) *big.Int) {
	t.unopAlias(c, op, ref, -1)
}

// unopAlias: alias = 0 never aliases, 1 always (receiver == operand), -1 alternates.
func (t *vrElems) unopAlias(c *vrCase, op func(o, a vrEl), ref func(a *big.Int) *big.Int, alias int) {
	t.f.singles(c, func(a *big.Int, idx int) {
		want := ref(a)
		ea := t.mk(a)
		out := t.mk(big.NewInt(int64(idx) + 77))
		mode := idx % 2
		if alias >= 0 {
			mode = alias
		}
		if mode == 1 {
			out = ea
		}
		in := fmt.Sprintf(`{"a":"%s","alias":%d}`, vrBH(a), mode)
		if p := vrTry(func() { op(out, ea) }); p != "" {
			c.check(false, in, p, vrBH(want))
			return
		}
		got, msg := t.val(out)
		if msg != "" {
			c.check(false, in, msg, vrBH(want))
			return
		}
		if mode == 0 {
			if v, _ := t.val(ea); v == nil || v.Cmp(a) != 0 {
				c.check(false, in, "operand modified", "operand unchanged")
				return
			}
		}
		c.check(got.Cmp(want) == 0, in, vrBH(got), vrBH(want))
	})
}

func (t *vrElems) cases(e *vrEnv) {
	f := t.f
	m := f.m
	nm := t.name + "."

	e.run(nm+"SetBytes", func(c *vrCase) {
		one := func(v []byte) {
			recv := t.mk(big.NewInt(0x1234567))
			before := *recv.raw()
			v0 := append([]byte(nil), v...)
			val := new(big.Int).SetBytes(v)
			accept := len(v) == 32 && val.Cmp(m) < 0
			in := fmt.Sprintf(`{"len":%d,"v":"%s"}`, len(v), vrHex(v))
			var same, isNil bool
			var err error
			if p := vrTry(func() { same, isNil, err = recv.SetBytes(v) }); p != "" {
				c.check(false, in, p, fmt.Sprintf("accept=%v", accept))
				return
			}
			if !bytes.Equal(v, v0) {
				c.check(false, in, "input modified", "input unchanged")
				return
			}
			if accept {
				got, msg := t.val(recv)
				ok := err == nil && same && msg == "" && got.Cmp(val) == 0
				g := fmt.Sprintf("err=%v,returnsReceiver=%v,%s", err, same, msg)
				if got != nil {
					g += ",value=" + vrBH(got)
				}
				c.check(ok, in, g, "err=<nil>,returnsReceiver=true,value="+vrBH(val))
			} else {
				ok := err != nil && isNil && *recv.raw() == before
				c.check(ok, in, fmt.Sprintf("err=%v,nil=%v,receiverUnchanged=%v", err, isNil, *recv.raw() == before), "err!=nil,nil=true,receiverUnchanged=true")
			}
		}
		be := func(v *big.Int) []byte { return v.FillBytes(make([]byte, 32)) }
		one(nil)
		one([]byte{})
		for _, l := range []int{1, 2, 16, 31, 33, 34, 48, 64, 65} {
			one(make([]byte, l))
			one(bytes.Repeat([]byte{0xff}, l))
			b := vrBytes(c.rng, l)
			one(b)
			b = vrBytes(c.rng, l)
			b[0] = 0 // small value in a wrong length
			one(b)
		}
		// 33 bytes with a leading zero followed by a valid value, 31 bytes of a valid value
		one(append([]byte{0}, be(big.NewInt(5))...))
		one(be(big.NewInt(5))[1:])
		for d := int64(-3); d <= 3; d++ {
			v := new(big.Int).Add(m, big.NewInt(d))
			one(be(v))
		}
		one(be(new(big.Int).Sub(vrR, big.NewInt(1))))
		one(be(new(big.Int).Sub(vrR, big.NewInt(2))))
		// the other modulus and its neighbours
		for _, h := range []string{"FFFFFFFEFFFFFFFFFFFFFFFFFFFFFFFFFFFFFFFF00000000FFFFFFFFFFFFFFFF", "FFFFFFFEFFFFFFFFFFFFFFFFFFFFFFFF7203DF6B21C6052B53BBF40939D54123"} {
			o := vrMustHex(h)
			for d := int64(-1); d <= 1; d++ {
				one(be(new(big.Int).Add(o, big.NewInt(d))))
			}
		}
		// equal prefix with m-1 up to byte i, then smaller / larger, random tail
		m1 := be(new(big.Int).Sub(m, big.NewInt(1)))
		for i := 0; i < 32; i++ {
			for _, dir := range []int{-1, 1} {
				for _, tail := range []byte{0x00, 0xff, 0x55} {
					v := append([]byte{}, m1...)
					nv := int(v[i]) + dir
					if nv < 0 || nv > 255 {
						continue
					}
					v[i] = byte(nv)
					for j := i + 1; j < 32; j++ {
						v[j] = tail
					}
					one(v)
				}
			}
		}
		for _, s := range f.spec {
			one(be(s))
		}
		for i := 0; i < c.n; i++ {
			v := vrBytes(c.rng, 32)
			switch c.rng.Intn(4) {
			case 0:
				copy(v, m1[:c.rng.Intn(33)])
			case 1:
				for j := 0; j < c.rng.Intn(32); j++ {
					v[j] = 0
				}
			}
			one(v)
		}
	})

	e.run(nm+"Bytes", func(c *vrCase) {
		f.singles(c, func(a *big.Int, idx int) {
			ea := t.mk(a)
			var got []byte
			in := fmt.Sprintf(`{"a":"%s"}`, vrBH(a))
			if p := vrTry(func() { got = ea.Bytes() }); p != "" {
				c.check(false, in, p, vrBH(a))
				return
			}
			if !c.check(vrHex(got) == vrBH(a), in, vrHex(got), vrBH(a)) {
				return
			}
			// round trip through SetBytes
			r := t.zero()
			_, _, err := r.SetBytes(got)
			v, msg := t.val(r)
			c.check(err == nil && msg == "" && v.Cmp(a) == 0, in+":roundtrip", fmt.Sprint(err, msg, v), vrBH(a))
		})
	})
	e.run(nm+"ToBigInt", func(c *vrCase) {
		f.singles(c, func(a *big.Int, idx int) {
			ea := t.mk(a)
			var got *big.Int
			in := fmt.Sprintf(`{"a":"%s"}`, vrBH(a))
			if p := vrTry(func() { got = ea.ToBigInt() }); p != "" {
				c.check(false, in, p, vrBH(a))
				return
			}
			c.check(got != nil && got.Cmp(a) == 0, in, got, a)
		})
	})
	e.run(nm+"Add", func(c *vrCase) {
		t.binop(c, func(o, a, b vrEl) { o.Add(a, b) }, func(a, b *big.Int) *big.Int { return f.mod(new(big.Int).Add(a, b)) })
	})
	e.run(nm+"Sub", func(c *vrCase) {
		t.binop(c, func(o, a, b vrEl) { o.Sub(a, b) }, func(a, b *big.Int) *big.Int { return f.mod(new(big.Int).Sub(a, b)) })
	})
	e.run(nm+"Mul", func(c *vrCase) {
		t.binop(c, func(o, a, b vrEl) { o.Mul(a, b) }, func(a, b *big.Int) *big.Int { return f.mod(new(big.Int).Mul(a, b)) })
	})
	e.run(nm+"Square", func(c *vrCase) {
		t.unop(c, func(o, a vrEl) { o.Square(a) }, func(a *big.Int) *big.Int { return f.mod(new(big.Int).Mul(a, a)) })
	})
	if t.zero().Opp(t.zero()) {
		e.run(nm+"Opp", func(c *vrCase) {
			t.unop(c, func(o, a vrEl) { o.Opp(a) }, func(a *big.Int) *big.Int { return f.mod(new(big.Int).Neg(a)) })
		})
	}
	invRef := func(a *big.Int) *big.Int {
		if a.Sign() == 0 {
			return new(big.Int)
		}
		return new(big.Int).ModInverse(a, m)
	}
	// x.Invert(x) (receiver == operand): not used by the library, expected to fail
	// on the current code (the addition chain is not alias-safe). Extra case: runs
	// only when named in VERIF_FUNCS.
	e.runExtra(nm+"Invert.alias", func(c *vrCase) {
		t.unopAlias(c, func(o, a vrEl) { o.Invert(a) }, invRef, 1)
	})
	e.run(nm+"Invert", func(c *vrCase) {
		t.unopAlias(c, func(o, a vrEl) { o.Invert(a) }, invRef, 0)
		// Invert(x)*x == 1 through the package's own Mul as well
		for i := 0; i < c.n/4+1; i++ {
			a := f.gen(c.rng)
			if a.Sign() == 0 {
				continue
			}
			ea := t.mk(a)
			inv := t.zero()
			inv.Invert(ea)
			prod := t.zero()
			prod.Mul(inv, ea)
			v, msg := t.val(prod)
			c.check(msg == "" && v.Cmp(big.NewInt(1)) == 0, fmt.Sprintf(`{"a":"%s","check":"Invert(a)*a"}`, vrBH(a)), fmt.Sprint(v, msg), "1")
		}
	})
	e.run(nm+"Equal", func(c *vrCase) {
		f.pairs(c, func(a, b *big.Int, idx int) {
			ea, eb := t.mk(a), t.mk(b)
			if idx%5 == 0 {
				eb = ea
				b = a
			}
			want := 0
			if a.Cmp(b) == 0 {
				want = 1
			}
			var got int
			in := fmt.Sprintf(`{"a":"%s","b":"%s"}`, vrBH(a), vrBH(b))
			if p := vrTry(func() { got = ea.Equal(eb) }); p != "" {
				c.check(false, in, p, want)
				return
			}
			c.check(got == want, in, got, want)
		})
	})
	e.run(nm+"IsZero", func(c *vrCase) {
		f.singles(c, func(a *big.Int, idx int) {
			want := 0
			if a.Sign() == 0 {
				want = 1
			}
			var got int
			in := fmt.Sprintf(`{"a":"%s"}`, vrBH(a))
			if p := vrTry(func() { got = t.mk(a).IsZero() }); p != "" {
				c.check(false, in, p, want)
				return
			}
			c.check(got == want, in, got, want)
		})
		z := t.zero() // the zero value of the type is a valid zero
		c.check(z.IsZero() == 1, "zero value", z.IsZero(), 1)
	})
	e.run(nm+"Select", func(c *vrCase) {
		f.pairs(c, func(a, b *big.Int, idx int) {
			cond := idx & 1
			want := b
			if cond == 1 {
				want = a
			}
			ea, eb := t.mk(a), t.mk(b)
			out := t.mk(big.NewInt(99))
			mode := (idx / 2) % 3
			if mode == 1 {
				out = ea
			} else if mode == 2 {
				out = eb
			}
			in := fmt.Sprintf(`{"a":"%s","b":"%s","cond":%d,"alias":%d}`, vrBH(a), vrBH(b), cond, mode)
			if p := vrTry(func() { out.Select(ea, eb, cond) }); p != "" {
				c.check(false, in, p, vrBH(want))
				return
			}
			got, msg := t.val(out)
			c.check(msg == "" && got.Cmp(want) == 0, in, fmt.Sprint(got, msg), vrBH(want))
		})
	})
	e.run(nm+"One", func(c *vrCase) {
		for i := 0; i < 3; i++ {
			x := t.mk(f.gen(c.rng))
			x.One()
			got, msg := t.val(x)
			c.check(msg == "" && got.Cmp(big.NewInt(1)) == 0, "{}", fmt.Sprint(got, msg), "1")
		}
	})
	e.run(nm+"Set", func(c *vrCase) {
		f.singles(c, func(a *big.Int, idx int) {
			x := t.mk(big.NewInt(3))
			ea := t.mk(a)
			x.Set(ea)
			got, msg := t.val(x)
			c.check(msg == "" && got.Cmp(a) == 0, fmt.Sprintf(`{"a":"%s"}`, vrBH(a)), fmt.Sprint(got, msg), vrBH(a))
		})
	})
}

// SM2Element.MultiSelect(precomputed, width, bits, fallback, fallbackCond).
// The function has no documentation; its only caller is
// (*SM2Point).multiSelectConditioned, which passes
//
//	fallbackCond = 1 - [bits == 0]      and fallback = the receiver,
//
// i.e. fallbackCond == 0 means "take the fallback", fallbackCond == 1 means
// "take the table". The expected results used here, on that calling convention:
//
//	bits == 0, fallbackCond == 0          -> fallback (raw limbs)
//	1 <= bits <= width, fallbackCond == 1 -> *table[bits-1] (raw limbs)
//	bits == 0 or bits > width, fallbackCond == 1 -> zero (nothing selected)
//
// The combination bits != 0 with fallbackCond == 0 is outside the caller's
// domain (the code ORs fallback and table entry) and is not exercised.
func vrCaseMultiSelect(c *vrCase) {
	f := vrFieldP
	one := func(width int, bits byte, cond int, aliasFallback bool) {
		table := make([]*[4]uint64, width)
		var desc []string
		for i := range table {
			l := vrToLimbs(f.gen(c.rng))
			if c.rng.Intn(4) == 0 {
				l = vrRandL(c.rng) // the function moves raw limbs, any pattern
			}
			table[i] = &l
			if i < 3 {
				desc = append(desc, vrLS(l))
			}
		}
		saved := make([][4]uint64, width)
		for i := range table {
			saved[i] = *table[i]
		}
		fb := &SM2Element{}
		fb.x = sm2MontgomeryDomainFieldElement(vrToLimbs(f.gen(c.rng)))
		fb0 := fb.x
		recv := &SM2Element{}
		recv.x = sm2MontgomeryDomainFieldElement(vrRandL(c.rng))
		if aliasFallback {
			recv = fb
		}
		var want vrL
		switch {
		case bits == 0 && cond == 0:
			want = vrL(fb0)
		case bits >= 1 && int(bits) <= width:
			want = *table[bits-1]
		}
		in := fmt.Sprintf(`{"width":%d,"bits":%d,"fallbackCond":%d,"fallback":"%s","receiverIsFallback":%v,"table[:3]":"%s"}`,
			width, bits, cond, vrLS(vrL(fb0)), aliasFallback, strings.Join(desc, ";"))
		if p := vrTry(func() { recv.MultiSelect(&table, width, bits, fb, cond) }); p != "" {
			c.check(false, in, p, vrLS(want))
			return
		}
		for i := range table {
			if *table[i] != saved[i] {
				c.check(false, in, fmt.Sprintf("table[%d] modified", i), "table unchanged")
				return
			}
		}
		if !aliasFallback && fb.x != fb0 {
			c.check(false, in, "fallback modified", "fallback unchanged")
			return
		}
		c.check(vrL(recv.x) == want, in, vrLS(vrL(recv.x)), vrLS(want))
	}
	for _, width := range []int{0, 1, 2, 3, 7, 8, 15, 16, 31, 32, 63, 64, 127, 128, 255} {
		for b := 0; b <= width && b <= 255; b++ {
			cond := 1
			if b == 0 {
				cond = 0
			}
			one(width, byte(b), cond, b%2 == 0)
		}
		one(width, 0, 1, false) // nothing selected
		if width < 255 {
			one(width, byte(width+1), 1, false) // beyond the table: nothing selected
			one(width, 255, 1, true)
		}
	}
	for i := 0; i < c.n; i++ {
		width := 1 + c.rng.Intn(64)
		b := c.rng.Intn(width + 1)
		cond := 1
		if b == 0 {
			cond = 0
		}
		one(width, byte(b), cond, c.rng.Intn(2) == 0)
	}
}

// SetRaw / GetRaw: plain copies of the Montgomery representation.
func vrCaseRaw(c *vrCase) {
	for i := 0; i < c.n+4; i++ {
		l := vrRandL(c.rng)
		e := &SM2Element{}
		r := e.SetRaw(l)
		g := e.GetRaw()
		c.check(r == e && vrL(e.x) == l && *g == l && g == (*[4]uint64)(&e.x), fmt.Sprintf(`{"raw":"%s"}`, vrLS(l)), vrLS(vrL(e.x)), vrLS(l))
	}
}

// sm2Inv (Bernstein-Yang divsteps; dormant): for g in [1,p) not in the
// Montgomery domain, out = g^-1 * R mod p (the inverse, in the Montgomery domain).
func vrCaseSm2Inv(c *vrCase) {
	f := vrFieldP
	f.singles(c, func(a *big.Int, idx int) {
		if a.Sign() == 0 {
			return
		}
		la := vrToLimbs(a)
		g := [5]uint64{la[0], la[1], la[2], la[3], 0}
		want := vrToLimbs(f.mod(new(big.Int).Mul(new(big.Int).ModInverse(a, f.m), vrR)))
		var out [4]uint64
		in := fmt.Sprintf(`{"g":"%s"}`, vrLS(la))
		if p := vrTry(func() { sm2Inv(&out, &g) }); p != "" {
			c.check(false, in, p, vrLS(want))
			return
		}
		c.check(out == want, in, vrLS(out), vrLS(want))
	})
}

// sm2DivstepPrecomp: from_montgomery(out) = (1/2)^741 mod p = ((p+1)/2)^741
// (741 = (49*256+57)/17 divsteps, each of which doubles v and r). The generated
// doc comment writes floor((m-1)/2)^741, which is the negative of this value (741
// is odd); the value needed by sm2Inv -- checked functionally by case sm2Inv --
// is the one used here.
func vrCaseDivstepPrecomp(c *vrCase) {
	f := vrFieldP
	var out [4]uint64
	sm2DivstepPrecomp(&out)
	half := new(big.Int).ModInverse(big.NewInt(2), f.m)
	w := new(big.Int).Exp(half, big.NewInt((49*256+57)/17), f.m)
	want := vrToLimbs(f.mod(new(big.Int).Mul(w, vrR)))
	c.check(out == want, "{}", vrLS(out), vrLS(want))
}

var vrFieldP, vrFieldN *vrField

func vrInitFields() {
	p := vrMustHex("FFFFFFFE FFFFFFFF FFFFFFFF FFFFFFFF FFFFFFFF 00000000 FFFFFFFF FFFFFFFF")
	// p = 2^256 - 2^224 - 2^96 + 2^64 - 1
	q := new(big.Int).Sub(vrPow2(256), vrPow2(224))
	q.Sub(q, vrPow2(96))
	q.Add(q, vrPow2(64))
	q.Sub(q, big.NewInt(1))
	if p.Cmp(q) != 0 || !p.ProbablyPrime(20) {
		panic("reference p wrong")
	}
	n := vrMustHex("FFFFFFFE FFFFFFFF FFFFFFFF FFFFFFFF 7203DF6B 21C6052B 53BBF409 39D54123")
	if !n.ProbablyPrime(20) {
		panic("reference n wrong")
	}

	fp := vrNewField("sm2", p)
	type mp = sm2MontgomeryDomainFieldElement
	type np = sm2NonMontgomeryDomainFieldElement
	fp.add = func(o, a, b *vrL) { sm2Add((*mp)(o), (*mp)(a), (*mp)(b)) }
	fp.sub = func(o, a, b *vrL) { sm2Sub((*mp)(o), (*mp)(a), (*mp)(b)) }
	fp.mul = func(o, a, b *vrL) { sm2Mul((*mp)(o), (*mp)(a), (*mp)(b)) }
	fp.opp = func(o, a *vrL) { sm2Opp((*mp)(o), (*mp)(a)) }
	fp.square = func(o, a *vrL) { sm2Square((*mp)(o), (*mp)(a)) }
	fp.toM = func(o, a *vrL) { sm2ToMontgomery((*mp)(o), (*np)(a)) }
	fp.fromM = func(o, a *vrL) { sm2FromMontgomery((*np)(o), (*mp)(a)) }
	fp.inv = func(o, a *vrL) { sm2FermatInvert_FiatAC((*mp)(o), (*mp)(a)) }
	fp.toBytes = func(o *[32]byte, a *vrL) { sm2ToBytes(o, a) }
	fp.fromBytes = func(o *vrL, a *[32]byte) { sm2FromBytes(o, a) }
	fp.selectznz = func(o *vrL, c uint64, a, b *vrL) { sm2Selectznz(o, sm2Uint1(c), a, b) }
	fp.nonzero = func(o *uint64, a *vrL) { sm2Nonzero(o, a) }
	fp.cmov = func(o *uint64, c, a, b uint64) { sm2CmovznzU64(o, sm2Uint1(c), a, b) }
	fp.setOne = func(o *vrL) { sm2SetOne((*mp)(o)) }
	fp.msat = func(o *[5]uint64) { sm2Msat(o) }
	vrFieldP = fp

	fn := vrNewField("sm2Scalar", n)
	type mn = sm2ScalarMontgomeryDomainFieldElement
	type nn = sm2ScalarNonMontgomeryDomainFieldElement
	fn.add = func(o, a, b *vrL) { sm2ScalarAdd((*mn)(o), (*mn)(a), (*mn)(b)) }
	fn.sub = func(o, a, b *vrL) { sm2ScalarSub((*mn)(o), (*mn)(a), (*mn)(b)) }
	fn.mul = func(o, a, b *vrL) { sm2ScalarMul((*mn)(o), (*mn)(a), (*mn)(b)) }
	fn.opp = func(o, a *vrL) { sm2ScalarOpp((*mn)(o), (*mn)(a)) }
	fn.square = func(o, a *vrL) { sm2ScalarSquare((*mn)(o), (*mn)(a)) }
	fn.toM = func(o, a *vrL) { sm2ScalarToMontgomery((*mn)(o), (*nn)(a)) }
	fn.fromM = func(o, a *vrL) { sm2ScalarFromMontgomery((*nn)(o), (*mn)(a)) }
	fn.inv = func(o, a *vrL) { sm2ScalarFermatInvert_FiatAC((*mn)(o), (*mn)(a)) }
	fn.toBytes = func(o *[32]byte, a *vrL) { sm2ScalarToBytes(o, a) }
	fn.fromBytes = func(o *vrL, a *[32]byte) { sm2ScalarFromBytes(o, a) }
	fn.selectznz = func(o *vrL, c uint64, a, b *vrL) { sm2ScalarSelectznz(o, sm2ScalarUint1(c), a, b) }
	fn.nonzero = func(o *uint64, a *vrL) { sm2ScalarNonzero(o, a) }
	fn.cmov = func(o *uint64, c, a, b uint64) { sm2ScalarCmovznzU64(o, sm2ScalarUint1(c), a, b) }
	fn.setOne = func(o *vrL) { sm2ScalarSetOne((*mn)(o)) }
	fn.msat = func(o *[5]uint64) { sm2ScalarMsat(o) }
	vrFieldN = fn
}

func TestVerifReplay(t *testing.T) {
	vrInitFields()
	e := vrNewEnv(t)
	vrFieldP.primCases(e)
	vrFieldN.primCases(e)
	e.run("sm2Inv", vrCaseSm2Inv)
	e.run("sm2DivstepPrecomp", vrCaseDivstepPrecomp)
	(&vrElems{f: vrFieldP, name: "SM2Element", zero: func() vrEl { return vrElP{new(SM2Element)} }}).cases(e)
	(&vrElems{f: vrFieldN, name: "SM2ScalarElement", zero: func() vrEl { return vrElN{new(SM2ScalarElement)} }}).cases(e)
	e.run("SM2Element.MultiSelect", vrCaseMultiSelect)
	e.run("SM2Element.SetRaw", vrCaseRaw)
	e.finish()
}
