#!/usr/bin/env python3
# Maintenance helper: copies the harness block of utils_replay_test.go into the
# other replay test files (between the "harness" marker and the next
# "// ------...") so that all files stay self-contained but identical.
import re, sys, os
here = os.path.dirname(os.path.abspath(__file__))
src = open(os.path.join(here, 'utils_replay_test.go')).read()
M = '// ---------------------------------------------------------------- harness'
a = src.index(M)
b = src.index('// ----------------------------------------------------------------', a + len(M))
block = src[a:b]
for f in sys.argv[1:]:
    p = os.path.join(here, f)
    s = open(p).read()
    if '//VRHARNESS\n' in s:
        s = s.replace('//VRHARNESS\n', block.rstrip('\n') + '\n', 1)
    elif M in s:
        x = s.index(M)
        y = s.index('// ----------------------------------------------------------------', x + len(M))
        s = s[:x] + block + s[y:]
    else:
        print('no marker in', f); continue
    open(p, 'w').write(s)
    print('synced', f)
