// Differential replay test for package utils (github.com/bilibili/smgo/utils).
// Injected with `go test -overlay` as /repo/utils/zz_replay_test.go; see run.sh.
// The references are written from plain mathematics (bytes.Compare, math/big).

package utils

import (
	"bytes"
	"encoding/hex"
	"fmt"
	"hash/fnv"
	"math/big"
	"math/rand"
	"os"
	"strconv"
	"strings"
	"testing"
)

// ---------------------------------------------------------------- harness

type vrEnv struct {
	t    *testing.T
	seed int64
	n    int
	sel  map[string]bool // nil = all
	seen map[string]bool
}

type vrCase struct {
	env   *vrEnv
	name  string
	rng   *rand.Rand
	n     int
	runs  int
	fails int
	skip  string // non-empty: case could not run here (reason)
}

func vrNewEnv(t *testing.T) *vrEnv {
	e := &vrEnv{t: t, seed: 1, n: 200, seen: map[string]bool{}}
	if s := strings.TrimSpace(os.Getenv("VERIF_SEED")); s != "" {
		v, err := strconv.ParseInt(s, 10, 64)
		if err != nil {
			t.Fatalf("bad VERIF_SEED %q", s)
		}
		e.seed = v
	}
	if s := strings.TrimSpace(os.Getenv("VERIF_N")); s != "" {
		v, err := strconv.Atoi(s)
		if err != nil || v < 0 {
			t.Fatalf("bad VERIF_N %q", s)
		}
		e.n = v
	}
	if s := strings.TrimSpace(os.Getenv("VERIF_FUNCS")); s != "" && s != "all" {
		e.sel = map[string]bool{}
		for _, f := range strings.Split(s, ",") {
			if f = strings.TrimSpace(f); f != "" {
				e.sel[f] = true
			}
		}
	}
	return e
}

// run executes one case if selected. Every case gets its own generator that is
// derived from VERIF_SEED and the case name only, so that a single case
// selected with VERIF_FUNCS replays exactly the inputs of the full run.
func (e *vrEnv) run(name string, f func(c *vrCase)) {
	e.seen[name] = true
	if e.sel != nil && !e.sel[name] {
		return
	}
	h := fnv.New64a()
	h.Write([]byte(name))
	master := rand.New(rand.NewSource(e.seed))
	sub := master.Int63() ^ int64(h.Sum64()&0x7fffffffffffffff)
	c := &vrCase{env: e, name: name, rng: rand.New(rand.NewSource(sub)), n: e.n}
	func() {
		defer func() {
			if r := recover(); r != nil {
				c.fail("harness", fmt.Sprintf("panic:%v", r), "no panic")
			}
		}()
		f(c)
	}()
	if c.skip != "" {
		fmt.Printf("REPLAY-SKIP case=%s reason=%s\n", c.name, vrOneLine(c.skip))
	} else if c.fails == 0 {
		fmt.Printf("REPLAY-OK case=%s n=%d\n", c.name, c.runs)
	}
}

// runExtra is like run for cases that are outside the documented contract of the
// package (e.g. undocumented aliasing): they are not part of "all" and run only
// when named explicitly in VERIF_FUNCS.
func (e *vrEnv) runExtra(name string, f func(c *vrCase)) {
	if e.sel == nil {
		e.seen[name] = true
		return
	}
	e.run(name, f)
}

func (e *vrEnv) finish() {
	for f := range e.sel {
		if !e.seen[f] {
			fmt.Printf("REPLAY-UNKNOWN case=%s\n", f)
			e.t.Errorf("unknown case %q", f)
		}
	}
}

func vrOneLine(s string) string {
	s = strings.ReplaceAll(s, "\n", "\\n")
	s = strings.ReplaceAll(s, " ", "_")
	if len(s) > 6000 {
		s = s[:6000] + "...(truncated)"
	}
	if s == "" {
		s = "-"
	}
	return s
}

func (c *vrCase) fail(input, got, want string) {
	c.fails++
	c.env.t.Fail()
	if c.fails <= 5 {
		fmt.Printf("REPLAY-FAIL case=%s input=%s got=%s want=%s\n", c.name, vrOneLine(input), vrOneLine(got), vrOneLine(want))
	}
}

// check counts one comparison.
func (c *vrCase) check(ok bool, input string, got, want interface{}) bool {
	c.runs++
	if !ok {
		c.fail(input, fmt.Sprint(got), fmt.Sprint(want))
	}
	return ok
}

// vrTry runs f and converts a panic into a string.
func vrTry(f func()) (panicked string) {
	defer func() {
		if r := recover(); r != nil {
			panicked = fmt.Sprintf("panic:%v", r)
		}
	}()
	f()
	return ""
}

func vrHex(b []byte) string { return hex.EncodeToString(b) }

func vrBytes(r *rand.Rand, n int) []byte {
	b := make([]byte, n)
	r.Read(b)
	return b
}

// ---------------------------------------------------------------- cases

func vrCaseConstantTimeCmp(c *vrCase) {
	one := func(a, b []byte, l int) {
		want := bytes.Compare(a[:l], b[:l])
		var got int
		in := fmt.Sprintf(`{"a":"%s","b":"%s","l":%d}`, vrHex(a), vrHex(b), l)
		if p := vrTry(func() { got = ConstantTimeCmp(a, b, l) }); p != "" {
			c.check(false, in, p, want)
			return
		}
		c.check(got == want, in, got, want)
	}
	// boundary patterns
	for _, l := range []int{0, 1, 2, 31, 32, 33, 64} {
		z := make([]byte, l)
		f := bytes.Repeat([]byte{0xff}, l)
		one(z, z, l)
		one(f, f, l)
		one(z, f, l)
		one(f, z, l)
		one(append([]byte{}, z...), append([]byte{}, z...), 0)
		for i := 0; i < l; i++ {
			// long equal prefix, differ in byte i only (both directions, +-1 and extreme)
			a := vrBytes(c.rng, l)
			b := append([]byte{}, a...)
			b[i] ^= 1 << uint(c.rng.Intn(8))
			one(a, b, l)
			one(b, a, l)
			// the tail after i is ordered the other way round
			a2 := append([]byte{}, z...)
			b2 := append([]byte{}, z...)
			a2[i] = 1
			for j := i + 1; j < l; j++ {
				b2[j] = 0xff
			}
			one(a2, b2, l)
			one(b2, a2, l)
			// compare only a prefix that stops before / at / after the difference
			one(a, b, i)
			if i+1 <= l {
				one(a, b, i+1)
			}
		}
	}
	// slices longer than l (l is a prefix length)
	for i := 0; i < c.n; i++ {
		la := c.rng.Intn(70)
		lb := c.rng.Intn(70)
		a := vrBytes(c.rng, la)
		b := vrBytes(c.rng, lb)
		m := la
		if lb < m {
			m = lb
		}
		// common prefix of random length
		k := 0
		if m > 0 {
			k = c.rng.Intn(m + 1)
		}
		copy(b[:k], a[:k])
		l := 0
		if m > 0 {
			l = c.rng.Intn(m + 1)
		}
		one(a, b, l)
		one(a, b, m)
	}
	// non-nil empty slices
	one([]byte{}, []byte{}, 0)
}

// vrNafCheck returns "" if out is a valid width-w NAF of be(s).
func vrNafCheck(out []int, s []byte, w int) string {
	sum := new(big.Int)
	for j := len(out) - 1; j >= 0; j-- {
		sum.Lsh(sum, 1)
		sum.Add(sum, big.NewInt(int64(out[j])))
	}
	want := new(big.Int).SetBytes(s)
	if sum.Cmp(want) != 0 {
		return fmt.Sprintf("sum=%s", sum.Text(16))
	}
	for j, d := range out {
		if d == 0 {
			continue
		}
		if d&1 == 0 {
			return fmt.Sprintf("even digit out[%d]=%d", j, d)
		}
		if d >= 1<<uint(w) || -d >= 1<<uint(w) {
			return fmt.Sprintf("digit too large out[%d]=%d", j, d)
		}
		for k := j + 1; k <= j+w && k < len(out); k++ {
			if out[k] != 0 {
				return fmt.Sprintf("out[%d]=%d followed by out[%d]=%d (need %d zeros)", j, d, k, out[k], w)
			}
		}
	}
	return ""
}

// vrCaseDecomposeNAFSmall: EXHAUSTIVE over all inputs of a short width: every 16-bit integer (n = 17), 24-bit when
// n_per_case >= 1000 (n = 25), for every window width 1..7. The recoding acts locally (it looks at w+1 bits and a
// carry), so all local configurations including the byte-boundary cases of getBits occur; uses int64 arithmetic.
func vrCaseDecomposeNAFSmall(c *vrCase) {
	// the function indexes bits from the most significant bit of s: the width must be exactly 8*len(s) = n-1
	bitsN := 16
	if c.n >= 1000 {
		bitsN = 24
	}
	nb := (bitsN + 7) / 8
	n := bitsN + 1
	out := make([]int, n)
	s := make([]byte, nb)
	for w := 1; w <= 7; w++ {
		for v := 0; v < 1<<uint(bitsN); v++ {
			for i := range out {
				out[i] = 0
			}
			for i := 0; i < nb; i++ {
				s[nb-1-i] = byte(v >> uint(8*i))
			}
			bad := ""
			if p := vrTry(func() { DecomposeNAF(out, s, n, w) }); p != "" {
				bad = p
			} else {
				var sum int64
				for j := n - 1; j >= 0; j-- {
					sum = sum*2 + int64(out[j])
				}
				if sum != int64(v) {
					bad = fmt.Sprintf("sum=%d", sum)
				}
				for j, d := range out {
					if d == 0 || bad != "" {
						continue
					}
					if d&1 == 0 || d >= 1<<uint(w) || -d >= 1<<uint(w) {
						bad = fmt.Sprintf("bad digit out[%d]=%d", j, d)
					}
					for k := j + 1; k <= j+w && k < n; k++ {
						if out[k] != 0 {
							bad = fmt.Sprintf("out[%d]=%d followed by out[%d]=%d", j, d, k, out[k])
						}
					}
				}
			}
			c.runs++
			if bad != "" {
				c.check(false, fmt.Sprintf(`{"s":"%s","n":%d,"w":%d}`, vrHex(s), n, w), bad+" out="+fmt.Sprint(out), fmt.Sprintf("valid %d-NAF of %d", w, v))
				if c.fails > 5 {
					return
				}
			}
		}
	}
}

func vrCaseDecomposeNAF(c *vrCase) {
	one := func(s []byte, w int) {
		out := make([]int, 257)
		in := fmt.Sprintf(`{"s":"%s","n":257,"w":%d}`, vrHex(s), w)
		s0 := append([]byte{}, s...)
		if p := vrTry(func() { DecomposeNAF(out, s, 257, w) }); p != "" {
			c.check(false, in, p, "valid "+strconv.Itoa(w)+"-NAF")
			return
		}
		if !bytes.Equal(s, s0) {
			c.check(false, in, "s modified:"+vrHex(s), "s unchanged")
			return
		}
		msg := vrNafCheck(out, s, w)
		c.check(msg == "", in, msg+" out="+fmt.Sprint(out), "valid "+strconv.Itoa(w)+"-NAF with sum="+new(big.Int).SetBytes(s).Text(16))
	}
	var pats [][]byte
	add := func(b []byte) { pats = append(pats, b) }
	z := make([]byte, 32)
	add(z)
	add(bytes.Repeat([]byte{0xff}, 32))
	add(bytes.Repeat([]byte{0xaa}, 32))
	add(bytes.Repeat([]byte{0x55}, 32))
	add(bytes.Repeat([]byte{0x7f}, 32))
	add(bytes.Repeat([]byte{0x80}, 32))
	add(bytes.Repeat([]byte{0x01}, 32))
	add(bytes.Repeat([]byte{0xfe}, 32))
	for i := 0; i < 256; i++ { // single bit, and run of ones from bit i down / up
		b := make([]byte, 32)
		b[31-i/8] = 1 << uint(i%8)
		add(b)
		lo := new(big.Int).Sub(new(big.Int).Lsh(big.NewInt(1), uint(i)), big.NewInt(1)) // 2^i-1
		add(lo.FillBytes(make([]byte, 32)))
		hi := new(big.Int).Sub(new(big.Int).Lsh(big.NewInt(1), 256), new(big.Int).Lsh(big.NewInt(1), uint(i))) // 2^256-2^i
		add(hi.FillBytes(make([]byte, 32)))
	}
	nHex := "FFFFFFFEFFFFFFFFFFFFFFFFFFFFFFFF7203DF6B21C6052B53BBF40939D54123"
	pHex := "FFFFFFFEFFFFFFFFFFFFFFFFFFFFFFFFFFFFFFFF00000000FFFFFFFFFFFFFFFF"
	for _, h := range []string{nHex, pHex} {
		m, _ := new(big.Int).SetString(h, 16)
		for d := int64(-2); d <= 2; d++ {
			add(new(big.Int).Add(m, big.NewInt(d)).FillBytes(make([]byte, 32)))
		}
	}
	for w := 1; w <= 7; w++ {
		for _, p := range pats {
			one(append([]byte{}, p...), w)
		}
		for i := 0; i < c.n; i++ {
			s := vrBytes(c.rng, 32)
			switch c.rng.Intn(6) {
			case 0: // leading zero bytes
				for j := 0; j < c.rng.Intn(32); j++ {
					s[j] = 0
				}
			case 1: // leading 0xff bytes
				for j := 0; j < c.rng.Intn(32); j++ {
					s[j] = 0xff
				}
			case 2: // trailing 0xff
				for j := 0; j < c.rng.Intn(32); j++ {
					s[31-j] = 0xff
				}
			case 3: // sparse
				for j := range s {
					if c.rng.Intn(3) != 0 {
						s[j] = 0
					}
				}
			}
			one(s, w)
		}
	}
}

func TestVerifReplay(t *testing.T) {
	e := vrNewEnv(t)
	e.run("ConstantTimeCmp", vrCaseConstantTimeCmp)
	e.run("DecomposeNAF", vrCaseDecomposeNAF)
	e.run("DecomposeNAF.exhaustive-small", vrCaseDecomposeNAFSmall)
	e.finish()
}
