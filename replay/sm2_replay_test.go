// Differential replay test for package sm2 (github.com/bilibili/smgo/sm2).
// Injected with `go test -overlay` as /repo/sm2/zz_replay_test.go; see run.sh.
//
// References written here from the standards: the SM2 digital signature algorithm
// of GM/T 0003.2-2012 (sign: section 6.1, verify: section 7.1, ZA: section 5.5)
// over affine math/big curve arithmetic with the recommended parameters of
// GM/T 0003.5-2012, and SM3 from GB/T 32905. The references are validated on the
// examples of GM/T 0003.5 annex A.2 (key pair, ZA, e, signature) and of
// GM/T 0003.2 annex A.2 (ZA on the test curve) before any comparison is made.
// Nonces come from a scripted io.Reader that returns given 32-byte chunks.

package sm2

import (
	"bytes"
	"encoding/hex"
	"errors"
	"fmt"
	"hash/fnv"
	"io"
	"math/big"
	"math/rand"
	"os"
	"strconv"
	"strings"
	"testing"
)

// ---------------------------------------------------------------- harness

type vrEnv struct {
	t    *testing.T
	seed int64
	n    int
	sel  map[string]bool // nil = all
	seen map[string]bool
}

type vrCase struct {
	env   *vrEnv
	name  string
	rng   *rand.Rand
	n     int
	runs  int
	fails int
	skip  string // non-empty: case could not run here (reason)
}

func vrNewEnv(t *testing.T) *vrEnv {
	e := &vrEnv{t: t, seed: 1, n: 200, seen: map[string]bool{}}
	if s := strings.TrimSpace(os.Getenv("VERIF_SEED")); s != "" {
		v, err := strconv.ParseInt(s, 10, 64)
		if err != nil {
			t.Fatalf("bad VERIF_SEED %q", s)
		}
		e.seed = v
	}
	if s := strings.TrimSpace(os.Getenv("VERIF_N")); s != "" {
		v, err := strconv.Atoi(s)
		if err != nil || v < 0 {
			t.Fatalf("bad VERIF_N %q", s)
		}
		e.n = v
	}
	if s := strings.TrimSpace(os.Getenv("VERIF_FUNCS")); s != "" && s != "all" {
		e.sel = map[string]bool{}
		for _, f := range strings.Split(s, ",") {
			if f = strings.TrimSpace(f); f != "" {
				e.sel[f] = true
			}
		}
	}
	return e
}

// run executes one case if selected. Every case gets its own generator that is
// derived from VERIF_SEED and the case name only, so that a single case
// selected with VERIF_FUNCS replays exactly the inputs of the full run.
func (e *vrEnv) run(name string, f func(c *vrCase)) {
	e.seen[name] = true
	if e.sel != nil && !e.sel[name] {
		return
	}
	h := fnv.New64a()
	h.Write([]byte(name))
	master := rand.New(rand.NewSource(e.seed))
	sub := master.Int63() ^ int64(h.Sum64()&0x7fffffffffffffff)
	c := &vrCase{env: e, name: name, rng: rand.New(rand.NewSource(sub)), n: e.n}
	func() {
		defer func() {
			if r := recover(); r != nil {
				c.fail("harness", fmt.Sprintf("panic:%v", r), "no panic")
			}
		}()
		f(c)
	}()
	if c.skip != "" {
		fmt.Printf("REPLAY-SKIP case=%s reason=%s\n", c.name, vrOneLine(c.skip))
	} else if c.fails == 0 {
		fmt.Printf("REPLAY-OK case=%s n=%d\n", c.name, c.runs)
	}
}

// runExtra is like run for cases that are outside the documented contract of the
// package (e.g. undocumented aliasing): they are not part of "all" and run only
// when named explicitly in VERIF_FUNCS.
func (e *vrEnv) runExtra(name string, f func(c *vrCase)) {
	if e.sel == nil {
		e.seen[name] = true
		return
	}
	e.run(name, f)
}

func (e *vrEnv) finish() {
	for f := range e.sel {
		if !e.seen[f] {
			fmt.Printf("REPLAY-UNKNOWN case=%s\n", f)
			e.t.Errorf("unknown case %q", f)
		}
	}
}

func vrOneLine(s string) string {
	s = strings.ReplaceAll(s, "\n", "\\n")
	s = strings.ReplaceAll(s, " ", "_")
	if len(s) > 6000 {
		s = s[:6000] + "...(truncated)"
	}
	if s == "" {
		s = "-"
	}
	return s
}

func (c *vrCase) fail(input, got, want string) {
	c.fails++
	c.env.t.Fail()
	if c.fails <= 5 {
		fmt.Printf("REPLAY-FAIL case=%s input=%s got=%s want=%s\n", c.name, vrOneLine(input), vrOneLine(got), vrOneLine(want))
	}
}

// check counts one comparison.
func (c *vrCase) check(ok bool, input string, got, want interface{}) bool {
	c.runs++
	if !ok {
		c.fail(input, fmt.Sprint(got), fmt.Sprint(want))
	}
	return ok
}

// vrTry runs f and converts a panic into a string.
func vrTry(f func()) (panicked string) {
	defer func() {
		if r := recover(); r != nil {
			panicked = fmt.Sprintf("panic:%v", r)
		}
	}()
	f()
	return ""
}

func vrHex(b []byte) string { return hex.EncodeToString(b) }

func vrBytes(r *rand.Rand, n int) []byte {
	b := make([]byte, n)
	r.Read(b)
	return b
}

// ---------------------------------------------------------------- reference SM3 (GB/T 32905)

func vrRotl(x uint32, n uint) uint32 {
	n %= 32
	if n == 0 {
		return x
	}
	return x<<n | x>>(32-n)
}

func vrP0(x uint32) uint32 { return x ^ vrRotl(x, 9) ^ vrRotl(x, 17) }
func vrP1(x uint32) uint32 { return x ^ vrRotl(x, 15) ^ vrRotl(x, 23) }

func vrT(j int) uint32 {
	if j <= 15 {
		return 0x79cc4519
	}
	return 0x7a879d8a
}

func vrFF(j int, x, y, z uint32) uint32 {
	if j <= 15 {
		return x ^ y ^ z
	}
	return (x & y) | (x & z) | (y & z)
}

func vrGG(j int, x, y, z uint32) uint32 {
	if j <= 15 {
		return x ^ y ^ z
	}
	return (x & y) | (^x & z)
}

// vrCF is the compression function V(i+1) = CF(V(i), B(i)).
func vrCF(v [8]uint32, blk []byte) [8]uint32 {
	var w [68]uint32
	var w1 [64]uint32
	for j := 0; j < 16; j++ {
		w[j] = uint32(blk[4*j])<<24 | uint32(blk[4*j+1])<<16 | uint32(blk[4*j+2])<<8 | uint32(blk[4*j+3])
	}
	for j := 16; j <= 67; j++ {
		w[j] = vrP1(w[j-16]^w[j-9]^vrRotl(w[j-3], 15)) ^ vrRotl(w[j-13], 7) ^ w[j-6]
	}
	for j := 0; j <= 63; j++ {
		w1[j] = w[j] ^ w[j+4]
	}
	a, b, c, d, e, f, g, h := v[0], v[1], v[2], v[3], v[4], v[5], v[6], v[7]
	for j := 0; j <= 63; j++ {
		ss1 := vrRotl(vrRotl(a, 12)+e+vrRotl(vrT(j), uint(j%32)), 7)
		ss2 := ss1 ^ vrRotl(a, 12)
		tt1 := vrFF(j, a, b, c) + d + ss2 + w1[j]
		tt2 := vrGG(j, e, f, g) + h + ss1 + w[j]
		d = c
		c = vrRotl(b, 9)
		b = a
		a = tt1
		h = g
		g = vrRotl(f, 19)
		f = e
		e = vrP0(tt2)
	}
	return [8]uint32{a ^ v[0], b ^ v[1], c ^ v[2], d ^ v[3], e ^ v[4], f ^ v[5], g ^ v[6], h ^ v[7]}
}

// vrSM3 hashes msg: padding (bit 1, k zero bits with l+1+k = 448 mod 512, 64-bit
// big-endian bit length), iteration over 512-bit blocks.
func vrSM3(msg []byte) [32]byte {
	l := uint64(len(msg)) * 8
	m := append([]byte{}, msg...)
	m = append(m, 0x80)
	for len(m)%64 != 56 {
		m = append(m, 0)
	}
	for i := 7; i >= 0; i-- {
		m = append(m, byte(l>>(8*uint(i))))
	}
	v := [8]uint32{0x7380166f, 0x4914b2b9, 0x172442d7, 0xda8a0600, 0xa96f30bc, 0x163138aa, 0xe38dee4d, 0xb0fb0e4e}
	for i := 0; i < len(m); i += 64 {
		v = vrCF(v, m[i:i+64])
	}
	var out [32]byte
	for i := 0; i < 8; i++ {
		out[4*i] = byte(v[i] >> 24)
		out[4*i+1] = byte(v[i] >> 16)
		out[4*i+2] = byte(v[i] >> 8)
		out[4*i+3] = byte(v[i])
	}
	return out
}

// ---------------------------------------------------------------- reference curve

func vrMustHex(s string) *big.Int {
	v, ok := new(big.Int).SetString(strings.ReplaceAll(s, " ", ""), 16)
	if !ok {
		panic("bad hex " + s)
	}
	return v
}

// GM/T 0003.5-2012 recommended curve parameters.
var (
	vrP  = vrMustHex("FFFFFFFE FFFFFFFF FFFFFFFF FFFFFFFF FFFFFFFF 00000000 FFFFFFFF FFFFFFFF")
	vrA  = vrMustHex("FFFFFFFE FFFFFFFF FFFFFFFF FFFFFFFF FFFFFFFF 00000000 FFFFFFFF FFFFFFFC")
	vrB  = vrMustHex("28E9FA9E 9D9F5E34 4D5A9E4B CF6509A7 F39789F5 15AB8F92 DDBCBD41 4D940E93")
	vrN  = vrMustHex("FFFFFFFE FFFFFFFF FFFFFFFF FFFFFFFF 7203DF6B 21C6052B 53BBF409 39D54123")
	vrGx = vrMustHex("32C4AE2C 1F198119 5F990446 6A39C994 8FE30BBF F2660BE1 715A4589 334C74C7")
	vrGy = vrMustHex("BC3736A2 F4F6779C 59BDCEE3 6B692153 D0A9877C C62A4740 02DF32E5 2139F0A0")
	vrG  = vrPt{x: vrGx, y: vrGy}
	vrO  = vrPt{inf: true}
)

type vrPt struct {
	x, y *big.Int
	inf  bool
}

func vrModP(v *big.Int) *big.Int { return v.Mod(v, vrP) }

func vrOnCurve(x, y *big.Int) bool {
	if x.Sign() < 0 || y.Sign() < 0 || x.Cmp(vrP) >= 0 || y.Cmp(vrP) >= 0 {
		return false
	}
	l := new(big.Int).Mul(y, y)
	vrModP(l)
	return l.Cmp(vrRHS(x)) == 0
}

// vrRHS returns x^3 + a*x + b mod p.
func vrRHS(x *big.Int) *big.Int {
	r := new(big.Int).Mul(x, x)
	r.Mul(r, x)
	r.Add(r, new(big.Int).Mul(vrA, x))
	r.Add(r, vrB)
	return vrModP(r)
}

func vrNeg(p vrPt) vrPt {
	if p.inf {
		return vrO
	}
	return vrPt{x: new(big.Int).Set(p.x), y: vrModP(new(big.Int).Neg(p.y))}
}

func vrEq(p, q vrPt) bool {
	if p.inf || q.inf {
		return p.inf == q.inf
	}
	return p.x.Cmp(q.x) == 0 && p.y.Cmp(q.y) == 0
}

func vrAddPt(p, q vrPt) vrPt {
	if p.inf {
		return q
	}
	if q.inf {
		return p
	}
	var lam *big.Int
	if p.x.Cmp(q.x) == 0 {
		if p.y.Cmp(q.y) != 0 || p.y.Sign() == 0 {
			return vrO // q = -p
		}
		// tangent: (3x^2 + a) / (2y)
		num := new(big.Int).Mul(p.x, p.x)
		num.Mul(num, big.NewInt(3))
		num.Add(num, vrA)
		den := new(big.Int).Lsh(p.y, 1)
		den.ModInverse(vrModP(den), vrP)
		lam = vrModP(num.Mul(num, den))
	} else {
		num := new(big.Int).Sub(q.y, p.y)
		den := new(big.Int).Sub(q.x, p.x)
		den.ModInverse(vrModP(den), vrP)
		lam = vrModP(num.Mul(num, den))
	}
	x3 := new(big.Int).Mul(lam, lam)
	x3.Sub(x3, p.x)
	x3.Sub(x3, q.x)
	vrModP(x3)
	y3 := new(big.Int).Sub(p.x, x3)
	y3.Mul(y3, lam)
	y3.Sub(y3, p.y)
	vrModP(y3)
	return vrPt{x: x3, y: y3}
}

// vrMulPt returns [k]P by left-to-right double-and-add (k >= 0, any size).
func vrMulPt(k *big.Int, p vrPt) vrPt {
	r := vrO
	for i := k.BitLen() - 1; i >= 0; i-- {
		r = vrAddPt(r, r)
		if k.Bit(i) == 1 {
			r = vrAddPt(r, p)
		}
	}
	return r
}

// vrEnc is the SEC1 uncompressed encoding (one zero byte for infinity).
func vrEnc(p vrPt) []byte {
	if p.inf {
		return []byte{0}
	}
	out := make([]byte, 65)
	out[0] = 4
	p.x.FillBytes(out[1:33])
	p.y.FillBytes(out[33:65])
	return out
}

func vrPS(p vrPt) string {
	if p.inf {
		return "O"
	}
	return fmt.Sprintf("(%x,%x)", p.x, p.y)
}

// ---------------------------------------------------------------- reference SM2 signature (GM/T 0003.2)

func vrB32(v *big.Int) []byte { return v.FillBytes(make([]byte, 32)) }

func vrInt(b []byte) *big.Int { return new(big.Int).SetBytes(b) }

// vrRefSign is the signing algorithm of GM/T 0003.2 section 6.1 with the nonces
// taken from chunks (32 bytes each) in order: a candidate k is skipped when it
// is not in [1, n-1], and steps A5/A6 send the algorithm back to A3 when r = 0,
// r + k = n or s = 0. used = number of chunks consumed.
func vrRefSign(d, e *big.Int, chunks [][]byte) (r, s *big.Int, used int, ok bool) {
	d1inv := new(big.Int).ModInverse(new(big.Int).Add(d, big.NewInt(1)), vrN)
	for i, kb := range chunks {
		k := vrInt(kb)
		if k.Sign() == 0 || k.Cmp(vrN) >= 0 {
			continue
		}
		x1 := vrMulPt(k, vrG).x
		r = new(big.Int).Add(e, x1)
		r.Mod(r, vrN)
		if r.Sign() == 0 || new(big.Int).Add(r, k).Cmp(vrN) == 0 {
			continue
		}
		s = new(big.Int).Mul(r, d)
		s.Sub(k, s)
		s.Mul(s, d1inv)
		s.Mod(s, vrN)
		if s.Sign() == 0 {
			continue
		}
		return r, s, i + 1, true
	}
	return nil, nil, len(chunks), false
}

// vrRefVerify is the verification algorithm of GM/T 0003.2 section 7.1 on byte
// strings: all five inputs must be 32 bytes, the public key a point of the curve
// with coordinates below p, r and s in [1, n-1], t = r+s != 0 mod n, the point
// [s]G + [t]P must not be the point at infinity, and (e + x1) mod n == r.
func vrRefVerify(px, py, e, r, s []byte) bool {
	if len(px) != 32 || len(py) != 32 || len(e) != 32 || len(r) != 32 || len(s) != 32 {
		return false
	}
	x, y := vrInt(px), vrInt(py)
	if !vrOnCurve(x, y) {
		return false
	}
	ri, si := vrInt(r), vrInt(s)
	if ri.Sign() == 0 || si.Sign() == 0 || ri.Cmp(vrN) >= 0 || si.Cmp(vrN) >= 0 {
		return false
	}
	t := new(big.Int).Add(ri, si)
	t.Mod(t, vrN)
	if t.Sign() == 0 {
		return false
	}
	pt := vrAddPt(vrMulPt(si, vrG), vrMulPt(t, vrPt{x: x, y: y}))
	if pt.inf {
		return false
	}
	rr := new(big.Int).Add(vrInt(e), pt.x)
	rr.Mod(rr, vrN)
	return rr.Cmp(ri) == 0
}

// vrRefZA = SM3(ENTL || ID || a || b || Gx || Gy || xA || yA), ENTL = bit length of ID in 2 bytes.
func vrRefZAGeneric(id []byte, a, b, gx, gy, px, py []byte) []byte {
	entl := len(id) * 8
	m := []byte{byte(entl >> 8), byte(entl)}
	for _, part := range [][]byte{id, a, b, gx, gy, px, py} {
		m = append(m, part...)
	}
	d := vrSM3(m)
	return d[:]
}

func vrRefZA(id, px, py []byte) []byte {
	return vrRefZAGeneric(id, vrB32(vrA), vrB32(vrB), vrB32(vrGx), vrB32(vrGy), px, py)
}

// vrRefE = SM3(ZA || M)
func vrRefE(za, msg []byte) []byte {
	d := vrSM3(append(append([]byte{}, za...), msg...))
	return d[:]
}

func vrSelfTest(t *testing.T) {
	d := vrSM3([]byte("abc"))
	if vrHex(d[:]) != "66c7f0f462eeedd9d1f2d46bdc10e4e24167c4875cf2f7a2297da02b8f4ba8e0" {
		t.Fatalf("reference SM3 wrong on abc: %x", d)
	}
	d = vrSM3(bytes.Repeat([]byte("abcd"), 16))
	if vrHex(d[:]) != "debe9ff92275b8a138604889c18e5a4d6fdb70e5387e5765293dcba39c0c5732" {
		t.Fatalf("reference SM3 wrong on (abcd)^16: %x", d)
	}
	if !vrP.ProbablyPrime(20) || !vrN.ProbablyPrime(20) || !vrOnCurve(vrGx, vrGy) || !vrMulPt(vrN, vrG).inf {
		t.Fatal("reference curve wrong: need p, n prime, G on the curve, [n]G = O")
	}
	// GM/T 0003.2 annex A.2 (test curve): ZA of ALICE123@YAHOO.COM
	uh := func(s string) []byte { return vrB32(vrMustHex(s)) }
	za := vrRefZAGeneric([]byte("ALICE123@YAHOO.COM"),
		uh("787968B4FA32C3FD2417842E73BBFEFF2F3C848B6831D7E0EC65228B3937E498"),
		uh("63E4C6D3B23B0C849CF84241484BFE48F61D59A5B16BA06E6E12D1DA27C5249A"),
		uh("421DEBD61B62EAB6746434EBC3CC315E32220B3BADD50BDC4C4E6C147FEDD43D"),
		uh("0680512BCBB42C07D47349D2153B70C4E5D7FDFCBFA36EA1A85841B9E46E09A2"),
		uh("0AE4C7798AA0F119471BEE11825BE46202BB79E2A5844495E97C04FF4DF2548A"),
		uh("7C0240F88F1CD4E16352A73C17B7F16F07353E53A176D684A9FE0C6BB798E857"))
	if vrHex(za) != "f4a38489e32b45b6f876e3ac2168ca392362dc8f23459c1d1146fc3dbfb7bc9a" {
		t.Fatalf("reference ZA wrong on GM/T 0003.2 A.2: %x", za)
	}
	// GM/T 0003.5 annex A.2 (recommended curve): key pair, ZA, e, signature
	dA := vrMustHex("3945208F7B2144B13F36E38AC6D39F95889393692860B51A42FB81EF4DF7C5B8")
	pA := vrMulPt(dA, vrG)
	if vrHex(vrB32(pA.x)) != "09f9df311e5421a150dd7d161e4bc5c672179fad1833fc076bb08ff356f35020" ||
		vrHex(vrB32(pA.y)) != "ccea490ce26775a52dc6ea718cc1aa600aed05fbf35e084a6632f6072da9ad13" {
		t.Fatalf("reference [d]G wrong on GM/T 0003.5 A.2: %s", vrPS(pA))
	}
	za = vrRefZA([]byte("1234567812345678"), vrB32(pA.x), vrB32(pA.y))
	if vrHex(za) != "b2e14c5c79c6df5b85f4fe7ed8db7a262b9da7e07ccb0ea9f4747b8ccda8a4f3" {
		t.Fatalf("reference ZA wrong on GM/T 0003.5 A.2: %x", za)
	}
	e := vrRefE(za, []byte("message digest"))
	if vrHex(e) != "f0b43e94ba45accaace692ed534382eb17e6ab5a19ce7b31f4486fdfc0d28640" {
		t.Fatalf("reference e wrong on GM/T 0003.5 A.2: %x", e)
	}
	k := uh("59276E27D506861A16680F3AD9C02DCCEF3CC1FA3CDBE4CE6D54B80DEAC1BC21")
	r, s, _, ok := vrRefSign(dA, vrInt(e), [][]byte{k})
	if !ok || vrHex(vrB32(r)) != "f5a03b0648d2c4630eeac513e1bb81a15944da3827d5b74143ac7eaceee720b3" ||
		vrHex(vrB32(s)) != "b1b6aa29df212fd8763182bc0d421ca1bb9038fd1f7f42d4840b69c485bbc1aa" {
		t.Fatalf("reference signature wrong on GM/T 0003.5 A.2: %x %x", r, s)
	}
	if !vrRefVerify(vrB32(pA.x), vrB32(pA.y), e, vrB32(r), vrB32(s)) {
		t.Fatal("reference verification rejects the GM/T 0003.5 A.2 signature")
	}
}

// ---------------------------------------------------------------- scripted reader

// vrReader returns the given bytes; Read call number failAt (0-based) fails;
// maxRead > 0 limits the bytes returned per call (short reads).
type vrReader struct {
	data    []byte
	pos     int
	calls   int
	failAt  int
	maxRead int
	// failPartial > 0: the failing call hands out that many bytes together with its error (which the io.Reader
	// contract allows), and the reader works again afterwards - a source that recovers after a fault
	failPartial int
	// zeroEvery > 0: every zeroEvery-th call returns (0, nil) without consuming anything - allowed by io.Reader
	// (discouraged, not forbidden); callers must simply read again
	zeroEvery int
	// eofWithData: the call that hands out the last bytes of the stream returns them together with io.EOF
	// (allowed by io.Reader) instead of returning io.EOF on the following call
	eofWithData bool
}

func vrNewReader(chunks ...[]byte) *vrReader {
	r := &vrReader{failAt: -1}
	for _, c := range chunks {
		r.data = append(r.data, c...)
	}
	return r
}

func (r *vrReader) Read(p []byte) (int, error) {
	if r.failAt >= 0 && r.calls == r.failAt {
		r.calls++
		k := 0
		if r.failPartial > 0 {
			m := r.failPartial
			if m > len(p)-1 {
				m = len(p) - 1 // never completes the buffer: a call that fills it is a successful draw for io.ReadFull
			}
			if m < 0 {
				m = 0
			}
			k = copy(p[:m], r.data[r.pos:])
			r.pos += k
		}
		return k, errors.New("scripted reader failure")
	}
	r.calls++
	if r.zeroEvery > 0 && r.calls%r.zeroEvery == 0 {
		return 0, nil
	}
	if r.pos >= len(r.data) {
		return 0, io.EOF
	}
	m := len(p)
	if r.maxRead > 0 && m > r.maxRead {
		m = r.maxRead
	}
	k := copy(p[:m], r.data[r.pos:])
	r.pos += k
	if r.eofWithData && r.pos >= len(r.data) {
		return k, io.EOF
	}
	return k, nil
}

func vrChunksHex(chunks [][]byte) string {
	var s []string
	for _, c := range chunks {
		s = append(s, vrHex(c))
	}
	return strings.Join(s, ",")
}

// ---------------------------------------------------------------- input generators

func vrRandBig(r *rand.Rand, m *big.Int) *big.Int {
	b := make([]byte, 40)
	r.Read(b)
	v := new(big.Int).SetBytes(b)
	return v.Mod(v, m)
}

var vrTwo = big.NewInt(2)

// vrRandKey returns d in [1, n-2]: boundaries and leading-zero values mixed in.
func vrRandKey(r *rand.Rand) *big.Int {
	nm2 := new(big.Int).Sub(vrN, vrTwo)
	switch r.Intn(12) {
	case 0:
		return big.NewInt(1)
	case 1:
		return big.NewInt(2)
	case 2:
		return nm2
	case 3:
		return new(big.Int).Sub(vrN, big.NewInt(3))
	case 4: // leading zero bytes
		v := vrRandBig(r, new(big.Int).Lsh(big.NewInt(1), uint(8*(1+r.Intn(30)))))
		if v.Sign() == 0 {
			v.SetInt64(1)
		}
		return v
	}
	v := vrRandBig(r, nm2) // [0, n-3]
	return v.Add(v, big.NewInt(1))
}

// vrRandNonce returns k in [1, n-1].
func vrRandNonce(r *rand.Rand) *big.Int {
	switch r.Intn(12) {
	case 0:
		return big.NewInt(1)
	case 1:
		return new(big.Int).Sub(vrN, big.NewInt(1))
	case 2:
		v := vrRandBig(r, new(big.Int).Lsh(big.NewInt(1), uint(8*(1+r.Intn(30)))))
		if v.Sign() == 0 {
			v.SetInt64(1)
		}
		return v
	}
	v := vrRandBig(r, new(big.Int).Sub(vrN, big.NewInt(1)))
	return v.Add(v, big.NewInt(1))
}

func vrRandE(r *rand.Rand) []byte {
	switch r.Intn(12) {
	case 0:
		return make([]byte, 32)
	case 1:
		return bytes.Repeat([]byte{0xff}, 32)
	case 2:
		return vrB32(vrN)
	case 3:
		return vrB32(new(big.Int).Sub(vrN, big.NewInt(1)))
	case 4:
		b := vrBytes(r, 32)
		for i := 0; i < 1+r.Intn(20); i++ {
			b[i] = 0
		}
		return b
	}
	return vrBytes(r, 32)
}

// vrBadNonces are candidates that must be skipped: k >= n. (k = 0 has its own case.)
func vrBadNonces(r *rand.Rand) [][]byte {
	all := [][]byte{
		vrB32(vrN),
		vrB32(new(big.Int).Add(vrN, big.NewInt(1))),
		bytes.Repeat([]byte{0xff}, 32),
		vrB32(vrP),
	}
	var out [][]byte
	for i := r.Intn(4); i > 0; i-- {
		out = append(out, all[r.Intn(len(all))])
	}
	return out
}

type vrKeyPair struct {
	d      *big.Int
	pt     vrPt
	db     []byte
	px, py []byte
}

func vrMkKey(d *big.Int) vrKeyPair {
	pt := vrMulPt(d, vrG)
	return vrKeyPair{d: d, pt: pt, db: vrB32(d), px: vrB32(pt.x), py: vrB32(pt.y)}
}

func vrKeyPool(c *vrCase, size int) []vrKeyPair {
	var ks []vrKeyPair
	for _, d := range []*big.Int{big.NewInt(1), big.NewInt(2), new(big.Int).Sub(vrN, vrTwo), new(big.Int).Sub(vrN, big.NewInt(3)),
		vrMustHex("3945208F7B2144B13F36E38AC6D39F95889393692860B51A42FB81EF4DF7C5B8")} {
		ks = append(ks, vrMkKey(d))
	}
	for len(ks) < size {
		ks = append(ks, vrMkKey(vrRandKey(c.rng)))
	}
	// public keys whose x (resp. y) coordinate starts with a zero byte: every place that serialises coordinates must
	// keep the full 32 bytes (about one key in 128 has such a coordinate)
	ks = append(ks, vrLeadingZeroKeys()...)
	return ks
}

var vrLZKeys []vrKeyPair

// vrLeadingZeroKeys: the smallest d >= 2 with px[0] == 0 and the smallest with py[0] == 0 (found once by search).
func vrLeadingZeroKeys() []vrKeyPair {
	if vrLZKeys != nil {
		return vrLZKeys
	}
	var kx, ky *vrKeyPair
	pt := vrMulPt(big.NewInt(2), vrG)
	for d := int64(2); d < 20000 && (kx == nil || ky == nil); d++ {
		if kx == nil && vrB32(pt.x)[0] == 0 {
			k := vrMkKey(big.NewInt(d))
			kx = &k
		}
		if ky == nil && vrB32(pt.y)[0] == 0 {
			k := vrMkKey(big.NewInt(d))
			ky = &k
		}
		pt = vrAddPt(pt, vrG)
	}
	if kx != nil {
		vrLZKeys = append(vrLZKeys, *kx)
	}
	if ky != nil {
		vrLZKeys = append(vrLZKeys, *ky)
	}
	return vrLZKeys
}

var vrT248 = new(big.Int).Lsh(big.NewInt(1), 248)

// vrSmallT tells whether t = (r+s) mod n is non-zero and has a leading zero byte
// as a 32-byte string (the inputs of case VerifyHashed.small-t).
func vrSmallT(r, s []byte) bool {
	t := new(big.Int).Add(vrInt(r), vrInt(s))
	t.Mod(t, vrN)
	return t.Sign() > 0 && t.Cmp(vrT248) < 0
}

// ---------------------------------------------------------------- cases: signing

func vrSignDesc(d, e []byte, chunks [][]byte) string {
	return fmt.Sprintf(`{"priv":"%s","e":"%s","rand":"%s"}`, vrHex(d), vrHex(e), vrChunksHex(chunks))
}

// vrSignZeroEvery > 0: the scripted reader of vrCheckSignPriv returns (0, nil) on every vrSignZeroEvery-th call.
var vrSignZeroEvery int

// vrCheckSign runs SignHashed on the scripted stream and compares with the reference.
func vrCheckSign(c *vrCase, d *big.Int, e []byte, chunks [][]byte, maxRead int, tag string) {
	vrCheckSignPriv(c, d, vrB32(d), e, chunks, maxRead, tag)
}

// vrCheckSignPriv: as vrCheckSign, with the private key handed over in the given encoding (possibly shorter than 32 bytes).
func vrCheckSignPriv(c *vrCase, d *big.Int, db []byte, e []byte, chunks [][]byte, maxRead int, tag string) {
	wr, ws, used, ok := vrRefSign(d, vrInt(e), chunks)
	if !ok {
		panic(fmt.Sprintf("vrCheckSign: the scripted stream has no usable nonce: d=%x e=%x rand=%s tag=%s", d, e, vrChunksHex(chunks), tag))
	}
	want := fmt.Sprintf("r=%s,s=%s,chunks_used=%d", vrHex(vrB32(wr)), vrHex(vrB32(ws)), used)
	d0, e0 := append([]byte{}, db...), append([]byte{}, e...)
	rd := vrNewReader(chunks...)
	rd.maxRead = maxRead
	rd.zeroEvery = vrSignZeroEvery
	in := vrSignDesc(db, e, chunks)
	if vrSignZeroEvery > 0 {
		in = in[:len(in)-1] + fmt.Sprintf(`,"maxRead":%d,"zeroLengthReadEvery":%d}`, maxRead, vrSignZeroEvery)
	}
	if tag != "" {
		in = in[:len(in)-1] + fmt.Sprintf(`,"kind":"%s"}`, tag)
	}
	var r, s []byte
	var err error
	if p := vrTry(func() { r, s, err = SignHashed(rd, db, e) }); p != "" {
		c.check(false, in, p, want)
		return
	}
	if err != nil {
		c.check(false, in, fmt.Sprintf("err=%v", err), want)
		return
	}
	if !bytes.Equal(db, d0) || !bytes.Equal(e, e0) {
		c.check(false, in, "priv or e modified", "inputs unchanged")
		return
	}
	got := fmt.Sprintf("r=%s,s=%s,chunks_used=%d", vrHex(r), vrHex(s), rd.pos/32)
	c.check(got == want && rd.pos%32 == 0, in, got, want)
}

func vrCaseSignHashed(c *vrCase) {
	for i := 0; i < c.n; i++ {
		d := vrRandKey(c.rng)
		e := vrRandE(c.rng)
		chunks := append(vrBadNonces(c.rng), vrB32(vrRandNonce(c.rng)))
		maxRead := 0
		if i%5 == 4 {
			maxRead = 1 + c.rng.Intn(40) // short reads
		}
		vrCheckSign(c, d, e, chunks, maxRead, "")
	}
	// the three "go back to A3" conditions, made to happen on the first nonce by
	// choosing e (which is a free input of SignHashed)
	for i := 0; i < c.n/10+3; i++ {
		d := vrRandKey(c.rng)
		k1 := vrRandNonce(c.rng)
		k2 := vrB32(vrRandNonce(c.rng))
		for bytes.Equal(k2, vrB32(k1)) || bytes.Equal(k2, vrB32(new(big.Int).Sub(vrN, k1))) { // same x1
			k2 = vrB32(vrRandNonce(c.rng))
		}
		x1 := vrMulPt(k1, vrG).x
		// r = 0:  e = -x1 mod n
		e := new(big.Int).Neg(x1)
		e.Mod(e, vrN)
		vrCheckSign(c, d, vrB32(e), [][]byte{vrB32(k1), k2}, 0, "r=0 on first nonce")
		// r + k = n:  e = n - k1 - x1
		e = new(big.Int).Sub(vrN, k1)
		e.Sub(e, x1)
		e.Mod(e, vrN)
		vrCheckSign(c, d, vrB32(e), [][]byte{vrB32(k1), k2}, 0, "r+k=n on first nonce")
		// s = 0:  k = r*d  =>  r = k/d,  e = r - x1
		r := new(big.Int).Mul(k1, new(big.Int).ModInverse(d, vrN))
		r.Mod(r, vrN)
		e = new(big.Int).Sub(r, x1)
		e.Mod(e, vrN)
		vrCheckSign(c, d, vrB32(e), [][]byte{vrB32(k1), k2}, 0, "s=0 on first nonce")
	}
	// readers that now and then return (0, nil): draws are completed by further reads
	for _, ze := range []int{2, 3} {
		vrSignZeroEvery = ze
		for _, mr := range []int{0, 5, 31} {
			d := vrRandKey(c.rng)
			vrCheckSign(c, d, vrRandE(c.rng), [][]byte{vrB32(vrN), vrB32(vrRandNonce(c.rng)), vrBytes(c.rng, 32)}, mr, "zero-length reads")
		}
	}
	vrSignZeroEvery = 0
	// reader failures: error, nil r and s
	for i := 0; i < 6; i++ {
		d := vrB32(vrRandKey(c.rng))
		e := vrRandE(c.rng)
		chunks := [][]byte{vrB32(vrN), vrB32(vrRandNonce(c.rng))}
		rd := vrNewReader(chunks...)
		rd.failAt = i % 2 // at the first read / after one rejected candidate
		if i >= 4 {
			rd = vrNewReader(vrB32(vrN), make([]byte, 7)) // stream ends in the middle of a candidate
		}
		var r, s []byte
		var err error
		in := fmt.Sprintf(`{"priv":"%s","e":"%s","rand":"%s","failAtRead":%d}`, vrHex(d), vrHex(e), vrHex(rd.data), rd.failAt)
		if p := vrTry(func() { r, s, err = SignHashed(rd, d, e) }); p != "" {
			c.check(false, in, p, "err!=nil,r=nil,s=nil")
			continue
		}
		c.check(err != nil && r == nil && s == nil, in, fmt.Sprintf("err=%v,r=%s,s=%s", err, vrHex(r), vrHex(s)), "err!=nil,r=nil,s=nil")
	}
	// streams that end exactly on a 32-byte boundary: empty, or only rejected candidates (io.EOF at the start of a draw)
	for i, data := range [][]byte{{}, vrB32(vrN), append(vrB32(vrN), make([]byte, 32)...), append(append(vrB32(vrN), bytes.Repeat([]byte{0xff}, 32)...), make([]byte, 32)...)} {
		d := vrB32(vrRandKey(c.rng))
		e := vrRandE(c.rng)
		rd := vrNewReader(data)
		if i == 3 {
			rd.maxRead = 16
		}
		var r, s []byte
		var err error
		in := fmt.Sprintf(`{"priv":"%s","e":"%s","rand":"%s","kind":"stream ends on a candidate boundary","maxRead":%d}`, vrHex(d), vrHex(e), vrHex(data), rd.maxRead)
		if p := vrTry(func() { r, s, err = SignHashed(rd, d, e) }); p != "" {
			c.check(false, in, p, "err!=nil,r=nil,s=nil")
			continue
		}
		c.check(err != nil && r == nil && s == nil, in, fmt.Sprintf("err=%v,r=%s,s=%s", err, vrHex(r), vrHex(s)), "err!=nil,r=nil,s=nil")
	}
	// the stream ends in the middle of a candidate and the last bytes arrive together with io.EOF (first draw, after a
	// rejected candidate, with short reads): an error, never a signature from a zero-padded nonce
	for i, data := range [][]byte{vrBytes(c.rng, 7), vrBytes(c.rng, 31), append(vrB32(vrN), vrBytes(c.rng, 16)...), append(vrB32(vrN), vrBytes(c.rng, 31)...), vrBytes(c.rng, 20)} {
		d := vrB32(vrRandKey(c.rng))
		e := vrRandE(c.rng)
		rd := vrNewReader(data)
		rd.eofWithData = true
		if i == 4 {
			rd.maxRead = 8
		}
		var r, s []byte
		var err error
		in := fmt.Sprintf(`{"priv":"%s","e":"%s","rand":"%s","kind":"last bytes together with io.EOF, mid-candidate","maxRead":%d}`, vrHex(d), vrHex(e), vrHex(data), rd.maxRead)
		if p := vrTry(func() { r, s, err = SignHashed(rd, d, e) }); p != "" {
			c.check(false, in, p, "err!=nil,r=nil,s=nil")
			continue
		}
		c.check(err != nil && r == nil && s == nil, in, fmt.Sprintf("err=%v,r=%s,s=%s", err, vrHex(r), vrHex(s)), "err!=nil,r=nil,s=nil")
	}
	// a failing call that also hands out part of a candidate, from a source that then recovers: still an error, never a
	// signature made from a candidate that straddles the fault (first draw, and after a rejected candidate; short reads too)
	for i := 0; i < 12; i++ {
		d := vrB32(vrRandKey(c.rng))
		e := vrRandE(c.rng)
		rd := vrNewReader(vrB32(vrN), vrB32(vrRandNonce(c.rng)), vrB32(vrRandNonce(c.rng)), vrB32(vrRandNonce(c.rng)))
		rd.failAt = i % 2 // the second candidate is accepted: later calls are never made
		rd.failPartial = []int{1, 16, 31, 7}[i%4]
		if i >= 6 {
			rd.maxRead = 8
			rd.failAt = []int{0, 2, 4, 5, 7, 3}[i-6]
		}
		var r, s []byte
		var err error
		in := fmt.Sprintf(`{"priv":"%s","e":"%s","rand":"%s","failAtRead":%d,"bytesWithError":%d,"maxRead":%d}`, vrHex(d), vrHex(e), vrHex(rd.data), rd.failAt, rd.failPartial, rd.maxRead)
		if p := vrTry(func() { r, s, err = SignHashed(rd, d, e) }); p != "" {
			c.check(false, in, p, "err!=nil,r=nil,s=nil")
			continue
		}
		c.check(err != nil && r == nil && s == nil, in, fmt.Sprintf("err=%v,r=%s,s=%s", err, vrHex(r), vrHex(s)), "err!=nil,r=nil,s=nil")
	}
}

// SignHashed.k-zero: the candidate k = 0 is not in [1, n-1] and must be skipped
// like k >= n. Expected to fail on the current code (k = 0 is used: r = e mod n,
// s = -r*d/(1+d), which reveals the private key).
// vrCaseSignSmallRS: signatures whose r or s has many leading zero bytes (the 32-byte left padding of the outputs).
// r = (e + x1) mod n is steered through e; s = (1+d)^-1 (k - r d) mod n is steered through d = (k - s)(s + r)^-1.
func vrCaseSignSmallRS(c *vrCase) {
	targets := []*big.Int{big.NewInt(1), big.NewInt(2), big.NewInt(255), big.NewInt(256), big.NewInt(65535), big.NewInt(65536),
		new(big.Int).Lsh(big.NewInt(1), 128), new(big.Int).Sub(new(big.Int).Lsh(big.NewInt(1), 240), big.NewInt(1)), new(big.Int).Lsh(big.NewInt(1), 247)}
	for i := 0; i < len(targets)*2; i++ {
		k := vrRandNonce(c.rng)
		x1 := vrMulPt(k, vrG).x
		rT := targets[i%len(targets)]
		// small r with a random key
		d := vrRandKey(c.rng)
		e := new(big.Int).Sub(rT, x1)
		e.Mod(e, vrN)
		if _, _, _, ok := vrRefSign(d, e, [][]byte{vrB32(k)}); ok {
			vrCheckSign(c, d, vrB32(e), [][]byte{vrB32(k)}, 0, "small-r")
		}
		// small s: choose r (random e), then d from the target s
		e2 := vrInt(vrRandE(c.rng))
		r2 := new(big.Int).Add(e2, x1)
		r2.Mod(r2, vrN)
		sT := targets[(i+3)%len(targets)]
		den := new(big.Int).Add(sT, r2)
		den.Mod(den, vrN)
		if den.Sign() == 0 {
			continue
		}
		d2 := new(big.Int).Sub(k, sT)
		d2.Mul(d2, new(big.Int).ModInverse(den, vrN))
		d2.Mod(d2, vrN)
		if d2.Sign() == 0 || d2.Cmp(new(big.Int).Sub(vrN, big.NewInt(2))) > 0 {
			continue
		}
		if _, ws, _, ok := vrRefSign(d2, e2, [][]byte{vrB32(k)}); ok && ws.Cmp(sT) == 0 {
			vrCheckSign(c, d2, vrB32(e2), [][]byte{vrB32(k)}, 0, "small-s")
		}
	}
}

// vrCaseSignShortKey: private keys handed over in fewer than 32 bytes (the value is what counts: big-endian, left-padded).
func vrCaseSignShortKey(c *vrCase) {
	for _, l := range []int{1, 2, 3, 8, 16, 17, 30, 31} {
		for rep := 0; rep < 3; rep++ {
			db := vrBytes(c.rng, l)
			if rep == 0 {
				db[0] |= 0x80
			}
			d := vrInt(db)
			if d.Sign() == 0 {
				db[l-1] = 1
				d = vrInt(db)
			}
			k := vrRandNonce(c.rng)
			vrCheckSignPriv(c, d, db, vrRandE(c.rng), [][]byte{vrB32(k)}, 0, fmt.Sprintf("short-key-%d", l))
		}
	}
}

func vrCaseSignKZero(c *vrCase) {
	for i := 0; i < c.n/10+5; i++ {
		d := vrRandKey(c.rng)
		e := vrRandE(c.rng)
		chunks := [][]byte{make([]byte, 32)}
		if i%3 == 1 {
			chunks = append([][]byte{vrB32(vrN)}, chunks...)
		}
		if i%3 == 2 {
			chunks = append(chunks, make([]byte, 32))
		}
		chunks = append(chunks, vrB32(vrRandNonce(c.rng)))
		vrCheckSign(c, d, e, chunks, 0, "")
	}
}

// SignHashed.invalid-key: private keys outside [1, n-2] are refused with an error.
func vrCaseSignInvalidKey(c *vrCase) {
	bad := [][]byte{
		make([]byte, 32),
		vrB32(new(big.Int).Sub(vrN, big.NewInt(1))),
		vrB32(vrN),
		vrB32(new(big.Int).Add(vrN, big.NewInt(1))),
		bytes.Repeat([]byte{0xff}, 32),
		append([]byte{0}, vrB32(big.NewInt(5))...), // 33 bytes
		bytes.Repeat([]byte{0x11}, 33),
		bytes.Repeat([]byte{0x11}, 64),
		{}, nil, {0}, make([]byte, 31), // encodings of zero
	}
	for _, d := range bad {
		e := vrRandE(c.rng)
		k := vrB32(vrRandNonce(c.rng))
		in := fmt.Sprintf(`{"priv":"%s","len(priv)":%d,"e":"%s","rand":"%s"}`, vrHex(d), len(d), vrHex(e), vrHex(k))
		var r, s []byte
		var err error
		if p := vrTry(func() { r, s, err = SignHashed(vrNewReader(k, k, k), d, e) }); p != "" {
			c.check(false, in, p, "err!=nil,r=nil,s=nil")
			continue
		}
		c.check(err != nil && r == nil && s == nil, in, fmt.Sprintf("err=%v,r=%s,s=%s", err, vrHex(r), vrHex(s)), "err!=nil,r=nil,s=nil")
	}
}

// ---------------------------------------------------------------- cases: verification

func vrVerifyDesc(px, py, e, r, s []byte, tag string) string {
	return fmt.Sprintf(`{"pubx":"%s","puby":"%s","e":"%s","r":"%s","s":"%s","kind":"%s"}`, vrHex(px), vrHex(py), vrHex(e), vrHex(r), vrHex(s), tag)
}

// vrCheckVerify compares VerifyHashed with the reference verdict.
func vrCheckVerify(c *vrCase, px, py, e, r, s []byte, tag string) {
	want := vrRefVerify(px, py, e, r, s)
	in := vrVerifyDesc(px, py, e, r, s, tag)
	saved := [][]byte{vrCloneB(px), vrCloneB(py), vrCloneB(e), vrCloneB(r), vrCloneB(s)}
	var got bool
	var err error
	if p := vrTry(func() { got, err = VerifyHashed(px, py, e, r, s) }); p != "" {
		c.check(false, in, p, want)
		return
	}
	for i, b := range [][]byte{px, py, e, r, s} {
		if !bytes.Equal(b, saved[i]) {
			c.check(false, in, fmt.Sprintf("input %d modified", i), "inputs unchanged")
			return
		}
	}
	if want && err != nil {
		c.check(false, in, fmt.Sprintf("%v,err=%v", got, err), "true,err=<nil>")
		return
	}
	c.check(got == want, in, fmt.Sprintf("%v,err=%v", got, err), want)
}

func vrCloneB(b []byte) []byte {
	if b == nil {
		return nil
	}
	return append([]byte{}, b...)
}

// vrValidSig produces a reference signature for key kp on e whose t = r+s mod n
// has no leading zero byte (so that case VerifyHashed stays clear of the inputs
// of case VerifyHashed.small-t).
func vrValidSig(c *vrCase, kp vrKeyPair, e []byte) (r, s []byte) {
	for {
		ri, si, _, ok := vrRefSign(kp.d, vrInt(e), [][]byte{vrB32(vrRandNonce(c.rng))})
		if !ok {
			continue
		}
		r, s = vrB32(ri), vrB32(si)
		if !vrSmallT(r, s) {
			return
		}
	}
}

func vrFlipBit(r *rand.Rand, b []byte) []byte {
	out := append([]byte{}, b...)
	bit := r.Intn(len(b) * 8)
	out[bit/8] ^= 1 << uint(bit%8)
	return out
}

// vrSmallXPoint finds an on-curve point with x < 2^32 (so that x+p fits 32 bytes).
func vrSmallXPoint() vrPt {
	e := new(big.Int).Add(vrP, big.NewInt(1))
	e.Rsh(e, 2) // p = 3 mod 4: sqrt(v) = v^((p+1)/4)
	for x := int64(0); ; x++ {
		bx := big.NewInt(x)
		rhs := vrRHS(bx)
		y := new(big.Int).Exp(rhs, e, vrP)
		if new(big.Int).Exp(y, big.NewInt(2), vrP).Cmp(rhs) == 0 {
			return vrPt{x: bx, y: y}
		}
	}
}

func vrCaseVerifyHashed(c *vrCase) {
	keys := vrKeyPool(c, 12)
	chk := func(px, py, e, r, s []byte, tag string) {
		if len(r) == 32 && len(s) == 32 && vrSmallT(r, s) {
			return // belongs to case VerifyHashed.small-t
		}
		vrCheckVerify(c, px, py, e, r, s, tag)
	}
	zero := make([]byte, 32)
	nb := vrB32(vrN)
	ff := bytes.Repeat([]byte{0xff}, 32)
	for i := 0; i < c.n; i++ {
		kp := keys[c.rng.Intn(len(keys))]
		e := vrRandE(c.rng)
		r, s := vrValidSig(c, kp, e)
		chk(kp.px, kp.py, e, r, s, "valid")
		if i%4 != 0 {
			// single-bit mutations of every input
			chk(kp.px, kp.py, e, vrFlipBit(c.rng, r), s, "bit flip in r")
			chk(kp.px, kp.py, e, r, vrFlipBit(c.rng, s), "bit flip in s")
			chk(kp.px, kp.py, vrFlipBit(c.rng, e), r, s, "bit flip in e")
			continue
		}
		chk(vrFlipBit(c.rng, kp.px), kp.py, e, r, s, "bit flip in pubx")
		chk(kp.px, vrFlipBit(c.rng, kp.py), e, r, s, "bit flip in puby")
		// another valid key
		o := keys[(c.rng.Intn(len(keys)-1)+1+i)%len(keys)]
		if o.d.Cmp(kp.d) != 0 {
			chk(o.px, o.py, e, r, s, "other public key")
		}
		negy := vrB32(new(big.Int).Sub(vrP, kp.pt.y))
		chk(kp.px, negy, e, r, s, "negated public key")
		chk(kp.px, kp.py, e, s, r, "r and s swapped")
		// range checks
		chk(kp.px, kp.py, e, zero, s, "r=0")
		chk(kp.px, kp.py, e, r, zero, "s=0")
		chk(kp.px, kp.py, e, nb, s, "r=n")
		chk(kp.px, kp.py, e, r, nb, "s=n")
		chk(kp.px, kp.py, e, ff, s, "r=2^256-1")
		chk(kp.px, kp.py, e, r, ff, "s=2^256-1")
		if rn := new(big.Int).Add(vrInt(r), vrN); rn.BitLen() <= 256 {
			chk(kp.px, kp.py, e, vrB32(rn), s, "r+n")
		}
		chk(kp.px, kp.py, e, vrB32(new(big.Int).Sub(vrN, vrInt(s))), s, "r+s=n")
		chk(kp.px, kp.py, e, r, vrB32(new(big.Int).Sub(vrN, vrInt(r))), "r+s=n")
		// out-of-range r or s that would "verify" if the range checks were missing
		// (e is a free input, so it can be chosen to fit):
		//   s = 0 or n: t = r, point = [r]P, e = r - x1
		//   r = 0 or n: t = s, point = [s]G + [s]P, e = -x1
		{
			pt := vrMulPt(vrInt(r), kp.pt)
			if !pt.inf {
				e2 := new(big.Int).Sub(vrInt(r), pt.x)
				e2.Mod(e2, vrN)
				chk(kp.px, kp.py, vrB32(e2), r, zero, "s=0, e fitted")
				chk(kp.px, kp.py, vrB32(e2), r, nb, "s=n, e fitted")
			}
			pt = vrAddPt(vrMulPt(vrInt(s), vrG), vrMulPt(vrInt(s), kp.pt))
			if !pt.inf {
				e2 := new(big.Int).Neg(pt.x)
				e2.Mod(e2, vrN)
				chk(kp.px, kp.py, vrB32(e2), zero, s, "r=0, e fitted")
				chk(kp.px, kp.py, vrB32(e2), nb, s, "r=n, e fitted")
			}
		}
		// e and e+n give the same verdict when both fit 32 bytes
		if en := new(big.Int).Add(vrInt(e), vrN); en.BitLen() <= 256 {
			chk(kp.px, kp.py, vrB32(en), r, s, "e+n")
		}
		// public key not on the curve / not canonical
		chk(kp.py, kp.px, e, r, s, "pub coordinates swapped")
		chk(zero, zero, e, r, s, "pub=(0,0)")
		chk(kp.px, zero, e, r, s, "puby=0")
		chk(vrB32(vrP), kp.py, e, r, s, "pubx=p")
		chk(kp.px, vrB32(vrP), e, r, s, "puby=p")
		chk(ff, ff, e, r, s, "pub=ff..")
		// wrong lengths of each parameter
		for which := 0; which < 5; which++ {
			for _, l := range []int{0, 31, 33} {
				args := [][]byte{kp.px, kp.py, e, r, s}
				a := args[which]
				switch l {
				case 0:
					a = []byte{}
				case 31:
					a = a[1:]
				case 33:
					a = append([]byte{0}, a...)
				}
				args[which] = a
				chk(args[0], args[1], args[2], args[3], args[4], fmt.Sprintf("len(arg%d)=%d", which, l))
			}
		}
		chk(nil, nil, nil, nil, nil, "all nil")
	}
	// a key with x+p still 32 bytes: the non-canonical encoding must be refused
	sp := vrSmallXPoint()
	xp := vrB32(new(big.Int).Add(sp.x, vrP))
	spk := vrKeyPair{d: nil, pt: sp, px: vrB32(sp.x), py: vrB32(sp.y)}
	// sp has no known private key: make a triple that verifies by choosing e
	for i := 0; i < 4; i++ {
		s := vrRandNonce(c.rng)
		t := vrRandNonce(c.rng)
		pt := vrAddPt(vrMulPt(s, vrG), vrMulPt(t, sp))
		r := new(big.Int).Sub(t, s)
		r.Mod(r, vrN)
		if pt.inf || r.Sign() == 0 {
			continue
		}
		e := new(big.Int).Sub(r, pt.x)
		e.Mod(e, vrN)
		chk(spk.px, spk.py, vrB32(e), vrB32(r), vrB32(s), "valid (e chosen), small-x key")
		chk(xp, spk.py, vrB32(e), vrB32(r), vrB32(s), "pubx+p non-canonical")
	}
}

// VerifyHashed.small-t: t = (r+s) mod n with leading zero bytes. (a) arbitrary
// such pairs: no panic, verdict of the reference (false); (b) triples (e,r,s)
// constructed to be valid (e is a free input: e = r - x1 mod n): must verify.
// Expected to fail on the current code (panic: index out of range).
func vrCaseVerifySmallT(c *vrCase) {
	keys := vrKeyPool(c, 8)
	for i := 0; i < c.n/2+8; i++ {
		kp := keys[c.rng.Intn(len(keys))]
		var t *big.Int
		switch i % 4 {
		case 0:
			t = big.NewInt(int64(1 + c.rng.Intn(300)))
		case 1:
			t = vrRandBig(c.rng, new(big.Int).Lsh(big.NewInt(1), uint(8*(1+c.rng.Intn(31)))))
		case 2:
			t = new(big.Int).Sub(vrT248, big.NewInt(int64(1+c.rng.Intn(3)))) // just below 2^248
		default:
			t = new(big.Int).Lsh(big.NewInt(1), uint(c.rng.Intn(248)))
		}
		if t.Sign() == 0 {
			t.SetInt64(2)
		}
		s := vrRandNonce(c.rng)
		r := new(big.Int).Sub(t, s)
		r.Mod(r, vrN)
		if r.Sign() == 0 {
			continue
		}
		e := vrRandE(c.rng)
		vrCheckVerify(c, kp.px, kp.py, e, vrB32(r), vrB32(s), fmt.Sprintf("t=%x, arbitrary e", t))
		pt := vrAddPt(vrMulPt(s, vrG), vrMulPt(t, kp.pt))
		if pt.inf {
			continue
		}
		ev := new(big.Int).Sub(r, pt.x)
		ev.Mod(ev, vrN)
		vrCheckVerify(c, kp.px, kp.py, vrB32(ev), vrB32(r), vrB32(s), fmt.Sprintf("t=%x, e chosen so that the signature is valid", t))
	}
	// the smallest witness: r = s = 1
	kp := keys[0]
	vrCheckVerify(c, kp.px, kp.py, vrRandE(c.rng), vrB32(big.NewInt(1)), vrB32(big.NewInt(1)), "r=s=1")
}

// VerifyHashed.infinity: [s]G + [t]P = O (s = -r*d/(1+d)) has no x coordinate;
// the verification must fail even if e = r mod n. Expected to fail on the current
// code (x is taken as 0).
func vrCaseVerifyInfinity(c *vrCase) {
	keys := vrKeyPool(c, 8)
	for i := 0; i < c.n/10+6; i++ {
		kp := keys[c.rng.Intn(len(keys))]
		var r, s *big.Int
		for {
			r = vrRandNonce(c.rng)
			d1inv := new(big.Int).ModInverse(new(big.Int).Add(kp.d, big.NewInt(1)), vrN)
			s = new(big.Int).Mul(r, kp.d)
			s.Neg(s)
			s.Mul(s, d1inv)
			s.Mod(s, vrN)
			if s.Sign() != 0 && !vrSmallT(vrB32(r), vrB32(s)) {
				break
			}
		}
		t := new(big.Int).Add(r, s)
		t.Mod(t, vrN)
		if !vrAddPt(vrMulPt(s, vrG), vrMulPt(t, kp.pt)).inf {
			panic("REFERENCE BUG: construction of [s]G+[t]P = O")
		}
		vrCheckVerify(c, kp.px, kp.py, vrB32(r), vrB32(r), vrB32(s), "[s]G+[t]P=O, e=r")
		vrCheckVerify(c, kp.px, kp.py, vrRandE(c.rng), vrB32(r), vrB32(s), "[s]G+[t]P=O, random e")
	}
}

// sign-then-verify: every signature produced by the package verifies under
// DerivePublic(d). No reference involved; at least 2000 SignHashed/VerifyHashed
// round trips so that (r+s) mod n with a leading zero byte (probability 1/256)
// occurs. Message and id lengths that run into the SM3 padding defect are avoided.
func vrCaseSignThenVerify(c *vrCase) {
	total := 10 * c.n
	if total < 2000 {
		total = 2000
	}
	var keys [][3][]byte
	for i := 0; i < 16; i++ {
		d := vrB32(vrRandKey(c.rng))
		var x, y []byte
		var err error
		if p := vrTry(func() { x, y, err = DerivePublic(d) }); p != "" || err != nil {
			c.check(false, fmt.Sprintf(`{"priv":"%s","op":"DerivePublic"}`, vrHex(d)), fmt.Sprint(p, err), "public key")
			continue
		}
		keys = append(keys, [3][]byte{d, x, y})
	}
	if len(keys) == 0 {
		return
	}
	for i := 0; i < total; i++ {
		k := keys[i%len(keys)]
		e := vrBytes(c.rng, 32)
		nonce := vrB32(vrRandNonce(c.rng))
		in := fmt.Sprintf(`{"op":"SignHashed+VerifyHashed","priv":"%s","pubx":"%s","puby":"%s","e":"%s","rand":"%s"`, vrHex(k[0]), vrHex(k[1]), vrHex(k[2]), vrHex(e), vrHex(nonce))
		var r, s []byte
		var err error
		if p := vrTry(func() { r, s, err = SignHashed(vrNewReader(nonce), k[0], e) }); p != "" || err != nil {
			c.check(false, in+"}", fmt.Sprintf("sign:%s,err=%v", p, err), "signature")
			continue
		}
		in += fmt.Sprintf(`,"r":"%s","s":"%s"}`, vrHex(r), vrHex(s))
		var ok bool
		if p := vrTry(func() { ok, err = VerifyHashed(k[1], k[2], e, r, s) }); p != "" {
			c.check(false, in, "verify:"+p, "true")
			continue
		}
		c.check(ok && err == nil && len(r) == 32 && len(s) == 32, in, fmt.Sprintf("%v,err=%v", ok, err), "true")
	}
	// streams whose first candidates are rejected (out of range; r = 0, r + k = n, s = 0 forced through the digest):
	// the signature made from the later candidate must verify for the digest that was passed in
	for i := 0; i < 24; i++ {
		k := keys[i%len(keys)]
		d := vrInt(k[0])
		k1, k2 := vrRandNonce(c.rng), vrRandNonce(c.rng)
		x1 := vrMulPt(k1, vrG).x
		var e *big.Int
		chunks := [][]byte{vrB32(k1), vrB32(k2)}
		switch i % 4 {
		case 0: // r = 0
			e = new(big.Int).Neg(x1)
		case 1: // r + k = n
			e = new(big.Int).Sub(vrN, k1)
			e.Sub(e, x1)
		case 2: // s = 0: k = r d
			r := new(big.Int).Mul(k1, new(big.Int).ModInverse(d, vrN))
			e = new(big.Int).Sub(r, x1)
		default: // out-of-range candidates first
			e = vrInt(vrBytes(c.rng, 32))
			chunks = [][]byte{vrB32(vrN), make([]byte, 32), bytes.Repeat([]byte{0xff}, 32), vrB32(k2)}
		}
		e.Mod(e, vrN)
		eb := vrB32(e)
		if _, _, _, ok := vrRefSign(d, e, chunks); !ok {
			continue // degenerate stream (e.g. k2 = -k1): the reference finds no acceptable candidate either
		}
		in := fmt.Sprintf(`{"op":"SignHashed+VerifyHashed after rejected candidates","priv":"%s","e":"%s","rand":"%s"`, vrHex(k[0]), vrHex(eb), vrChunksHex(chunks))
		var r, s []byte
		var err error
		if p := vrTry(func() { r, s, err = SignHashed(vrNewReader(chunks...), k[0], eb) }); p != "" || err != nil {
			c.check(false, in+"}", fmt.Sprintf("sign:%s,err=%v", p, err), "signature")
			continue
		}
		in += fmt.Sprintf(`,"r":"%s","s":"%s"}`, vrHex(r), vrHex(s))
		var ok bool
		if p := vrTry(func() { ok, err = VerifyHashed(k[1], k[2], eb, r, s) }); p != "" {
			c.check(false, in, "verify:"+p, "true")
			continue
		}
		c.check(ok && err == nil, in, fmt.Sprintf("%v,err=%v", ok, err), "true")
	}
	// the message-level entry points
	for i := 0; i < c.n/2+10; i++ {
		k := keys[i%len(keys)]
		idLen := c.rng.Intn(40)
		msgLen := c.rng.Intn(200)
		if (2+idLen+128+64)%64 == 55 {
			idLen++
		}
		if (32+msgLen)%64 == 55 {
			msgLen++
		}
		id, msg := vrBytes(c.rng, idLen), vrBytes(c.rng, msgLen)
		nonce := vrB32(vrRandNonce(c.rng))
		in := fmt.Sprintf(`{"op":"Sign+Verify","priv":"%s","id":"%s","msg":"%s","rand":"%s"}`, vrHex(k[0]), vrHex(id), vrHex(msg), vrHex(nonce))
		var r, s []byte
		var err error
		var ok bool
		if i%2 == 0 {
			if p := vrTry(func() { r, s, err = Sign(id, k[1], k[2], vrNewReader(nonce), k[0], msg) }); p != "" || err != nil {
				c.check(false, in, fmt.Sprintf("sign:%s,err=%v", p, err), "signature")
				continue
			}
			if vrSmallT(r, s) {
				continue // covered above
			}
			p := vrTry(func() { ok, err = Verify(id, k[1], k[2], msg, r, s) })
			c.check(p == "" && ok && err == nil, in, fmt.Sprintf("%s%v,err=%v", p, ok, err), "true")
		} else {
			za, _ := ZA(id, k[1], k[2])
			if p := vrTry(func() { r, s, err = SignZa(vrNewReader(nonce), k[0], za, msg) }); p != "" || err != nil {
				c.check(false, in, fmt.Sprintf("signza:%s,err=%v", p, err), "signature")
				continue
			}
			if vrSmallT(r, s) {
				continue
			}
			p := vrTry(func() { ok, err = VerifyZa(k[1], k[2], za, msg, r, s) })
			c.check(p == "" && ok && err == nil, in, fmt.Sprintf("%s%v,err=%v", p, ok, err), "true")
		}
	}
}

// ---------------------------------------------------------------- cases: keys

func vrCaseTestPrivateKey(c *vrCase) {
	nm2 := new(big.Int).Sub(vrN, vrTwo)
	one := func(b []byte) {
		v := vrInt(b)
		accept := len(b) == 32 && v.Sign() > 0 && v.Cmp(nm2) <= 0
		b0 := vrCloneB(b)
		in := fmt.Sprintf(`{"priv":"%s","len":%d}`, vrHex(b), len(b))
		var got int
		if p := vrTry(func() { got = TestPrivateKey(b) }); p != "" {
			c.check(false, in, p, fmt.Sprintf("accept=%v", accept))
			return
		}
		if !bytes.Equal(b, b0) {
			c.check(false, in, "input modified", "input unchanged")
			return
		}
		c.check((got == 0) == accept, in, fmt.Sprintf("%d(accept=%v)", got, got == 0), fmt.Sprintf("accept=%v", accept))
	}
	for d := int64(-4); d <= 3; d++ {
		one(vrB32(new(big.Int).Add(vrN, big.NewInt(d)))) // n-4 .. n+3
	}
	for _, v := range []int64{0, 1, 2, 3, 255, 256} {
		one(vrB32(big.NewInt(v)))
	}
	one(bytes.Repeat([]byte{0xff}, 32))
	one(vrB32(vrP))
	// equal prefix with n-1, then smaller / larger
	nm1 := vrB32(new(big.Int).Sub(vrN, big.NewInt(1)))
	for i := 0; i < 32; i++ {
		for _, dir := range []int{-1, 1} {
			v := append([]byte{}, nm1...)
			nv := int(v[i]) + dir
			if nv < 0 || nv > 255 {
				continue
			}
			v[i] = byte(nv)
			for j := i + 1; j < 32; j++ {
				v[j] = byte(c.rng.Intn(256))
			}
			one(v)
		}
	}
	// longer than 32 bytes: never acceptable
	for _, l := range []int{33, 34, 64} {
		one(append(make([]byte, l-32), vrB32(big.NewInt(5))...))
		one(vrBytes(c.rng, l))
	}
	for i := 0; i < c.n; i++ {
		b := vrBytes(c.rng, 32)
		if i%3 == 0 {
			copy(b, nm1[:c.rng.Intn(33)])
		}
		one(b)
	}
}

// TestPrivateKey.short: the documentation admits encodings of at most 32 bytes
// whose value is in [1, n-2]; encodings of zero (empty, nil, 00, 31 zero bytes)
// are out of range at any length. Expected to fail on the current code (every
// shorter string is accepted).
func vrCaseTestPrivateKeyShort(c *vrCase) {
	one := func(b []byte) {
		v := vrInt(b)
		accept := v.Sign() > 0 // shorter than 32 bytes: always below n-1
		in := fmt.Sprintf(`{"priv":"%s","len":%d}`, vrHex(b), len(b))
		var got int
		if p := vrTry(func() { got = TestPrivateKey(b) }); p != "" {
			c.check(false, in, p, fmt.Sprintf("accept=%v", accept))
			return
		}
		c.check((got == 0) == accept, in, fmt.Sprintf("%d(accept=%v)", got, got == 0), fmt.Sprintf("accept=%v", accept))
	}
	one(nil)
	one([]byte{})
	for l := 1; l < 32; l++ {
		one(make([]byte, l))
		b := vrBytes(c.rng, l)
		b[0] |= 1
		one(b)
	}
}

func vrCaseDerivePublic(c *vrCase) {
	one := func(d []byte) {
		d0 := vrCloneB(d)
		in := fmt.Sprintf(`{"priv":"%s","len":%d}`, vrHex(d), len(d))
		var x, y []byte
		var err error
		p := vrTry(func() { x, y, err = DerivePublic(d) })
		if len(d) != 32 {
			c.check(p == "" && err != nil, in, fmt.Sprintf("%serr=%v", p, err), "err!=nil")
			return
		}
		pt := vrMulPt(vrInt(d), vrG)
		want := "x=" + vrHex(vrB32(pt.x)) + ",y=" + vrHex(vrB32(pt.y))
		if p != "" || err != nil {
			c.check(false, in, fmt.Sprintf("%s,err=%v", p, err), want)
			return
		}
		if !bytes.Equal(d, d0) {
			c.check(false, in, "input modified", "input unchanged")
			return
		}
		c.check("x="+vrHex(x)+",y="+vrHex(y) == want, in, "x="+vrHex(x)+",y="+vrHex(y), want)
	}
	for _, v := range []int64{1, 2, 3, 15, 16, 17} {
		one(vrB32(big.NewInt(v)))
		one(vrB32(new(big.Int).Sub(vrN, big.NewInt(v))))
	}
	one(vrB32(vrMustHex("3945208F7B2144B13F36E38AC6D39F95889393692860B51A42FB81EF4DF7C5B8")))
	for i := 0; i < c.n; i++ {
		one(vrB32(vrRandKey(c.rng)))
	}
	// coordinates with leading zero bytes must still come back as 32 bytes
	found := 0
	for k := int64(1); k < 3000 && found < 4; k++ {
		pt := vrMulPt(big.NewInt(k*7919), vrG)
		if pt.x.BitLen() <= 248 || pt.y.BitLen() <= 248 {
			one(vrB32(big.NewInt(k * 7919)))
			found++
		}
	}
	for _, l := range []int{0, 1, 31, 33, 64} {
		one(vrBytes(c.rng, l))
	}
	one(nil)
}

// DerivePublic.zero: d = 0 mod n has no public key: an error, not a panic.
// Expected to fail on the current code (slice bounds out of range).
func vrCaseDerivePublicZero(c *vrCase) {
	for _, d := range [][]byte{make([]byte, 32), vrB32(vrN)} {
		in := fmt.Sprintf(`{"priv":"%s"}`, vrHex(d))
		var x, y []byte
		var err error
		p := vrTry(func() { x, y, err = DerivePublic(d) })
		c.check(p == "" && err != nil, in, fmt.Sprintf("%s,err=%v,x=%s,y=%s", p, err, vrHex(x), vrHex(y)), "err!=nil,no panic")
	}
}

func vrCaseGenerateKey(c *vrCase) {
	rejected := [][]byte{
		vrB32(new(big.Int).Sub(vrN, big.NewInt(1))),
		vrB32(vrN),
		vrB32(new(big.Int).Add(vrN, big.NewInt(1))),
		bytes.Repeat([]byte{0xff}, 32),
		vrB32(vrP),
	}
	zeroEvery := 0
	one := func(chunks [][]byte, maxRead int) {
		// reference: first candidate in [1, n-2]
		nm2 := new(big.Int).Sub(vrN, vrTwo)
		idx := -1
		for i, ch := range chunks {
			if v := vrInt(ch); v.Sign() > 0 && v.Cmp(nm2) <= 0 {
				idx = i
				break
			}
		}
		if idx < 0 {
			panic("vrCaseGenerateKey: no valid candidate")
		}
		pt := vrMulPt(vrInt(chunks[idx]), vrG)
		want := fmt.Sprintf("priv=%s,x=%s,y=%s,chunks_used=%d", vrHex(chunks[idx]), vrHex(vrB32(pt.x)), vrHex(vrB32(pt.y)), idx+1)
		rd := vrNewReader(chunks...)
		rd.maxRead = maxRead
		rd.zeroEvery = zeroEvery
		in := fmt.Sprintf(`{"rand":"%s","maxRead":%d,"zeroLengthReadEvery":%d}`, vrChunksHex(chunks), maxRead, zeroEvery)
		var priv, x, y []byte
		var err error
		if p := vrTry(func() { priv, x, y, err = GenerateKey(rd) }); p != "" || err != nil {
			c.check(false, in, fmt.Sprintf("%s,err=%v", p, err), want)
			return
		}
		got := fmt.Sprintf("priv=%s,x=%s,y=%s,chunks_used=%d", vrHex(priv), vrHex(x), vrHex(y), rd.pos/32)
		c.check(got == want && rd.pos%32 == 0, in, got, want)
	}
	for _, v := range []int64{1, 2} {
		one([][]byte{vrB32(big.NewInt(v))}, 0)
		one([][]byte{vrB32(new(big.Int).Sub(vrN, big.NewInt(v+1)))}, 0) // n-2, n-3
	}
	for _, rj := range rejected {
		one([][]byte{rj, vrB32(vrRandKey(c.rng))}, 0)
	}
	one(append(append([][]byte{}, rejected...), vrB32(vrRandKey(c.rng))), 0)
	for i := 0; i < c.n; i++ {
		var chunks [][]byte
		for j := c.rng.Intn(4); j > 0; j-- {
			chunks = append(chunks, rejected[c.rng.Intn(len(rejected))])
		}
		chunks = append(chunks, vrB32(vrRandKey(c.rng)), vrBytes(c.rng, 32))
		maxRead := 0
		if i%4 == 3 {
			maxRead = 1 + c.rng.Intn(40)
		}
		one(chunks, maxRead)
	}
	// readers that now and then return (0, nil): the draw is completed by further reads, also in the middle of a
	// candidate and after rejected candidates
	for _, ze := range []int{2, 3} {
		zeroEvery = ze
		one([][]byte{vrB32(vrRandKey(c.rng))}, 0)
		one([][]byte{vrB32(vrRandKey(c.rng))}, 5)
		one([][]byte{rejected[1], rejected[3], vrB32(vrRandKey(c.rng)), vrBytes(c.rng, 32)}, 7)
		one([][]byte{rejected[0], vrB32(big.NewInt(1))}, 31)
	}
	zeroEvery = 0
	// failing reader: error at Read call i -> non-nil error, nil x and y
	for i := 0; i < 4; i++ {
		rd := vrNewReader(rejected[0], rejected[1], rejected[2], vrB32(vrRandKey(c.rng)))
		rd.failAt = i
		in := fmt.Sprintf(`{"rand":"%s","failAtRead":%d}`, vrHex(rd.data), i)
		var x, y []byte
		var err error
		if p := vrTry(func() { _, x, y, err = GenerateKey(rd) }); p != "" {
			c.check(false, in, p, "err!=nil,x=nil,y=nil")
			continue
		}
		c.check(err != nil && x == nil && y == nil, in, fmt.Sprintf("err=%v,x=%s,y=%s", err, vrHex(x), vrHex(y)), "err!=nil,x=nil,y=nil")
	}
	// the stream ends in the middle of a candidate and the last bytes arrive together with io.EOF
	for i, data := range [][]byte{vrBytes(c.rng, 7), vrBytes(c.rng, 31), append(vrB32(vrN), vrBytes(c.rng, 16)...), append(vrB32(vrN), vrBytes(c.rng, 31)...), vrBytes(c.rng, 20)} {
		rd := vrNewReader(data)
		rd.eofWithData = true
		if i == 4 {
			rd.maxRead = 8
		}
		in := fmt.Sprintf(`{"rand":"%s","kind":"last bytes together with io.EOF, mid-candidate","maxRead":%d}`, vrHex(data), rd.maxRead)
		var x, y []byte
		var err error
		if p := vrTry(func() { _, x, y, err = GenerateKey(rd) }); p != "" {
			c.check(false, in, p, "err!=nil,x=nil,y=nil")
			continue
		}
		c.check(err != nil && x == nil && y == nil, in, fmt.Sprintf("err=%v,x=%s,y=%s", err, vrHex(x), vrHex(y)), "err!=nil,x=nil,y=nil")
	}
	// complete candidates whose last bytes arrive together with io.EOF are successful draws (io.ReadFull semantics)
	{
		kd := vrRandKey(c.rng)
		rd := vrNewReader(vrB32(kd))
		rd.eofWithData = true
		pt := vrMulPt(kd, vrG)
		var priv, x, y []byte
		var err error
		p := vrTry(func() { priv, x, y, err = GenerateKey(rd) })
		c.check(p == "" && err == nil && bytes.Equal(priv, vrB32(kd)) && bytes.Equal(x, vrB32(pt.x)) && bytes.Equal(y, vrB32(pt.y)), fmt.Sprintf(`{"rand":"%s","kind":"complete candidate together with io.EOF"}`, vrHex(vrB32(kd))), fmt.Sprintf("%serr=%v,priv=%s", p, err, vrHex(priv)), "the key of that candidate")
	}
	// a failing call that also hands out part of a candidate, from a source that then recovers
	for i := 0; i < 12; i++ {
		rd := vrNewReader(rejected[0], rejected[1], vrB32(vrRandKey(c.rng)), vrB32(vrRandKey(c.rng)), vrB32(vrRandKey(c.rng)))
		rd.failAt = i % 3
		rd.failPartial = []int{1, 16, 31, 7}[i%4]
		if i >= 6 {
			rd.maxRead = 8
			rd.failAt = []int{0, 2, 4, 5, 9, 3}[i-6]
		}
		in := fmt.Sprintf(`{"rand":"%s","failAtRead":%d,"bytesWithError":%d,"maxRead":%d}`, vrHex(rd.data), rd.failAt, rd.failPartial, rd.maxRead)
		var x, y []byte
		var err error
		if p := vrTry(func() { _, x, y, err = GenerateKey(rd) }); p != "" {
			c.check(false, in, p, "err!=nil,x=nil,y=nil")
			continue
		}
		c.check(err != nil && x == nil && y == nil, in, fmt.Sprintf("err=%v,x=%s,y=%s", err, vrHex(x), vrHex(y)), "err!=nil,x=nil,y=nil")
	}
	// stream that ends early
	for _, data := range [][]byte{{}, make([]byte, 31), append(vrB32(vrN), 1, 2, 3), vrB32(vrN), append(vrB32(vrN), make([]byte, 32)...), make([]byte, 64)} {
		rd := vrNewReader(data)
		in := fmt.Sprintf(`{"rand":"%s","kind":"short stream"}`, vrHex(data))
		var x, y []byte
		var err error
		if p := vrTry(func() { _, x, y, err = GenerateKey(rd) }); p != "" {
			c.check(false, in, p, "err!=nil,x=nil,y=nil")
			continue
		}
		c.check(err != nil && x == nil && y == nil, in, fmt.Sprintf("err=%v,x=%s,y=%s", err, vrHex(x), vrHex(y)), "err!=nil,x=nil,y=nil")
	}
	// nil reader
	var x, y []byte
	var err error
	p := vrTry(func() { _, x, y, err = GenerateKey(nil) })
	c.check(p == "" && err != nil && x == nil && y == nil, `{"rand":null}`, fmt.Sprintf("%serr=%v", p, err), "err!=nil,x=nil,y=nil")
}

// GenerateKey.zero-candidate: the candidate 0 is not in [1, n-2]; it must be
// rejected and the next 32 bytes drawn. Expected to fail on the current code
// (0 is accepted, then the derivation of the public key panics).
func vrCaseGenerateKeyZero(c *vrCase) {
	for i := 0; i < 3; i++ {
		good := vrB32(vrRandKey(c.rng))
		chunks := [][]byte{make([]byte, 32), good}
		if i == 1 {
			chunks = [][]byte{vrB32(vrN), make([]byte, 32), make([]byte, 32), good}
		}
		pt := vrMulPt(vrInt(good), vrG)
		want := fmt.Sprintf("priv=%s,x=%s,y=%s,chunks_used=%d", vrHex(good), vrHex(vrB32(pt.x)), vrHex(vrB32(pt.y)), len(chunks))
		rd := vrNewReader(chunks...)
		in := fmt.Sprintf(`{"rand":"%s"}`, vrChunksHex(chunks))
		var priv, x, y []byte
		var err error
		if p := vrTry(func() { priv, x, y, err = GenerateKey(rd) }); p != "" || err != nil {
			c.check(false, in, fmt.Sprintf("%s,err=%v", p, err), want)
			continue
		}
		got := fmt.Sprintf("priv=%s,x=%s,y=%s,chunks_used=%d", vrHex(priv), vrHex(x), vrHex(y), rd.pos/32)
		c.check(got == want, in, got, want)
	}
}

func vrCaseCheckOnCurve(c *vrCase) {
	keys := vrKeyPool(c, 12)
	one := func(x, y []byte) {
		want := len(x) == 32 && len(y) == 32 && vrOnCurve(vrInt(x), vrInt(y))
		x0, y0 := vrCloneB(x), vrCloneB(y)
		in := fmt.Sprintf(`{"x":"%s","y":"%s"}`, vrHex(x), vrHex(y))
		var got bool
		if p := vrTry(func() { got = CheckOnCurve(x, y) }); p != "" {
			c.check(false, in, p, want)
			return
		}
		if !bytes.Equal(x, x0) || !bytes.Equal(y, y0) {
			c.check(false, in, "input modified", "input unchanged")
			return
		}
		c.check(got == want, in, got, want)
	}
	sp := vrSmallXPoint()
	keys = append(keys, vrKeyPair{pt: sp, px: vrB32(sp.x), py: vrB32(sp.y)}, vrKeyPair{pt: vrG, px: vrB32(vrGx), py: vrB32(vrGy)})
	for _, k := range keys {
		one(k.px, k.py)
		one(k.px, vrB32(new(big.Int).Sub(vrP, k.pt.y)))
		one(k.py, k.px)
		one(vrFlipBit(c.rng, k.px), k.py)
		one(k.px, vrFlipBit(c.rng, k.py))
		one(k.px[1:], k.py)
		one(k.px, k.py[1:])
		one(append([]byte{0}, k.px...), k.py)
		one(k.px, append([]byte{0}, k.py...))
		one(nil, k.py)
		one(k.px, nil)
		one([]byte{}, []byte{})
	}
	// non-canonical x+p
	one(vrB32(new(big.Int).Add(sp.x, vrP)), vrB32(sp.y))
	z, pb, ff := make([]byte, 32), vrB32(vrP), bytes.Repeat([]byte{0xff}, 32)
	pm1 := vrB32(new(big.Int).Sub(vrP, big.NewInt(1)))
	for _, x := range [][]byte{z, pb, ff, pm1} {
		for _, y := range [][]byte{z, pb, ff, pm1} {
			one(x, y)
		}
	}
	for i := 0; i < c.n; i++ {
		one(vrBytes(c.rng, 32), vrBytes(c.rng, 32))
	}
}

// ---------------------------------------------------------------- cases: ZA and the message-level entry points

// vrHitsSM3Defect tells whether hashing total bytes runs into the known SM3
// padding defect of package sm3 (length = 55 mod 64).
func vrHitsSM3Defect(total int) bool { return total%64 == 55 }

// vrID returns an id of length l: random up to 300 bytes, beyond that the fixed
// pattern id[i] = i mod 251 (so that the one-line description stays short).
func vrID(c *vrCase, l int) []byte {
	if l <= 300 {
		return vrBytes(c.rng, l)
	}
	id := make([]byte, l)
	for i := range id {
		id[i] = byte(i % 251)
	}
	return id
}

func vrIDDesc(id []byte) string {
	if len(id) <= 300 {
		return vrHex(id)
	}
	return "pattern:id[i]=i%251"
}

func vrZAOne(c *vrCase, id, px, py []byte) {
	in := fmt.Sprintf(`{"len(id)":%d,"id":"%s","pubx":"%s","puby":"%s"}`, len(id), vrIDDesc(id), vrHex(px), vrHex(py))
	id0 := vrCloneB(id)
	var za []byte
	var err error
	p := vrTry(func() { za, err = ZA(id, px, py) })
	if len(id)*8 > 0xffff { // ENTL is a 2-byte bit length
		c.check(p == "" && err != nil, in, fmt.Sprintf("%serr=%v,za=%s", p, err, vrHex(za)), "err!=nil")
		return
	}
	want := vrRefZA(id, px, py)
	if p != "" || err != nil {
		c.check(false, in, fmt.Sprintf("%serr=%v", p, err), vrHex(want))
		return
	}
	if !bytes.Equal(id, id0) {
		c.check(false, in, "id modified", "id unchanged")
		return
	}
	c.check(bytes.Equal(za, want), in, vrHex(za), vrHex(want))
}

func vrCaseZA(c *vrCase) {
	keys := vrKeyPool(c, 6)
	for l := 0; l <= 70; l++ {
		if vrHitsSM3Defect(2 + l + 128 + 64) {
			continue // id length 53: case sm3-len55
		}
		k := keys[l%len(keys)]
		vrZAOne(c, vrBytes(c.rng, l), k.px, k.py)
	}
	k := keys[4]
	vrZAOne(c, []byte("1234567812345678"), k.px, k.py)
	vrZAOne(c, nil, k.px, k.py)
	for _, l := range []int{100, 255, 256, 1000, 4096, 8190, 8191, 8192, 8193, 10000, 16384, 65536} {
		if vrHitsSM3Defect(2 + l + 128 + 64) {
			l++
		}
		vrZAOne(c, vrID(c, l), k.px, k.py)
	}
	for i := 0; i < c.n/4; i++ {
		l := c.rng.Intn(300)
		if vrHitsSM3Defect(2 + l + 128 + 64) {
			l++
		}
		k := keys[c.rng.Intn(len(keys))]
		vrZAOne(c, vrBytes(c.rng, l), k.px, k.py)
	}
	// histories on reused buffers: the caller overwrites its id / coordinate buffers in place between calls (same
	// lengths, new contents), repeats an earlier input, and interleaves other identities; every call must depend on
	// the current contents only
	idBuf, pxBuf, pyBuf := make([]byte, 16), make([]byte, 32), make([]byte, 32)
	for step := 0; step < 24; step++ {
		k := keys[(step/2)%len(keys)]
		if step%3 != 2 {
			copy(idBuf, vrBytes(c.rng, 16))
		}
		if step%2 == 0 {
			copy(pxBuf, k.px)
			copy(pyBuf, k.py)
		}
		vrZAOne(c, idBuf, pxBuf, pyBuf)
		if step%5 == 4 {
			vrZAOne(c, vrBytes(c.rng, 16), k.px, k.py)
		}
	}
}

// vrSignMsgOne: Sign / SignZa equal the reference signature on e = SM3(ZA || M)
// with the same nonce stream; Verify / VerifyZa equal the reference verdict.
func vrSignMsgOne(c *vrCase, kp vrKeyPair, id, msg []byte) {
	za := vrRefZA(id, kp.px, kp.py)
	e := vrRefE(za, msg)
	chunks := append(vrBadNonces(c.rng), vrB32(vrRandNonce(c.rng)))
	wr, ws, used, ok := vrRefSign(kp.d, vrInt(e), chunks)
	if !ok {
		return
	}
	want := fmt.Sprintf("r=%s,s=%s,chunks_used=%d", vrHex(vrB32(wr)), vrHex(vrB32(ws)), used)
	in := fmt.Sprintf(`{"priv":"%s","len(id)":%d,"id":"%s","len(msg)":%d,"msg":"%s","rand":"%s"`, vrHex(kp.db), len(id), vrIDDesc(id), len(msg), vrHex(msg), vrChunksHex(chunks))
	var r, s []byte
	var err error
	rd := vrNewReader(chunks...)
	if p := vrTry(func() { r, s, err = Sign(id, kp.px, kp.py, rd, kp.db, msg) }); p != "" || err != nil {
		c.check(false, in+`,"op":"Sign"}`, fmt.Sprintf("%serr=%v", p, err), want)
	} else {
		c.check(fmt.Sprintf("r=%s,s=%s,chunks_used=%d", vrHex(r), vrHex(s), rd.pos/32) == want, in+`,"op":"Sign"}`, fmt.Sprintf("r=%s,s=%s,chunks_used=%d", vrHex(r), vrHex(s), rd.pos/32), want)
	}
	rd = vrNewReader(chunks...)
	if p := vrTry(func() { r, s, err = SignZa(rd, kp.db, za, msg) }); p != "" || err != nil {
		c.check(false, in+`,"op":"SignZa"}`, fmt.Sprintf("%serr=%v", p, err), want)
	} else {
		c.check(fmt.Sprintf("r=%s,s=%s,chunks_used=%d", vrHex(r), vrHex(s), rd.pos/32) == want, in+`,"op":"SignZa"}`, fmt.Sprintf("r=%s,s=%s,chunks_used=%d", vrHex(r), vrHex(s), rd.pos/32), want)
	}
}

func vrVerifyMsgOne(c *vrCase, kp vrKeyPair, id, msg []byte) {
	za := vrRefZA(id, kp.px, kp.py)
	e := vrRefE(za, msg)
	r, s := vrValidSig(c, kp, e)
	type variant struct {
		tag       string
		id, msg   []byte
		r, s      []byte
		wantValid bool
	}
	vs := []variant{{"valid", id, msg, r, s, true}}
	vs = append(vs, variant{"other message", id, append(vrCloneB(msg), 0x21), r, s, false})
	vs = append(vs, variant{"other id", append(vrCloneB(id), 0x21), msg, r, s, false})
	vs = append(vs, variant{"bit flip in r", id, msg, vrFlipBit(c.rng, r), s, false})
	vs = append(vs, variant{"bit flip in s", id, msg, r, vrFlipBit(c.rng, s), false})
	for _, v := range vs {
		if vrSmallT(v.r, v.s) || vrHitsSM3Defect(2+len(v.id)+192) || vrHitsSM3Defect(32+len(v.msg)) {
			continue
		}
		za2 := vrRefZA(v.id, kp.px, kp.py)
		want := vrRefVerify(kp.px, kp.py, vrRefE(za2, v.msg), v.r, v.s)
		if want != v.wantValid {
			panic("REFERENCE BUG: verify variant")
		}
		in := fmt.Sprintf(`{"pubx":"%s","puby":"%s","len(id)":%d,"id":"%s","len(msg)":%d,"msg":"%s","r":"%s","s":"%s","kind":"%s"`, vrHex(kp.px), vrHex(kp.py), len(v.id), vrIDDesc(v.id), len(v.msg), vrHex(v.msg), vrHex(v.r), vrHex(v.s), v.tag)
		var got bool
		var err error
		p := vrTry(func() { got, err = Verify(v.id, kp.px, kp.py, v.msg, v.r, v.s) })
		c.check(p == "" && got == want && (!want || err == nil), in+`,"op":"Verify"}`, fmt.Sprintf("%s%v,err=%v", p, got, err), want)
		p = vrTry(func() { got, err = VerifyZa(kp.px, kp.py, za2, v.msg, v.r, v.s) })
		c.check(p == "" && got == want && (!want || err == nil), in+`,"op":"VerifyZa"}`, fmt.Sprintf("%s%v,err=%v", p, got, err), want)
	}
}

func vrMsgLens(c *vrCase) [][2]int {
	var out [][2]int
	add := func(idLen, msgLen int) {
		if vrHitsSM3Defect(2+idLen+192) || vrHitsSM3Defect(32+msgLen) {
			return // case sm3-len55
		}
		out = append(out, [2]int{idLen, msgLen})
	}
	for l := 0; l <= 100; l++ {
		add(16, l)
	}
	for l := 0; l <= 70; l++ {
		add(l, 14)
	}
	add(8191, 1000)
	for i := 0; i < c.n/4; i++ {
		add(c.rng.Intn(80), c.rng.Intn(600))
	}
	return out
}

func vrCaseSign(c *vrCase) {
	keys := vrKeyPool(c, 8)
	// the standard's example
	vrSignMsgOne(c, keys[4], []byte("1234567812345678"), []byte("message digest"))
	for _, l := range vrMsgLens(c) {
		vrSignMsgOne(c, keys[c.rng.Intn(len(keys))], vrID(c, l[0]), vrBytes(c.rng, l[1]))
	}
	// id too long: error, nil r and s
	kp := keys[0]
	for _, l := range []int{8193, 10000} {
		id := vrID(c, l)
		var r, s []byte
		var err error
		p := vrTry(func() {
			r, s, err = Sign(id, kp.px, kp.py, vrNewReader(vrB32(vrRandNonce(c.rng))), kp.db, []byte("m"))
		})
		c.check(p == "" && err != nil && r == nil && s == nil, fmt.Sprintf(`{"len(id)":%d,"op":"Sign"}`, l), fmt.Sprintf("%serr=%v", p, err), "err!=nil,r=nil,s=nil")
	}
}

func vrCaseVerify(c *vrCase) {
	keys := vrKeyPool(c, 8)
	vrVerifyMsgOne(c, keys[4], []byte("1234567812345678"), []byte("message digest"))
	// the standard's signature itself
	{
		kp := keys[4]
		r := vrB32(vrMustHex("F5A03B0648D2C4630EEAC513E1BB81A15944DA3827D5B74143AC7EACEEE720B3"))
		s := vrB32(vrMustHex("B1B6AA29DF212FD8763182BC0D421CA1BB9038FD1F7F42D4840B69C485BBC1AA"))
		var got bool
		var err error
		p := vrTry(func() { got, err = Verify([]byte("1234567812345678"), kp.px, kp.py, []byte("message digest"), r, s) })
		c.check(p == "" && got && err == nil, `{"kind":"GM/T 0003.5 A.2 signature"}`, fmt.Sprintf("%s%v,err=%v", p, got, err), "true")
	}
	for i, l := range vrMsgLens(c) {
		if i%3 != 0 {
			continue
		}
		vrVerifyMsgOne(c, keys[c.rng.Intn(len(keys))], vrID(c, l[0]), vrBytes(c.rng, l[1]))
	}
	kp := keys[0]
	for _, l := range []int{8193, 10000} {
		id := vrID(c, l)
		var got bool
		var err error
		p := vrTry(func() { got, err = Verify(id, kp.px, kp.py, []byte("m"), vrB32(big.NewInt(5)), vrB32(big.NewInt(7))) })
		c.check(p == "" && !got && err != nil, fmt.Sprintf(`{"len(id)":%d,"op":"Verify"}`, l), fmt.Sprintf("%s%v,err=%v", p, got, err), "false,err!=nil")
	}
}

// sm3-len55: the inputs of ZA / Sign / Verify for which the hashed byte string
// has length = 55 mod 64 (id length = 53 mod 64; message length = 23 mod 64),
// compared with what the standard says. Expected to fail on the current code
// because of the SM3 padding defect in package sm3.
func vrCaseSM3Len55(c *vrCase) {
	keys := vrKeyPool(c, 6)
	for _, l := range []int{53, 117, 181} {
		k := keys[l%len(keys)]
		vrZAOne(c, vrBytes(c.rng, l), k.px, k.py)
	}
	for _, l := range []int{23, 87, 151} {
		kp := keys[l%len(keys)]
		id, msg := []byte("1234567812345678"), vrBytes(c.rng, l)
		vrSignMsgOne(c, kp, id, msg)
		// Verify of a reference signature over such a message
		za := vrRefZA(id, kp.px, kp.py)
		r, s := vrValidSig(c, kp, vrRefE(za, msg))
		var got bool
		var err error
		in := fmt.Sprintf(`{"pubx":"%s","puby":"%s","id":"%s","len(msg)":%d,"msg":"%s","r":"%s","s":"%s","op":"Verify"}`, vrHex(kp.px), vrHex(kp.py), vrHex(id), l, vrHex(msg), vrHex(r), vrHex(s))
		p := vrTry(func() { got, err = Verify(id, kp.px, kp.py, msg, r, s) })
		c.check(p == "" && got && err == nil, in, fmt.Sprintf("%s%v,err=%v", p, got, err), "true")
	}
	// id of length 53 at the message level
	kp := keys[1]
	vrSignMsgOne(c, kp, vrBytes(c.rng, 53), []byte("message digest"))
}

func TestVerifReplay(t *testing.T) {
	vrSelfTest(t)
	e := vrNewEnv(t)
	e.run("SignHashed", vrCaseSignHashed)
	e.run("SignHashed.k-zero", vrCaseSignKZero)
	e.run("SignHashed.small-rs", vrCaseSignSmallRS)
	e.run("SignHashed.short-key", vrCaseSignShortKey)
	e.run("SignHashed.invalid-key", vrCaseSignInvalidKey)
	e.run("VerifyHashed", vrCaseVerifyHashed)
	e.run("VerifyHashed.small-t", vrCaseVerifySmallT)
	e.run("VerifyHashed.infinity", vrCaseVerifyInfinity)
	e.run("sign-then-verify", vrCaseSignThenVerify)
	e.run("TestPrivateKey", vrCaseTestPrivateKey)
	e.run("TestPrivateKey.short", vrCaseTestPrivateKeyShort)
	e.run("DerivePublic", vrCaseDerivePublic)
	e.run("DerivePublic.zero", vrCaseDerivePublicZero)
	e.run("GenerateKey", vrCaseGenerateKey)
	e.run("GenerateKey.zero-candidate", vrCaseGenerateKeyZero)
	e.run("CheckOnCurve", vrCaseCheckOnCurve)
	e.run("ZA", vrCaseZA)
	e.run("Sign", vrCaseSign)
	e.run("Verify", vrCaseVerify)
	e.run("sm3-len55", vrCaseSM3Len55)
	e.finish()
}
