// Differential replay test for package sm4 (github.com/bilibili/smgo/sm4).
// Injected with `go test -overlay` as /repo/sm4/zz_replay_test.go; see run.sh.
//
// References, all written here from the standards:
//   - SM4 block cipher from GB/T 32907-2016 (S-box table typed from the standard and
//     validated on the standard's two examples: one encryption and 1,000,000 iterations),
//   - GCM from NIST SP 800-38D (bitwise GF(2^128) multiplication, GHASH, GCTR),
//     cross-checked in every test against crypto/cipher's generic GCM over the
//     reference SM4 whenever the standard library can express the nonce/tag size.
//
// The build constraint is needed because the assembly kernels (cryptoBlockAsm*,
// expandKeyAsm, gHashBlocks, candoAsm) only exist on amd64 (X16: amd64 only).

//go:build amd64

package sm4

import (
	"bytes"
	"crypto/cipher"
	"encoding/hex"
	"errors"
	"fmt"
	"hash/fnv"
	"math/rand"
	"os"
	"strconv"
	"strings"
	"testing"
)

// ---------------------------------------------------------------- harness

type vrEnv struct {
	t    *testing.T
	seed int64
	n    int
	sel  map[string]bool // nil = all
	seen map[string]bool
}

type vrCase struct {
	env   *vrEnv
	name  string
	rng   *rand.Rand
	n     int
	runs  int
	fails int
	skip  string // non-empty: case could not run here (reason)
}

func vrNewEnv(t *testing.T) *vrEnv {
	e := &vrEnv{t: t, seed: 1, n: 200, seen: map[string]bool{}}
	if s := strings.TrimSpace(os.Getenv("VERIF_SEED")); s != "" {
		v, err := strconv.ParseInt(s, 10, 64)
		if err != nil {
			t.Fatalf("bad VERIF_SEED %q", s)
		}
		e.seed = v
	}
	if s := strings.TrimSpace(os.Getenv("VERIF_N")); s != "" {
		v, err := strconv.Atoi(s)
		if err != nil || v < 0 {
			t.Fatalf("bad VERIF_N %q", s)
		}
		e.n = v
	}
	if s := strings.TrimSpace(os.Getenv("VERIF_FUNCS")); s != "" && s != "all" {
		e.sel = map[string]bool{}
		for _, f := range strings.Split(s, ",") {
			if f = strings.TrimSpace(f); f != "" {
				e.sel[f] = true
			}
		}
	}
	return e
}

// run executes one case if selected. Every case gets its own generator that is
// derived from VERIF_SEED and the case name only, so that a single case
// selected with VERIF_FUNCS replays exactly the inputs of the full run.
func (e *vrEnv) run(name string, f func(c *vrCase)) {
	e.seen[name] = true
	if e.sel != nil && !e.sel[name] {
		return
	}
	h := fnv.New64a()
	h.Write([]byte(name))
	master := rand.New(rand.NewSource(e.seed))
	sub := master.Int63() ^ int64(h.Sum64()&0x7fffffffffffffff)
	c := &vrCase{env: e, name: name, rng: rand.New(rand.NewSource(sub)), n: e.n}
	func() {
		defer func() {
			if r := recover(); r != nil {
				c.fail("harness", fmt.Sprintf("panic:%v", r), "no panic")
			}
		}()
		f(c)
	}()
	if c.skip != "" {
		fmt.Printf("REPLAY-SKIP case=%s reason=%s\n", c.name, vrOneLine(c.skip))
	} else if c.fails == 0 {
		fmt.Printf("REPLAY-OK case=%s n=%d\n", c.name, c.runs)
	}
}

// runExtra is like run for cases that are outside the documented contract of the
// package (e.g. undocumented aliasing): they are not part of "all" and run only
// when named explicitly in VERIF_FUNCS.
func (e *vrEnv) runExtra(name string, f func(c *vrCase)) {
	if e.sel == nil {
		e.seen[name] = true
		return
	}
	e.run(name, f)
}

func (e *vrEnv) finish() {
	for f := range e.sel {
		if !e.seen[f] {
			fmt.Printf("REPLAY-UNKNOWN case=%s\n", f)
			e.t.Errorf("unknown case %q", f)
		}
	}
}

func vrOneLine(s string) string {
	s = strings.ReplaceAll(s, "\n", "\\n")
	s = strings.ReplaceAll(s, " ", "_")
	if len(s) > 6000 {
		s = s[:6000] + "...(truncated)"
	}
	if s == "" {
		s = "-"
	}
	return s
}

func (c *vrCase) fail(input, got, want string) {
	c.fails++
	c.env.t.Fail()
	if c.fails <= 5 {
		fmt.Printf("REPLAY-FAIL case=%s input=%s got=%s want=%s\n", c.name, vrOneLine(input), vrOneLine(got), vrOneLine(want))
	}
}

// check counts one comparison.
func (c *vrCase) check(ok bool, input string, got, want interface{}) bool {
	c.runs++
	if !ok {
		c.fail(input, fmt.Sprint(got), fmt.Sprint(want))
	}
	return ok
}

// vrTry runs f and converts a panic into a string.
func vrTry(f func()) (panicked string) {
	defer func() {
		if r := recover(); r != nil {
			panicked = fmt.Sprintf("panic:%v", r)
		}
	}()
	f()
	return ""
}

func vrHex(b []byte) string { return hex.EncodeToString(b) }

func vrBytes(r *rand.Rand, n int) []byte {
	b := make([]byte, n)
	r.Read(b)
	return b
}

// ---------------------------------------------------------------- reference SM4 (GB/T 32907)

var vrSbox = [256]byte{
	0xd6, 0x90, 0xe9, 0xfe, 0xcc, 0xe1, 0x3d, 0xb7, 0x16, 0xb6, 0x14, 0xc2, 0x28, 0xfb, 0x2c, 0x05,
	0x2b, 0x67, 0x9a, 0x76, 0x2a, 0xbe, 0x04, 0xc3, 0xaa, 0x44, 0x13, 0x26, 0x49, 0x86, 0x06, 0x99,
	0x9c, 0x42, 0x50, 0xf4, 0x91, 0xef, 0x98, 0x7a, 0x33, 0x54, 0x0b, 0x43, 0xed, 0xcf, 0xac, 0x62,
	0xe4, 0xb3, 0x1c, 0xa9, 0xc9, 0x08, 0xe8, 0x95, 0x80, 0xdf, 0x94, 0xfa, 0x75, 0x8f, 0x3f, 0xa6,
	0x47, 0x07, 0xa7, 0xfc, 0xf3, 0x73, 0x17, 0xba, 0x83, 0x59, 0x3c, 0x19, 0xe6, 0x85, 0x4f, 0xa8,
	0x68, 0x6b, 0x81, 0xb2, 0x71, 0x64, 0xda, 0x8b, 0xf8, 0xeb, 0x0f, 0x4b, 0x70, 0x56, 0x9d, 0x35,
	0x1e, 0x24, 0x0e, 0x5e, 0x63, 0x58, 0xd1, 0xa2, 0x25, 0x22, 0x7c, 0x3b, 0x01, 0x21, 0x78, 0x87,
	0xd4, 0x00, 0x46, 0x57, 0x9f, 0xd3, 0x27, 0x52, 0x4c, 0x36, 0x02, 0xe7, 0xa0, 0xc4, 0xc8, 0x9e,
	0xea, 0xbf, 0x8a, 0xd2, 0x40, 0xc7, 0x38, 0xb5, 0xa3, 0xf7, 0xf2, 0xce, 0xf9, 0x61, 0x15, 0xa1,
	0xe0, 0xae, 0x5d, 0xa4, 0x9b, 0x34, 0x1a, 0x55, 0xad, 0x93, 0x32, 0x30, 0xf5, 0x8c, 0xb1, 0xe3,
	0x1d, 0xf6, 0xe2, 0x2e, 0x82, 0x66, 0xca, 0x60, 0xc0, 0x29, 0x23, 0xab, 0x0d, 0x53, 0x4e, 0x6f,
	0xd5, 0xdb, 0x37, 0x45, 0xde, 0xfd, 0x8e, 0x2f, 0x03, 0xff, 0x6a, 0x72, 0x6d, 0x6c, 0x5b, 0x51,
	0x8d, 0x1b, 0xaf, 0x92, 0xbb, 0xdd, 0xbc, 0x7f, 0x11, 0xd9, 0x5c, 0x41, 0x1f, 0x10, 0x5a, 0xd8,
	0x0a, 0xc1, 0x31, 0x88, 0xa5, 0xcd, 0x7b, 0xbd, 0x2d, 0x74, 0xd0, 0x12, 0xb8, 0xe5, 0xb4, 0xb0,
	0x89, 0x69, 0x97, 0x4a, 0x0c, 0x96, 0x77, 0x7e, 0x65, 0xb9, 0xf1, 0x09, 0xc5, 0x6e, 0xc6, 0x84,
	0x18, 0xf0, 0x7d, 0xec, 0x3a, 0xdc, 0x4d, 0x20, 0x79, 0xee, 0x5f, 0x3e, 0xd7, 0xcb, 0x39, 0x48,
}

var vrFK = [4]uint32{0xa3b1bac6, 0x56aa3350, 0x677d9197, 0xb27022dc}

func vrRotl(x uint32, n uint) uint32 { return x<<n | x>>(32-n) }

func vrTau(a uint32) uint32 {
	return uint32(vrSbox[a>>24])<<24 | uint32(vrSbox[a>>16&0xff])<<16 | uint32(vrSbox[a>>8&0xff])<<8 | uint32(vrSbox[a&0xff])
}

// round function T = L . tau, key schedule T' = L' . tau
func vrT(a uint32) uint32 {
	b := vrTau(a)
	return b ^ vrRotl(b, 2) ^ vrRotl(b, 10) ^ vrRotl(b, 18) ^ vrRotl(b, 24)
}

func vrTPrime(a uint32) uint32 {
	b := vrTau(a)
	return b ^ vrRotl(b, 13) ^ vrRotl(b, 23)
}

// vrCK returns the fixed parameter CK_i: byte j of CK_i is (4i+j)*7 mod 256.
func vrCK(i int) uint32 {
	var v uint32
	for j := 0; j < 4; j++ {
		v = v<<8 | uint32(byte((4*i+j)*7))
	}
	return v
}

func vrBE32(b []byte) uint32 {
	return uint32(b[0])<<24 | uint32(b[1])<<16 | uint32(b[2])<<8 | uint32(b[3])
}

func vrPutBE32(b []byte, v uint32) {
	b[0], b[1], b[2], b[3] = byte(v>>24), byte(v>>16), byte(v>>8), byte(v)
}

// vrExpand is the key expansion: rk_i = K_{i+4} = K_i ^ T'(K_{i+1} ^ K_{i+2} ^ K_{i+3} ^ CK_i).
func vrExpand(key []byte) (rk [32]uint32) {
	var k [36]uint32
	for i := 0; i < 4; i++ {
		k[i] = vrBE32(key[4*i:]) ^ vrFK[i]
	}
	for i := 0; i < 32; i++ {
		k[i+4] = k[i] ^ vrTPrime(k[i+1]^k[i+2]^k[i+3]^vrCK(i))
		rk[i] = k[i+4]
	}
	return
}

func vrReverse(rk [32]uint32) (r [32]uint32) {
	for i := range rk {
		r[i] = rk[31-i]
	}
	return
}

// vrCrypt runs the 32 rounds and the reverse transform R.
func vrCrypt(rk *[32]uint32, dst, src []byte) {
	var x [36]uint32
	for i := 0; i < 4; i++ {
		x[i] = vrBE32(src[4*i:])
	}
	for i := 0; i < 32; i++ {
		x[i+4] = x[i] ^ vrT(x[i+1]^x[i+2]^x[i+3]^rk[i])
	}
	for i := 0; i < 4; i++ {
		vrPutBE32(dst[4*i:], x[35-i])
	}
}

// vrBlock is a cipher.Block around the reference. It deliberately has no NewGCM
// method, so crypto/cipher uses its generic GCM implementation on top of it.
type vrBlock struct{ enc, dec [32]uint32 }

func vrNewBlock(key []byte) *vrBlock {
	b := &vrBlock{}
	b.enc = vrExpand(key)
	b.dec = vrReverse(b.enc)
	return b
}
func (b *vrBlock) BlockSize() int          { return 16 }
func (b *vrBlock) Encrypt(dst, src []byte) { vrCrypt(&b.enc, dst[:16], src[:16]) }
func (b *vrBlock) Decrypt(dst, src []byte) { vrCrypt(&b.dec, dst[:16], src[:16]) }

func vrUnhex(s string) []byte {
	b, err := hex.DecodeString(s)
	if err != nil {
		panic(err)
	}
	return b
}

// ---------------------------------------------------------------- reference GCM (SP 800-38D)

type vrG128 struct{ hi, lo uint64 } // hi = bytes 0..7 big-endian: bit 0 of the spec is the MSB of hi

func vrLoad128(b []byte) vrG128 {
	var g vrG128
	for i := 0; i < 8; i++ {
		g.hi = g.hi<<8 | uint64(b[i])
		g.lo = g.lo<<8 | uint64(b[8+i])
	}
	return g
}

func (g vrG128) bytes() []byte {
	b := make([]byte, 16)
	for i := 0; i < 8; i++ {
		b[i] = byte(g.hi >> (56 - 8*uint(i)))
		b[8+i] = byte(g.lo >> (56 - 8*uint(i)))
	}
	return b
}

// vrGMul is Algorithm 1 of SP 800-38D: X . Y in GF(2^128), R = 11100001 || 0^120.
func vrGMul(x, y vrG128) vrG128 {
	var z vrG128
	v := y
	for i := 0; i < 128; i++ {
		var bit uint64
		if i < 64 {
			bit = x.hi >> (63 - uint(i)) & 1
		} else {
			bit = x.lo >> (127 - uint(i)) & 1
		}
		if bit == 1 {
			z.hi ^= v.hi
			z.lo ^= v.lo
		}
		lsb := v.lo & 1
		v.lo = v.lo>>1 | v.hi<<63
		v.hi >>= 1
		if lsb == 1 {
			v.hi ^= 0xe100000000000000
		}
	}
	return z
}

// vrGHash is Algorithm 2 on a byte string whose length is a multiple of 16.
func vrGHash(h vrG128, y vrG128, data []byte) vrG128 {
	for i := 0; i+16 <= len(data); i += 16 {
		x := vrLoad128(data[i:])
		y.hi ^= x.hi
		y.lo ^= x.lo
		y = vrGMul(y, h)
	}
	return y
}

func vrPad16(b []byte) []byte {
	out := append([]byte{}, b...)
	for len(out)%16 != 0 {
		out = append(out, 0)
	}
	return out
}

func vrLen64(n int) []byte {
	b := make([]byte, 8)
	v := uint64(n) * 8
	for i := 0; i < 8; i++ {
		b[i] = byte(v >> (56 - 8*uint(i)))
	}
	return b
}

func vrInc32(cb []byte) {
	v := vrBE32(cb[12:]) + 1
	vrPutBE32(cb[12:], v)
}

// vrGCTR is Algorithm 3.
func vrGCTR(b *vrBlock, icb []byte, x []byte) []byte {
	cb := append([]byte{}, icb...)
	out := make([]byte, len(x))
	var ks [16]byte
	for i := 0; i < len(x); i += 16 {
		b.Encrypt(ks[:], cb)
		for j := 0; j < 16 && i+j < len(x); j++ {
			out[i+j] = x[i+j] ^ ks[j]
		}
		vrInc32(cb)
	}
	return out
}

func vrJ0(b *vrBlock, h vrG128, iv []byte) []byte {
	if len(iv) == 12 {
		return append(append([]byte{}, iv...), 0, 0, 0, 1)
	}
	d := vrPad16(iv)
	d = append(d, make([]byte, 8)...)
	d = append(d, vrLen64(len(iv))...)
	return vrGHash(h, vrG128{}, d).bytes()
}

// vrGCMSeal is Algorithm 4 (GCM-AE): returns C || T with T truncated to tagSize bytes.
func vrGCMSeal(key, iv, pt, aad []byte, tagSize int) []byte {
	b := vrNewBlock(key)
	var hb [16]byte
	b.Encrypt(hb[:], hb[:])
	h := vrLoad128(hb[:])
	j0 := vrJ0(b, h, iv)
	icb := append([]byte{}, j0...)
	vrInc32(icb)
	c := vrGCTR(b, icb, pt)
	d := vrPad16(aad)
	d = append(d, vrPad16(c)...)
	d = append(d, vrLen64(len(aad))...)
	d = append(d, vrLen64(len(c))...)
	s := vrGHash(h, vrG128{}, d).bytes()
	t := vrGCTR(b, j0, s)
	return append(c, t[:tagSize]...)
}

// vrStdSeal computes the same with crypto/cipher's generic GCM over the reference
// block cipher; ok=false if the standard library cannot express the parameters.
func vrStdSeal(key, iv, pt, aad []byte, tagSize int) (out []byte, ok bool) {
	b := vrNewBlock(key)
	var a cipher.AEAD
	var err error
	switch {
	case len(iv) == 12 && tagSize == 16:
		a, err = cipher.NewGCM(b)
	case tagSize == 16:
		a, err = cipher.NewGCMWithNonceSize(b, len(iv))
	case len(iv) == 12:
		a, err = cipher.NewGCMWithTagSize(b, tagSize)
	default:
		return nil, false
	}
	if err != nil {
		return nil, false
	}
	return a.Seal(nil, iv, pt, aad), true
}

// vrExpected returns the reference ciphertext||tag. The two references must agree.
func vrExpected(key, iv, pt, aad []byte, tagSize int) []byte {
	mine := vrGCMSeal(key, iv, pt, aad, tagSize)
	if std, ok := vrStdSeal(key, iv, pt, aad, tagSize); ok && !bytes.Equal(std, mine) {
		panic(fmt.Sprintf("REFERENCE BUG: SP800-38D reference and crypto/cipher generic GCM disagree: key=%x iv=%x pt=%x aad=%x tag=%d", key, iv, pt, aad, tagSize))
	}
	return mine
}

// vrGInv returns x^-1 in GF(2^128) (x^(2^128-2)).
func vrGInv(x vrG128) vrG128 {
	r := vrG128{hi: 1 << 63} // the element 1
	sq := x
	for i := 1; i < 128; i++ { // exponent bits 1..127 are set
		sq = vrGMul(sq, sq)
		r = vrGMul(r, sq)
	}
	return r
}

// vrNonceForJ0 solves GHASH_H(N || 0^64 || [128]_64) = j0 for a 16-byte nonce N:
// j0 = (N.H ^ L).H  =>  N = (j0.H^-1 ^ L).H^-1.
func vrNonceForJ0(key []byte, j0 []byte) []byte {
	b := vrNewBlock(key)
	var hb [16]byte
	b.Encrypt(hb[:], hb[:])
	h := vrLoad128(hb[:])
	hi := vrGInv(h)
	l := vrLoad128(append(make([]byte, 8), vrLen64(16)...))
	t := vrGMul(vrLoad128(j0), hi)
	t.hi ^= l.hi
	t.lo ^= l.lo
	n := vrGMul(t, hi).bytes()
	if !bytes.Equal(vrJ0(b, h, n), j0) {
		panic("REFERENCE BUG: nonce solving")
	}
	return n
}

func vrSelfTest(t *testing.T) {
	var seen [256]bool
	for _, v := range vrSbox {
		if seen[v] {
			t.Fatal("reference S-box is not a permutation")
		}
		seen[v] = true
	}
	if vrCK(0) != 0x00070e15 || vrCK(1) != 0x1c232a31 || vrCK(31) != 0x646b7279 {
		t.Fatal("reference CK wrong")
	}
	key := vrUnhex("0123456789abcdeffedcba9876543210")
	b := vrNewBlock(key)
	if b.enc[0] != 0xf12186f9 || b.enc[31] != 0x9124a012 {
		t.Fatalf("reference key schedule wrong: %08x %08x", b.enc[0], b.enc[31])
	}
	x := append([]byte{}, key...)
	b.Encrypt(x, x)
	if vrHex(x) != "681edf34d206965e86b3e94f536e4246" {
		t.Fatalf("reference SM4 wrong on example 1: %x", x)
	}
	y := append([]byte{}, x...)
	b.Decrypt(y, y)
	if !bytes.Equal(y, key) {
		t.Fatal("reference SM4 decrypt wrong")
	}
	for i := 1; i < 1000000; i++ {
		b.Encrypt(x, x)
	}
	if vrHex(x) != "595298c7c6fd271f0402f804c33d3f66" {
		t.Fatalf("reference SM4 wrong on example 2 (1,000,000 iterations): %x", x)
	}
	// GF(2^128): test case 2 of the GCM specification, X1 = C1 . H
	h := vrLoad128(vrUnhex("66e94bd4ef8a2c3b884cfa59ca342b2e"))
	c1 := vrLoad128(vrUnhex("0388dace60b6a392f328c2b971b2fe78"))
	if vrHex(vrGMul(c1, h).bytes()) != "5e2ec746917062882c85b0685353deb7" {
		t.Fatal("reference GF(2^128) multiplication wrong")
	}
	one := vrG128{hi: 1 << 63}
	if vrGMul(vrGMul(h, vrGInv(h)), c1) != c1 || vrGMul(one, c1) != c1 {
		t.Fatal("reference GF(2^128) inversion wrong")
	}
	// both GCM references agree on a spread of parameters
	r := rand.New(rand.NewSource(12345))
	for i := 0; i < 60; i++ {
		k, iv := vrBytes(r, 16), vrBytes(r, []int{12, 12, 1, 8, 16, 17, 33}[i%7])
		ts := 16
		if len(iv) == 12 && i%2 == 0 {
			ts = 12 + i%5
		}
		vrExpected(k, iv, vrBytes(r, r.Intn(100)), vrBytes(r, r.Intn(40)), ts)
	}
}

// ---------------------------------------------------------------- cases: block cipher

func vrKeys(c *vrCase, n int) [][]byte {
	ks := [][]byte{
		vrUnhex("0123456789abcdeffedcba9876543210"),
		make([]byte, 16),
		bytes.Repeat([]byte{0xff}, 16),
		vrUnhex("fedcba98765432100123456789abcdef"),
		vrUnhex("80000000000000000000000000000000"),
		vrUnhex("00000000000000000000000000000001"),
	}
	for i := 0; i < n; i++ {
		ks = append(ks, vrBytes(c.rng, 16))
	}
	return ks
}

func vrBlocks(c *vrCase, n int) [][]byte {
	bs := [][]byte{
		vrUnhex("0123456789abcdeffedcba9876543210"),
		make([]byte, 16),
		bytes.Repeat([]byte{0xff}, 16),
		vrUnhex("000102030405060708090a0b0c0d0e0f"),
		vrUnhex("80000000000000000000000000000001"),
	}
	for i := 0; i < n; i++ {
		bs = append(bs, vrBytes(c.rng, 16))
	}
	return bs
}

func vrCaseBlock(c *vrCase) {
	type mk struct {
		name string
		f    func([]byte) (cipher.Block, error)
	}
	for _, m := range []mk{{"NewCipher", NewCipher}, {"newCipherGeneric", newCipherGeneric}} {
		for _, key := range vrKeys(c, c.n/8+2) {
			key0 := append([]byte{}, key...)
			ref := vrNewBlock(key)
			var blk cipher.Block
			var err error
			in0 := fmt.Sprintf(`{"ctor":"%s","key":"%s"`, m.name, vrHex(key))
			if p := vrTry(func() { blk, err = m.f(key) }); p != "" || err != nil || blk == nil {
				c.check(false, in0+"}", fmt.Sprintf("%s err=%v", p, err), "cipher")
				continue
			}
			c.check(blk.BlockSize() == 16, in0+`,"op":"BlockSize"}`, blk.BlockSize(), 16)
			for _, src := range vrBlocks(c, 6) {
				for _, dec := range []bool{false, true} {
					for _, inplace := range []bool{false, true} {
						want := make([]byte, 16)
						if dec {
							ref.Decrypt(want, src)
						} else {
							ref.Encrypt(want, src)
						}
						// buffers longer than one block: only 16 bytes may be written
						sbuf := append(append([]byte{}, src...), 0xa5, 0xa5, 0xa5, 0xa5)
						dbuf := bytes.Repeat([]byte{0x5a}, 24)
						s, d := sbuf, dbuf
						if inplace {
							d = sbuf
						}
						in := fmt.Sprintf(`%s,"op":"%s","inplace":%v,"src":"%s"}`, in0, map[bool]string{false: "Encrypt", true: "Decrypt"}[dec], inplace, vrHex(src))
						p := vrTry(func() {
							if dec {
								blk.Decrypt(d, s)
							} else {
								blk.Encrypt(d, s)
							}
						})
						if p != "" {
							c.check(false, in, p, vrHex(want))
							continue
						}
						ok := bytes.Equal(d[:16], want)
						if ok && !inplace && (!bytes.Equal(s[:16], src) || !bytes.Equal(d[16:], bytes.Repeat([]byte{0x5a}, 8))) {
							c.check(false, in, "src modified or bytes beyond dst[16] written", "only dst[:16] written")
							continue
						}
						if ok && !bytes.Equal(sbuf[16:], []byte{0xa5, 0xa5, 0xa5, 0xa5}) {
							c.check(false, in, "bytes beyond the block modified", "only 16 bytes written")
							continue
						}
						c.check(ok, in, vrHex(d[:16]), vrHex(want))
					}
				}
			}
			if !bytes.Equal(key, key0) {
				c.check(false, in0+"}", "key modified", "key unchanged")
			}
			// the portable two-block routines, on the generic struct
			if g, ok := blk.(*sm4Cipher); ok {
				for i := 0; i < 4; i++ {
					src := vrBytes(c.rng, 32)
					want := make([]byte, 32)
					ref.Encrypt(want, src)
					ref.Encrypt(want[16:], src[16:])
					got := make([]byte, 32)
					p := vrTry(func() { encryptX2(g, got, src) })
					c.check(p == "" && bytes.Equal(got, want), fmt.Sprintf(`%s,"op":"encryptX2","src":"%s"}`, in0, vrHex(src)), p+vrHex(got), vrHex(want))
					back := make([]byte, 32)
					p = vrTry(func() { decryptX2(g, back, want) })
					c.check(p == "" && bytes.Equal(back, src), fmt.Sprintf(`%s,"op":"decryptX2","src":"%s"}`, in0, vrHex(want)), p+vrHex(back), vrHex(src))
				}
			}
		}
	}
	// histories on a reused key buffer: construct, overwrite the key buffer in place (another key, zeros, the first key
	// again), construct again; every cipher must keep working under the key its constructor saw - the cipher may
	// neither read the key slice later nor remember it for the next construction
	for _, m := range []mk{{"NewCipher", NewCipher}, {"newCipherGeneric", newCipherGeneric}} {
		buf := make([]byte, 16)
		type made struct {
			blk cipher.Block
			key []byte
		}
		var all []made
		keys := vrKeys(c, 4)
		seq := [][]byte{keys[0], keys[1], make([]byte, 16), keys[0], keys[2], keys[1]}
		src := vrBytes(c.rng, 16)
		for step, k := range seq {
			copy(buf, k)
			var blk cipher.Block
			var err error
			in0 := fmt.Sprintf(`{"ctor":"%s","history":"step %d on a reused key buffer","key":"%s"`, m.name, step, vrHex(k))
			if p := vrTry(func() { blk, err = m.f(buf) }); p != "" || err != nil || blk == nil {
				c.check(false, in0+"}", fmt.Sprintf("%s err=%v", p, err), "cipher")
				continue
			}
			all = append(all, made{blk, append([]byte{}, k...)})
			// every cipher made so far, checked after the buffer has changed again
			for j, mdd := range all {
				want := make([]byte, 16)
				vrNewBlock(mdd.key).Encrypt(want, src)
				got := make([]byte, 16)
				p := vrTry(func() { mdd.blk.Encrypt(got, src) })
				c.check(p == "" && bytes.Equal(got, want), fmt.Sprintf(`%s,"op":"Encrypt with the cipher of step %d (key %s)","src":"%s"}`, in0, j, vrHex(mdd.key), vrHex(src)), p+vrHex(got), vrHex(want))
				back := make([]byte, 16)
				p = vrTry(func() { mdd.blk.Decrypt(back, want) })
				c.check(p == "" && bytes.Equal(back, src), fmt.Sprintf(`%s,"op":"Decrypt with the cipher of step %d","src":"%s"}`, in0, j, vrHex(want)), p+vrHex(back), vrHex(src))
			}
		}
	}
	// key sizes other than 16 are rejected with an error (no panic), nil cipher
	for _, l := range []int{0, 1, 8, 15, 17, 24, 32, 64} {
		key := vrBytes(c.rng, l)
		var blk cipher.Block
		var err error
		in := fmt.Sprintf(`{"ctor":"NewCipher","keylen":%d,"key":"%s"}`, l, vrHex(key))
		if p := vrTry(func() { blk, err = NewCipher(key) }); p != "" {
			c.check(false, in, p, "error")
			continue
		}
		c.check(err != nil && blk == nil, in, fmt.Sprintf("err=%v,nil=%v", err, blk == nil), "err!=nil,nil=true")
	}
	var blk cipher.Block
	var err error
	p := vrTry(func() { blk, err = NewCipher(nil) })
	c.check(p == "" && err != nil && blk == nil, `{"ctor":"NewCipher","key":null}`, fmt.Sprintf("%s err=%v", p, err), "err!=nil")
}

// Block.short: a source or destination shorter than one block must make
// Encrypt/Decrypt panic (as every cipher.Block of the standard library does); it
// must never silently read or write beyond the slice. The short slices used here
// sit inside larger arrays, so that an over-read/over-write stays inside mapped
// memory and can be observed. Expected to fail on the current code.
func vrCaseBlockShort(c *vrCase) {
	key := vrUnhex("0123456789abcdeffedcba9876543210")
	type mk struct {
		name string
		f    func([]byte) (cipher.Block, error)
	}
	for _, m := range []mk{{"NewCipher", NewCipher}, {"newCipherGeneric", newCipherGeneric}} {
		blk, _ := m.f(key)
		for _, dec := range []bool{false, true} {
			for _, sl := range []int{0, 1, 8, 15, 16} {
				for _, dl := range []int{0, 1, 8, 15, 16} {
					if sl == 16 && dl == 16 {
						continue
					}
					sback := vrBytes(c.rng, 48)
					dback := bytes.Repeat([]byte{0x5a}, 48)
					src, dst := sback[:sl], dback[:dl]
					in := fmt.Sprintf(`{"ctor":"%s","op":"%s","len(src)":%d,"len(dst)":%d}`, m.name, map[bool]string{false: "Encrypt", true: "Decrypt"}[dec], sl, dl)
					p := vrTry(func() {
						if dec {
							blk.Decrypt(dst, src)
						} else {
							blk.Encrypt(dst, src)
						}
					})
					wrote := !bytes.Equal(dback[dl:], bytes.Repeat([]byte{0x5a}, 48-dl))
					got := "no panic"
					if p != "" {
						got = "panic"
					}
					if wrote {
						got += ",wrote beyond len(dst)"
					}
					c.check(p != "" && !wrote, in, got, "panic,nothing written beyond len(dst)")
				}
			}
		}
	}
}

// ---------------------------------------------------------------- cases: assembly kernels

func vrKernelCase(lanes int, f func(rk *uint32, dst, src *byte)) func(c *vrCase) {
	return func(c *vrCase) {
		if !candoAsm {
			c.skip = "cpu-lacks-features"
			return
		}
		n := 16 * lanes
		one := func(key, src []byte, dec, inplace bool) {
			ref := vrNewBlock(key)
			rk := ref.enc
			if dec {
				rk = ref.dec
			}
			want := make([]byte, n)
			for l := 0; l < lanes; l++ {
				vrCrypt(&rk, want[16*l:16*l+16], src[16*l:16*l+16])
			}
			rk0 := rk
			sbuf := append(append([]byte{}, src...), bytes.Repeat([]byte{0xa5}, 64)...)
			dbuf := bytes.Repeat([]byte{0x5a}, n+64)
			d := dbuf
			if inplace {
				d = sbuf
			}
			in := fmt.Sprintf(`{"key":"%s","dec":%v,"inplace":%v,"src":"%s"}`, vrHex(key), dec, inplace, vrHex(src))
			if p := vrTry(func() { f(&rk[0], &d[0], &sbuf[0]) }); p != "" {
				c.check(false, in, p, vrHex(want))
				return
			}
			ok := bytes.Equal(d[:n], want)
			if ok && (!bytes.Equal(d[n:], bytes.Repeat([]byte{d[n]}, 64)) || (d[n] != 0x5a && d[n] != 0xa5)) {
				c.check(false, in, "bytes beyond the output written", "exactly "+strconv.Itoa(n)+" bytes written")
				return
			}
			if ok && !inplace && !bytes.Equal(sbuf[:n], src) {
				c.check(false, in, "src modified", "src unchanged")
				return
			}
			if ok && rk != rk0 {
				c.check(false, in, "round keys modified", "round keys unchanged")
				return
			}
			c.check(ok, in, vrHex(d[:n]), vrHex(want))
		}
		keys := vrKeys(c, c.n/10+2)
		for ki, key := range keys {
			// every lane holds the same block / distinct blocks / boundary blocks
			var srcs [][]byte
			srcs = append(srcs, bytes.Repeat(vrUnhex("0123456789abcdeffedcba9876543210"), lanes))
			srcs = append(srcs, make([]byte, n), bytes.Repeat([]byte{0xff}, n))
			ctr := make([]byte, n) // lane l = counter block l (distinct per lane)
			for l := 0; l < lanes; l++ {
				ctr[16*l+15] = byte(l)
				ctr[16*l] = byte(0xf0 | l&0xf)
			}
			srcs = append(srcs, ctr)
			for i := 0; i < 3; i++ {
				srcs = append(srcs, vrBytes(c.rng, n))
			}
			for si, src := range srcs {
				one(key, src, false, false)
				one(key, src, true, false)
				if (ki+si)%2 == 0 {
					one(key, src, false, true)
					one(key, src, true, true)
				}
			}
		}
	}
}

func vrCaseExpandKeyAsm(c *vrCase) {
	if !candoAsm {
		c.skip = "cpu-lacks-features"
		return
	}
	for _, key := range vrKeys(c, c.n) {
		want := vrExpand(key)
		wantDec := vrReverse(want)
		var enc, dec [34]uint32 // one guard word on each side
		for i := range enc {
			enc[i] = 0xdeadbeef
			dec[i] = 0xfeedface
		}
		kbuf := append(append([]byte{}, key...), 0xa5, 0xa5)
		in := fmt.Sprintf(`{"key":"%s"}`, vrHex(key))
		if p := vrTry(func() { expandKeyAsm(&kbuf[0], &enc[1], &dec[1]) }); p != "" {
			c.check(false, in, p, fmt.Sprintf("%08x", want))
			continue
		}
		var ge, gd [32]uint32
		copy(ge[:], enc[1:33])
		copy(gd[:], dec[1:33])
		guards := enc[0] == 0xdeadbeef && enc[33] == 0xdeadbeef && dec[0] == 0xfeedface && dec[33] == 0xfeedface && bytes.Equal(kbuf[:16], key)
		if ge == want && gd == wantDec && !guards {
			c.check(false, in, "guard words or key modified", "only enc[0:32], dec[0:32] written")
			continue
		}
		c.check(ge == want && gd == wantDec, in, fmt.Sprintf("enc=%08x,dec=%08x", ge, gd), fmt.Sprintf("enc=%08x,dec=%08x", want, wantDec))
	}
	// the portable key expansion
	for _, key := range vrKeys(c, 8) {
		want := vrExpand(key)
		var enc, dec [32]uint32
		expandKey(key, &enc, &dec)
		c.check(enc == want && dec == vrReverse(want), fmt.Sprintf(`{"key":"%s","func":"expandKey"}`, vrHex(key)), fmt.Sprintf("enc=%08x", enc), fmt.Sprintf("enc=%08x", want))
	}
}

// gHashBlocks(H, tag, data, count): tag = GHASH continuation, for each 16-byte
// block X of data: tag = (tag ^ X) . H.
func vrCaseGHashBlocks(c *vrCase) {
	if !candoAsm {
		c.skip = "cpu-lacks-features"
		return
	}
	one := func(h, tag0, data []byte) {
		count := len(data) / 16
		want := vrGHash(vrLoad128(h), vrLoad128(tag0), data).bytes()
		hb := append([]byte{}, h...)
		tag := append(append([]byte{}, tag0...), 0xa5, 0xa5, 0xa5, 0xa5)
		db := append(append([]byte{}, data...), bytes.Repeat([]byte{0xa5}, 16)...)
		in := fmt.Sprintf(`{"H":"%s","tag":"%s","count":%d,"data":"%s"}`, vrHex(h), vrHex(tag0), count, vrHex(data))
		if p := vrTry(func() { gHashBlocks(&hb[0], &tag[0], &db[0], count) }); p != "" {
			c.check(false, in, p, vrHex(want))
			return
		}
		ok := bytes.Equal(tag[:16], want)
		if ok && (!bytes.Equal(hb, h) || !bytes.Equal(db[:len(data)], data) || !bytes.Equal(tag[16:], []byte{0xa5, 0xa5, 0xa5, 0xa5})) {
			c.check(false, in, "H, data or bytes after tag modified", "only tag[:16] written")
			return
		}
		c.check(ok, in, vrHex(tag[:16]), vrHex(want))
	}
	one(vrUnhex("66e94bd4ef8a2c3b884cfa59ca342b2e"), make([]byte, 16), vrUnhex("0388dace60b6a392f328c2b971b2fe78"))
	one(vrUnhex("80000000000000000000000000000000"), make([]byte, 16), vrUnhex("0388dace60b6a392f328c2b971b2fe78"))
	for _, hs := range []string{"00000000000000000000000000000000", "ffffffffffffffffffffffffffffffff", "00000000000000000000000000000001", "e1000000000000000000000000000000"} {
		for count := 1; count <= 5; count++ {
			one(vrUnhex(hs), vrBytes(c.rng, 16), vrBytes(c.rng, 16*count))
			one(vrBytes(c.rng, 16), vrUnhex(hs), bytes.Repeat(vrUnhex(hs), count))
		}
	}
	for count := 1; count <= 40; count++ {
		one(vrBytes(c.rng, 16), vrBytes(c.rng, 16), vrBytes(c.rng, 16*count))
	}
	for i := 0; i < c.n; i++ {
		one(vrBytes(c.rng, 16), vrBytes(c.rng, 16), vrBytes(c.rng, 16*(1+c.rng.Intn(70))))
	}
}

// ---------------------------------------------------------------- cases: GCM

var vrErrUnsupported = errors.New("parameters not expressible on the generic path")

// vrRealAEAD builds the AEAD of the package under test.
func vrRealAEAD(key []byte, nonceSize, tagSize int) (cipher.AEAD, error) {
	blk, err := NewCipher(key)
	if err != nil {
		return nil, err
	}
	if g, ok := blk.(interface {
		NewGCM(int, int) (cipher.AEAD, error)
	}); ok {
		return g.NewGCM(nonceSize, tagSize)
	}
	switch {
	case nonceSize == 12 && tagSize == 16:
		return cipher.NewGCM(blk)
	case tagSize == 16:
		return cipher.NewGCMWithNonceSize(blk, nonceSize)
	case nonceSize == 12:
		return cipher.NewGCMWithTagSize(blk, tagSize)
	}
	return nil, vrErrUnsupported
}

type vrGcmIn struct {
	key, nonce, pt, aad []byte
	tagSize             int
}

func (g vrGcmIn) String() string {
	return fmt.Sprintf(`{"key":"%s","nonce":"%s","tagSize":%d,"aadLen":%d,"aad":"%s","ptLen":%d,"pt":"%s"}`,
		vrHex(g.key), vrHex(g.nonce), g.tagSize, len(g.aad), vrHex(g.aad), len(g.pt), vrHex(g.pt))
}

var vrAadLens = func() []int {
	var l []int
	for i := 0; i <= 40; i++ {
		l = append(l, i)
	}
	return append(l, 127, 128, 129, 255, 256, 257)
}()

var vrNonceSizes = func() []int {
	l := []int{12}
	for i := 1; i <= 20; i++ {
		l = append(l, i)
	}
	return append(l, 127, 128, 129)
}()

func vrGcmBytes(c *vrCase, n int) []byte {
	switch c.rng.Intn(12) {
	case 0:
		return make([]byte, n)
	case 1:
		return bytes.Repeat([]byte{0xff}, n)
	}
	return vrBytes(c.rng, n)
}

// vrGcmInputs enumerates the GCM test inputs: every plaintext length 0..300, every
// aad length, every nonce size, every tag size, random ones up to 1100 bytes, and a few long ones (up to 64 KiB).
func vrGcmInputs(c *vrCase, f func(g vrGcmIn)) {
	keys := vrKeys(c, 6)
	mk := func(ptLen, aadLen, nonceSize, tagSize int) {
		key := keys[c.rng.Intn(len(keys))]
		if c.rng.Intn(2) == 0 {
			key = vrBytes(c.rng, 16)
		}
		g := vrGcmIn{key: key, nonce: vrGcmBytes(c, nonceSize), pt: vrGcmBytes(c, ptLen), aad: vrGcmBytes(c, aadLen), tagSize: tagSize}
		if c.rng.Intn(4) == 0 {
			g.aad = nil
		}
		if ptLen == 0 && c.rng.Intn(2) == 0 {
			g.pt = nil
		}
		f(g)
	}
	pick := func(l []int) int { return l[c.rng.Intn(len(l))] }
	for ptLen := 0; ptLen <= 300; ptLen++ {
		mk(ptLen, 16, 12, 16)
		mk(ptLen, pick(vrAadLens), pick(vrNonceSizes), 12+c.rng.Intn(5))
	}
	for _, aadLen := range vrAadLens {
		for _, ptLen := range []int{0, 1, 16, 33} {
			mk(ptLen, aadLen, 12, 16)
		}
		mk(c.rng.Intn(80), aadLen, pick(vrNonceSizes), 12+c.rng.Intn(5))
	}
	for _, ns := range vrNonceSizes {
		for ts := 12; ts <= 16; ts++ {
			mk([]int{0, 15, 16, 17, 64, 100}[c.rng.Intn(6)], pick(vrAadLens), ns, ts)
		}
		mk(0, 0, ns, 16)
		mk(257, 0, ns, 16)
	}
	// lengths around the 4/8/16-block kernels
	for _, blocks := range []int{1, 2, 3, 4, 5, 7, 8, 9, 15, 16, 17, 31, 32, 33, 48, 64, 65} {
		for d := -1; d <= 1; d++ {
			mk(16*blocks+d, 13, 12, 16)
		}
	}
	// a few long messages and long aad (many iterations of the 16-block loop, counter bytes carrying)
	for _, ptLen := range []int{2048, 4095, 4096, 4097, 8192 + 13, 65536 + 255} {
		mk(ptLen, 13, 12, 16)
	}
	mk(100, 4097, 12, 16)
	mk(4096+5, 2048, 12, 13)
	for i := 0; i < c.n; i++ {
		mk(c.rng.Intn(1101), []int{0, pick(vrAadLens), c.rng.Intn(600)}[c.rng.Intn(3)], []int{12, 12, pick(vrNonceSizes)}[c.rng.Intn(3)], []int{16, 16, 12 + c.rng.Intn(5)}[c.rng.Intn(3)])
	}
}

func vrCaseGcmSeal(c *vrCase) {
	vrGcmInputs(c, func(g vrGcmIn) {
		want := vrExpected(g.key, g.nonce, g.pt, g.aad, g.tagSize)
		a, err := vrRealAEAD(g.key, len(g.nonce), g.tagSize)
		if err == vrErrUnsupported {
			return
		}
		if err != nil {
			c.check(false, g.String(), fmt.Sprintf("NewGCM err=%v", err), vrHex(want))
			return
		}
		if a.NonceSize() != len(g.nonce) || a.Overhead() != g.tagSize {
			c.check(false, g.String(), fmt.Sprintf("NonceSize=%d,Overhead=%d", a.NonceSize(), a.Overhead()), fmt.Sprintf("NonceSize=%d,Overhead=%d", len(g.nonce), g.tagSize))
			return
		}
		var got []byte
		nonce, pt, aad := vrClone(g.nonce), vrClone(g.pt), vrClone(g.aad)
		if p := vrTry(func() { got = a.Seal(nil, nonce, pt, aad) }); p != "" {
			c.check(false, g.String(), p, vrHex(want))
			return
		}
		c.check(bytes.Equal(got, want), g.String(), vrHex(got), vrHex(want))
	})
}

// vrClone copies a slice into a fresh exact-size allocation, keeping nil-ness.
func vrClone(b []byte) []byte {
	if b == nil {
		return nil
	}
	out := make([]byte, len(b))
	copy(out, b)
	return out
}

func vrFlip(r *rand.Rand, b []byte) []byte {
	out := vrClone(b)
	bit := r.Intn(len(b) * 8)
	out[bit/8] ^= 1 << uint(bit%8)
	return out
}

func vrCaseGcmOpen(c *vrCase) {
	idx := 0
	vrGcmInputs(c, func(g vrGcmIn) {
		idx++
		ct := vrExpected(g.key, g.nonce, g.pt, g.aad, g.tagSize)
		a, err := vrRealAEAD(g.key, len(g.nonce), g.tagSize)
		if err == vrErrUnsupported {
			return
		}
		if err != nil {
			c.check(false, g.String(), fmt.Sprintf("NewGCM err=%v", err), "AEAD")
			return
		}
		// every call gets fresh copies: a known defect makes Open modify its ciphertext
		open := func(nonce, ct, aad []byte) (pt []byte, err error, p string) {
			n2, c2, a2 := vrClone(nonce), vrClone(ct), vrClone(aad)
			p = vrTry(func() { pt, err = a.Open(nil, n2, c2, a2) })
			return
		}
		in := fmt.Sprintf(`{"in":%s,"ct":"%s"`, g.String(), vrHex(ct))
		pt, err, p := open(g.nonce, ct, g.aad)
		if p != "" {
			c.check(false, in+`,"op":"open"}`, p, vrHex(g.pt))
			return
		}
		c.check(err == nil && bytes.Equal(pt, g.pt), in+`,"op":"open"}`, fmt.Sprintf("err=%v,pt=%s", err, vrHex(pt)), "err=<nil>,pt="+vrHex(g.pt))
		// tampering must be detected: error, nil plaintext, no panic
		bad := func(what string, nonce, ct, aad []byte) {
			pt, err, p := open(nonce, ct, aad)
			in := fmt.Sprintf(`%s,"op":"%s","nonce'":"%s","ct'":"%s","aad'":"%s"}`, in, what, vrHex(nonce), vrHex(ct), vrHex(aad))
			if p != "" {
				c.check(false, in, p, "err!=nil,pt=nil")
				return
			}
			c.check(err != nil && pt == nil, in, fmt.Sprintf("err=%v,pt==nil:%v,pt=%s", err, pt == nil, vrHex(pt)), "err!=nil,pt=nil")
		}
		nct := len(ct) - g.tagSize
		reps := 1
		if idx%8 == 0 {
			reps = 3
		}
		for r := 0; r < reps; r++ {
			if nct > 0 {
				t := vrClone(ct)
				bit := c.rng.Intn(nct * 8)
				t[bit/8] ^= 1 << uint(bit%8)
				bad("flip ciphertext bit", g.nonce, t, g.aad)
			}
			t := vrClone(ct)
			bit := c.rng.Intn(g.tagSize * 8)
			t[nct+bit/8] ^= 1 << uint(bit%8)
			bad("flip tag bit", g.nonce, t, g.aad)
			bad("flip nonce bit", vrFlip(c.rng, g.nonce), ct, g.aad)
			if len(g.aad) > 0 {
				bad("flip aad bit", g.nonce, ct, vrFlip(c.rng, g.aad))
			}
		}
		// first and last tag bit/byte explicitly (partial comparisons would miss them)
		for _, pos := range []int{nct, len(ct) - 1} {
			for _, m := range []byte{0x01, 0x80} {
				t := vrClone(ct)
				t[pos] ^= m
				bad("flip tag edge bit", g.nonce, t, g.aad)
			}
		}
		bad("extend aad", g.nonce, ct, append(vrClone(g.aad), 0))
		if len(g.aad) > 0 {
			bad("truncate aad", g.nonce, ct, g.aad[:len(g.aad)-1])
		}
		bad("truncate by 1", g.nonce, ct[:len(ct)-1], g.aad)
		bad("drop first byte", g.nonce, ct[1:], g.aad)
		bad("append byte", g.nonce, append(vrClone(ct), 0), g.aad)
		if idx%4 == 0 {
			for l := 0; l < g.tagSize; l++ { // shorter than the tag
				bad("shorter than tag", g.nonce, ct[len(ct)-l:], g.aad)
			}
			bad("empty", g.nonce, []byte{}, g.aad)
			bad("nil", g.nonce, nil, g.aad)
			if g.tagSize < 16 { // the remaining bytes of the full tag appended
				full := vrGCMSeal(g.key, g.nonce, g.pt, g.aad, 16)
				bad("full 16-byte tag under shorter tagSize", g.nonce, full, g.aad)
			}
		}
	})
}

// GCM.counter-wrap: 16-byte nonces solved so that the pre-counter block J0 has
// its 32-bit counter field close to 2^32: inc32 must wrap inside the low 32 bits
// without carrying into the upper 96 bits.
func vrCaseGcmWrap(c *vrCase) {
	one := func(key []byte, ctr uint32, ptLen int, tagSize int) {
		j0 := vrBytes(c.rng, 16)
		if c.rng.Intn(3) == 0 {
			copy(j0[8:12], []byte{0xff, 0xff, 0xff, 0xff}) // a carry out of the counter would be visible
		}
		vrPutBE32(j0[12:], ctr)
		nonce := vrNonceForJ0(key, j0)
		g := vrGcmIn{key: key, nonce: nonce, pt: vrBytes(c.rng, ptLen), aad: vrBytes(c.rng, c.rng.Intn(20)), tagSize: tagSize}
		want := vrExpected(g.key, g.nonce, g.pt, g.aad, g.tagSize)
		a, err := vrRealAEAD(key, 16, tagSize)
		if err == vrErrUnsupported {
			return
		}
		in := fmt.Sprintf(`{"J0":"%s","in":%s}`, vrHex(j0), g.String())
		if err != nil {
			c.check(false, in, fmt.Sprintf("NewGCM err=%v", err), vrHex(want))
			return
		}
		var got []byte
		if p := vrTry(func() { got = a.Seal(nil, vrClone(g.nonce), vrClone(g.pt), vrClone(g.aad)) }); p != "" {
			c.check(false, in+":Seal", p, vrHex(want))
			return
		}
		if !c.check(bytes.Equal(got, want), in+":Seal", vrHex(got), vrHex(want)) {
			return
		}
		var pt []byte
		if p := vrTry(func() { pt, err = a.Open(nil, vrClone(g.nonce), vrClone(want), vrClone(g.aad)) }); p != "" {
			c.check(false, in+":Open", p, vrHex(g.pt))
			return
		}
		c.check(err == nil && bytes.Equal(pt, g.pt), in+":Open", fmt.Sprintf("err=%v,pt=%s", err, vrHex(pt)), vrHex(g.pt))
	}
	keys := vrKeys(c, 2)
	for d := uint32(0); d <= 70; d++ {
		ctr := ^uint32(0) - d // J0 counter = 2^32-1-d: block number d+1 is the first after the wrap
		key := keys[int(d)%len(keys)]
		one(key, ctr, 16*int(d)+40, 16)
		if d < 20 {
			one(key, ctr, 16*int(d)+1, 12+int(d)%5)
			one(key, ctr, 0, 16)
			one(key, ctr, 1100, 16)
			one(key, ctr, 16*int(d+1), 16)
			one(key, ctr, 16*int(d+2)-1, 16)
		}
	}
	for i := 0; i < c.n/2; i++ {
		one(vrBytes(c.rng, 16), ^uint32(0)-uint32(c.rng.Intn(72)), c.rng.Intn(1101), 16)
	}
}

// GCM.dst: the AEAD append contract for every kind of dst: the result is dst
// followed by the output, whether or not dst has spare capacity, including the
// in-place idiom dst = in[:0]. Expected to fail on the current amd64 code.
func vrCaseGcmDst(c *vrCase) {
	type kind struct {
		name string
		// mk returns dst given the input slice `in` (already placed in a buffer with
		// spare capacity) and the number of output bytes.
		mk func(in []byte, outLen int) []byte
	}
	prefix := []byte("PREFIX--")
	kinds := []kind{
		{"nil (control)", func(in []byte, n int) []byte { return nil }},
		{"non-nil empty, cap 0", func(in []byte, n int) []byte { return []byte{} }},
		{"empty, cap exactly enough", func(in []byte, n int) []byte { return make([]byte, 0, n) }},
		{"empty, cap more than enough", func(in []byte, n int) []byte { return make([]byte, 0, n+37) }},
		{"empty, cap one short", func(in []byte, n int) []byte {
			if n == 0 {
				return make([]byte, 0)
			}
			return make([]byte, 0, n-1)
		}},
		{"8-byte prefix, cap == len", func(in []byte, n int) []byte { return append(make([]byte, 0, 8), prefix...) }},
		{"8-byte prefix, cap exactly enough", func(in []byte, n int) []byte { return append(make([]byte, 0, 8+n), prefix...) }},
		{"8-byte prefix, cap more than enough", func(in []byte, n int) []byte { return append(make([]byte, 0, 8+n+100), prefix...) }},
		{"in-place dst=in[:0]", func(in []byte, n int) []byte { return in[:0] }},
	}
	keys := vrKeys(c, 2)
	ptLens := []int{16, 0, 1, 15, 17, 32, 64, 100, 256, 257}
	for i := 0; i < c.n/20; i++ {
		ptLens = append(ptLens, c.rng.Intn(600))
	}
	for _, ptLen := range ptLens {
		for _, k := range kinds {
			for _, tagSize := range []int{16, 12} {
				g := vrGcmIn{key: keys[ptLen%len(keys)], nonce: vrBytes(c.rng, 12), pt: vrBytes(c.rng, ptLen), aad: vrBytes(c.rng, 13), tagSize: tagSize}
				ct := vrExpected(g.key, g.nonce, g.pt, g.aad, g.tagSize)
				a, err := vrRealAEAD(g.key, 12, tagSize)
				if err == vrErrUnsupported {
					continue
				}
				if err != nil {
					c.check(false, g.String(), fmt.Sprintf("NewGCM err=%v", err), "AEAD")
					continue
				}
				// Seal
				{
					in := append(make([]byte, 0, ptLen+tagSize+64), g.pt...) // room for the in-place idiom
					dst := k.mk(in, ptLen+tagSize)
					want := append(vrClone(dst), ct...)
					if want == nil {
						want = ct
					}
					desc := fmt.Sprintf(`{"op":"Seal","dst":"%s","len(dst)":%d,"cap(dst)":%d,"in":%s}`, k.name, len(dst), cap(dst), g.String())
					var got []byte
					if p := vrTry(func() { got = a.Seal(dst, vrClone(g.nonce), in, vrClone(g.aad)) }); p != "" {
						c.check(false, desc, p, vrHex(want))
					} else {
						c.check(bytes.Equal(got, want), desc, vrHex(got), vrHex(want))
					}
				}
				// Open
				{
					in := append(make([]byte, 0, len(ct)+64), ct...)
					dst := k.mk(in, ptLen)
					want := append(vrClone(dst), g.pt...)
					desc := fmt.Sprintf(`{"op":"Open","dst":"%s","len(dst)":%d,"cap(dst)":%d,"in":%s,"ct":"%s"}`, k.name, len(dst), cap(dst), g.String(), vrHex(ct))
					var got []byte
					var err error
					if p := vrTry(func() { got, err = a.Open(dst, vrClone(g.nonce), in, vrClone(g.aad)) }); p != "" {
						c.check(false, desc, p, "err=<nil>,"+vrHex(want))
					} else {
						c.check(err == nil && bytes.Equal(got, want), desc, fmt.Sprintf("err=%v,%s", err, vrHex(got)), "err=<nil>,"+vrHex(want))
					}
				}
			}
		}
	}
}

// GCM.inputs-unmodified: Seal and Open leave nonce, plaintext/ciphertext and
// additional data byte-for-byte unchanged, so that repeating the call on the same
// buffers gives the same answer. Expected to fail on the current amd64 code for
// Open (the tag bytes of the ciphertext are overwritten).
func vrCaseGcmInputs(c *vrCase) {
	keys := vrKeys(c, 2)
	ptLens := []int{0, 1, 15, 16, 17, 31, 32, 33, 64, 100, 255, 256, 257}
	for i := 0; i < c.n/4; i++ {
		ptLens = append(ptLens, c.rng.Intn(1101))
	}
	for i, ptLen := range ptLens {
		tagSize := []int{16, 16, 12, 13, 15}[i%5]
		nonceSize := []int{12, 12, 16, 7}[i%4]
		g := vrGcmIn{key: keys[i%len(keys)], nonce: vrBytes(c.rng, nonceSize), pt: vrBytes(c.rng, ptLen), aad: vrBytes(c.rng, []int{0, 13, 16, 40}[i%4]), tagSize: tagSize}
		ct := vrExpected(g.key, g.nonce, g.pt, g.aad, g.tagSize)
		key := vrClone(g.key)
		blk, err := NewCipher(key)
		if err != nil {
			c.check(false, g.String(), err, "cipher")
			continue
		}
		a, err := vrRealAEAD(g.key, nonceSize, tagSize)
		if err == vrErrUnsupported {
			continue
		}
		if err != nil {
			c.check(false, g.String(), fmt.Sprintf("NewGCM err=%v", err), "AEAD")
			continue
		}
		_ = blk
		diff := func(name string, a, b []byte) string {
			if bytes.Equal(a, b) {
				return ""
			}
			for j := range a {
				if a[j] != b[j] {
					return fmt.Sprintf("%s modified from byte %d: %s -> %s;", name, j, vrHex(b[j:]), vrHex(a[j:]))
				}
			}
			return name + " modified;"
		}
		// Seal
		{
			nonce, pt, aad := vrClone(g.nonce), vrClone(g.pt), vrClone(g.aad)
			desc := fmt.Sprintf(`{"op":"Seal","in":%s}`, g.String())
			if p := vrTry(func() { a.Seal(nil, nonce, pt, aad) }); p != "" {
				c.check(false, desc, p, "inputs unchanged")
			} else {
				d := diff("nonce", nonce, g.nonce) + diff("plaintext", pt, g.pt) + diff("aad", aad, g.aad) + diff("key", key, g.key)
				c.check(d == "", desc, d, "inputs unchanged")
			}
		}
		// Open, twice on the same buffers
		{
			nonce, ctb, aad := vrClone(g.nonce), vrClone(ct), vrClone(g.aad)
			desc := fmt.Sprintf(`{"op":"Open","in":%s,"ct":"%s"}`, g.String(), vrHex(ct))
			var pt1, pt2 []byte
			var e1, e2 error
			if p := vrTry(func() { pt1, e1 = a.Open(nil, nonce, ctb, aad) }); p != "" {
				c.check(false, desc, p, "inputs unchanged")
				continue
			}
			d := diff("nonce", nonce, g.nonce) + diff("ciphertext", ctb, ct) + diff("aad", aad, g.aad)
			c.check(d == "" && e1 == nil && bytes.Equal(pt1, g.pt), desc, fmt.Sprintf("err=%v;%s", e1, d), "err=<nil>;inputs unchanged")
			if p := vrTry(func() { pt2, e2 = a.Open(nil, nonce, ctb, aad) }); p != "" {
				c.check(false, desc+":second Open on the same buffers", p, "same answer")
				continue
			}
			c.check(e2 == nil && bytes.Equal(pt2, g.pt), desc+":second Open on the same buffers", fmt.Sprintf("err=%v,pt=%s", e2, vrHex(pt2)), "err=<nil>,pt="+vrHex(g.pt))
		}
		// a failing Open must not modify its inputs either
		{
			bad := vrClone(ct)
			bad[len(bad)-1] ^= 1
			nonce, ctb, aad := vrClone(g.nonce), vrClone(bad), vrClone(g.aad)
			desc := fmt.Sprintf(`{"op":"Open(tampered)","in":%s,"ct":"%s"}`, g.String(), vrHex(bad))
			if p := vrTry(func() { a.Open(nil, nonce, ctb, aad) }); p != "" {
				c.check(false, desc, p, "inputs unchanged")
				continue
			}
			d := diff("nonce", nonce, g.nonce) + diff("ciphertext", ctb, bad) + diff("aad", aad, g.aad)
			c.check(d == "", desc, d, "inputs unchanged")
		}
	}
}

func TestVerifReplay(t *testing.T) {
	vrSelfTest(t)
	e := vrNewEnv(t)
	// VERIF_SM4_GENERIC=1 forces the portable Go path behind NewCipher (the kernel
	// cases then report REPLAY-SKIP).
	if os.Getenv("VERIF_SM4_GENERIC") == "1" {
		saved := candoAsm
		candoAsm = false
		defer func() { candoAsm = saved }()
	}
	e.run("Block", vrCaseBlock)
	e.run("Block.short", vrCaseBlockShort)
	e.run("cryptoBlockAsm", vrKernelCase(1, cryptoBlockAsm))
	e.run("cryptoBlockAsmX2", vrKernelCase(2, cryptoBlockAsmX2))
	e.run("cryptoBlockAsmX4", vrKernelCase(4, cryptoBlockAsmX4))
	e.run("cryptoBlockAsmX8", vrKernelCase(8, cryptoBlockAsmX8))
	e.run("cryptoBlockAsmX16", vrKernelCase(16, cryptoBlockAsmX16))
	e.run("expandKeyAsm", vrCaseExpandKeyAsm)
	e.run("gHashBlocks", vrCaseGHashBlocks)
	e.run("GCM.Seal", vrCaseGcmSeal)
	e.run("GCM.Open", vrCaseGcmOpen)
	e.run("GCM.counter-wrap", vrCaseGcmWrap)
	e.run("GCM.dst", vrCaseGcmDst)
	e.run("GCM.inputs-unmodified", vrCaseGcmInputs)
	e.finish()
}
