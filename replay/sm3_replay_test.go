// Differential replay test for package sm3 (github.com/bilibili/smgo/sm3).
// Injected with `go test -overlay` as /repo/sm3/zz_replay_test.go; see run.sh.
// The reference (vrSM3) is written from GB/T 32905-2016 and validated on the
// standard's "abc" and 64-byte vectors before any comparison is made.

package sm3

import (
	"bytes"
	"encoding/hex"
	"fmt"
	"hash/fnv"
	"math/rand"
	"os"
	"strconv"
	"strings"
	"testing"
)

// ---------------------------------------------------------------- harness

type vrEnv struct {
	t    *testing.T
	seed int64
	n    int
	sel  map[string]bool // nil = all
	seen map[string]bool
}

type vrCase struct {
	env   *vrEnv
	name  string
	rng   *rand.Rand
	n     int
	runs  int
	fails int
	skip  string // non-empty: case could not run here (reason)
}

func vrNewEnv(t *testing.T) *vrEnv {
	e := &vrEnv{t: t, seed: 1, n: 200, seen: map[string]bool{}}
	if s := strings.TrimSpace(os.Getenv("VERIF_SEED")); s != "" {
		v, err := strconv.ParseInt(s, 10, 64)
		if err != nil {
			t.Fatalf("bad VERIF_SEED %q", s)
		}
		e.seed = v
	}
	if s := strings.TrimSpace(os.Getenv("VERIF_N")); s != "" {
		v, err := strconv.Atoi(s)
		if err != nil || v < 0 {
			t.Fatalf("bad VERIF_N %q", s)
		}
		e.n = v
	}
	if s := strings.TrimSpace(os.Getenv("VERIF_FUNCS")); s != "" && s != "all" {
		e.sel = map[string]bool{}
		for _, f := range strings.Split(s, ",") {
			if f = strings.TrimSpace(f); f != "" {
				e.sel[f] = true
			}
		}
	}
	return e
}

// run executes one case if selected. Every case gets its own generator that is
// derived from VERIF_SEED and the case name only, so that a single case
// selected with VERIF_FUNCS replays exactly the inputs of the full run.
func (e *vrEnv) run(name string, f func(c *vrCase)) {
	e.seen[name] = true
	if e.sel != nil && !e.sel[name] {
		return
	}
	h := fnv.New64a()
	h.Write([]byte(name))
	master := rand.New(rand.NewSource(e.seed))
	sub := master.Int63() ^ int64(h.Sum64()&0x7fffffffffffffff)
	c := &vrCase{env: e, name: name, rng: rand.New(rand.NewSource(sub)), n: e.n}
	func() {
		defer func() {
			if r := recover(); r != nil {
				c.fail("harness", fmt.Sprintf("panic:%v", r), "no panic")
			}
		}()
		f(c)
	}()
	if c.skip != "" {
		fmt.Printf("REPLAY-SKIP case=%s reason=%s\n", c.name, vrOneLine(c.skip))
	} else if c.fails == 0 {
		fmt.Printf("REPLAY-OK case=%s n=%d\n", c.name, c.runs)
	}
}

// runExtra is like run for cases that are outside the documented contract of the
// package (e.g. undocumented aliasing): they are not part of "all" and run only
// when named explicitly in VERIF_FUNCS.
func (e *vrEnv) runExtra(name string, f func(c *vrCase)) {
	if e.sel == nil {
		e.seen[name] = true
		return
	}
	e.run(name, f)
}

func (e *vrEnv) finish() {
	for f := range e.sel {
		if !e.seen[f] {
			fmt.Printf("REPLAY-UNKNOWN case=%s\n", f)
			e.t.Errorf("unknown case %q", f)
		}
	}
}

func vrOneLine(s string) string {
	s = strings.ReplaceAll(s, "\n", "\\n")
	s = strings.ReplaceAll(s, " ", "_")
	if len(s) > 6000 {
		s = s[:6000] + "...(truncated)"
	}
	if s == "" {
		s = "-"
	}
	return s
}

func (c *vrCase) fail(input, got, want string) {
	c.fails++
	c.env.t.Fail()
	if c.fails <= 5 {
		fmt.Printf("REPLAY-FAIL case=%s input=%s got=%s want=%s\n", c.name, vrOneLine(input), vrOneLine(got), vrOneLine(want))
	}
}

// check counts one comparison.
func (c *vrCase) check(ok bool, input string, got, want interface{}) bool {
	c.runs++
	if !ok {
		c.fail(input, fmt.Sprint(got), fmt.Sprint(want))
	}
	return ok
}

// vrTry runs f and converts a panic into a string.
func vrTry(f func()) (panicked string) {
	defer func() {
		if r := recover(); r != nil {
			panicked = fmt.Sprintf("panic:%v", r)
		}
	}()
	f()
	return ""
}

func vrHex(b []byte) string { return hex.EncodeToString(b) }

func vrBytes(r *rand.Rand, n int) []byte {
	b := make([]byte, n)
	r.Read(b)
	return b
}

// ---------------------------------------------------------------- reference SM3 (GB/T 32905)

func vrRotl(x uint32, n uint) uint32 {
	n %= 32
	if n == 0 {
		return x
	}
	return x<<n | x>>(32-n)
}

func vrP0(x uint32) uint32 { return x ^ vrRotl(x, 9) ^ vrRotl(x, 17) }
func vrP1(x uint32) uint32 { return x ^ vrRotl(x, 15) ^ vrRotl(x, 23) }

func vrT(j int) uint32 {
	if j <= 15 {
		return 0x79cc4519
	}
	return 0x7a879d8a
}

func vrFF(j int, x, y, z uint32) uint32 {
	if j <= 15 {
		return x ^ y ^ z
	}
	return (x & y) | (x & z) | (y & z)
}

func vrGG(j int, x, y, z uint32) uint32 {
	if j <= 15 {
		return x ^ y ^ z
	}
	return (x & y) | (^x & z)
}

// vrCF is the compression function V(i+1) = CF(V(i), B(i)).
func vrCF(v [8]uint32, blk []byte) [8]uint32 {
	var w [68]uint32
	var w1 [64]uint32
	for j := 0; j < 16; j++ {
		w[j] = uint32(blk[4*j])<<24 | uint32(blk[4*j+1])<<16 | uint32(blk[4*j+2])<<8 | uint32(blk[4*j+3])
	}
	for j := 16; j <= 67; j++ {
		w[j] = vrP1(w[j-16]^w[j-9]^vrRotl(w[j-3], 15)) ^ vrRotl(w[j-13], 7) ^ w[j-6]
	}
	for j := 0; j <= 63; j++ {
		w1[j] = w[j] ^ w[j+4]
	}
	a, b, c, d, e, f, g, h := v[0], v[1], v[2], v[3], v[4], v[5], v[6], v[7]
	for j := 0; j <= 63; j++ {
		ss1 := vrRotl(vrRotl(a, 12)+e+vrRotl(vrT(j), uint(j%32)), 7)
		ss2 := ss1 ^ vrRotl(a, 12)
		tt1 := vrFF(j, a, b, c) + d + ss2 + w1[j]
		tt2 := vrGG(j, e, f, g) + h + ss1 + w[j]
		d = c
		c = vrRotl(b, 9)
		b = a
		a = tt1
		h = g
		g = vrRotl(f, 19)
		f = e
		e = vrP0(tt2)
	}
	return [8]uint32{a ^ v[0], b ^ v[1], c ^ v[2], d ^ v[3], e ^ v[4], f ^ v[5], g ^ v[6], h ^ v[7]}
}

// vrSM3 hashes msg: padding (bit 1, k zero bits with l+1+k = 448 mod 512, 64-bit
// big-endian bit length), iteration over 512-bit blocks.
func vrSM3(msg []byte) [32]byte {
	l := uint64(len(msg)) * 8
	m := append([]byte{}, msg...)
	m = append(m, 0x80)
	for len(m)%64 != 56 {
		m = append(m, 0)
	}
	for i := 7; i >= 0; i-- {
		m = append(m, byte(l>>(8*uint(i))))
	}
	v := [8]uint32{0x7380166f, 0x4914b2b9, 0x172442d7, 0xda8a0600, 0xa96f30bc, 0x163138aa, 0xe38dee4d, 0xb0fb0e4e}
	for i := 0; i < len(m); i += 64 {
		v = vrCF(v, m[i:i+64])
	}
	var out [32]byte
	for i := 0; i < 8; i++ {
		out[4*i] = byte(v[i] >> 24)
		out[4*i+1] = byte(v[i] >> 16)
		out[4*i+2] = byte(v[i] >> 8)
		out[4*i+3] = byte(v[i])
	}
	return out
}

// vrSelfTest validates the reference on the two examples of GB/T 32905 annex A.
func vrSelfTest(t *testing.T) {
	d := vrSM3([]byte("abc"))
	if vrHex(d[:]) != "66c7f0f462eeedd9d1f2d46bdc10e4e24167c4875cf2f7a2297da02b8f4ba8e0" {
		t.Fatalf("reference SM3 wrong on abc: %x", d)
	}
	d = vrSM3(bytes.Repeat([]byte("abcd"), 16))
	if vrHex(d[:]) != "debe9ff92275b8a138604889c18e5a4d6fdb70e5387e5765293dcba39c0c5732" {
		t.Fatalf("reference SM3 wrong on (abcd)^16: %x", d)
	}
}

// ---------------------------------------------------------------- cases

// vrMsg produces a message of length n: random, or a boundary byte pattern.
func vrMsg(r *rand.Rand, n int, kind int) []byte {
	switch kind % 4 {
	case 0:
		return vrBytes(r, n)
	case 1:
		return make([]byte, n)
	case 2:
		return bytes.Repeat([]byte{0xff}, n)
	default:
		return bytes.Repeat([]byte{0x80}, n)
	}
}

func vrDesc(m []byte) string {
	if len(m) <= 80 {
		return fmt.Sprintf(`{"len":%d,"msg":"%s"}`, len(m), vrHex(m))
	}
	return fmt.Sprintf(`{"len":%d,"msg_head":"%s","msg_tail":"%s"}`, len(m), vrHex(m[:16]), vrHex(m[len(m)-16:]))
}

func vrLongLens(c *vrCase) []int {
	ls := []int{}
	for _, k := range []int{5, 8, 9, 16, 17, 64, 65, 128} { // lengths around multiples of 64 further out
		for d := -10; d <= 1; d++ {
			ls = append(ls, 64*k+d)
		}
	}
	for i := 0; i < c.n; i++ {
		ls = append(ls, 301+c.rng.Intn(4000))
	}
	return ls
}

func vrCaseSumSM3(c *vrCase) {
	one := func(m []byte) {
		m0 := append([]byte{}, m...)
		want := vrSM3(m)
		var got [Size]byte
		if p := vrTry(func() { got = SumSM3(m) }); p != "" {
			c.check(false, vrDesc(m0), p, vrHex(want[:]))
			return
		}
		if !bytes.Equal(m, m0) {
			c.check(false, vrDesc(m0), "input modified", "input unchanged")
			return
		}
		c.check(got == want, vrDesc(m0), vrHex(got[:]), vrHex(want[:]))
	}
	var gotNil [Size]byte
	wantNil := vrSM3(nil)
	if p := vrTry(func() { gotNil = SumSM3(nil) }); p != "" {
		c.check(false, `{"len":0,"msg":null}`, p, vrHex(wantNil[:]))
	} else {
		c.check(gotNil == wantNil, `{"len":0,"msg":null}`, vrHex(gotNil[:]), vrHex(wantNil[:]))
	}
	for n := 0; n <= 300; n++ {
		for k := 0; k < 4; k++ {
			one(vrMsg(c.rng, n, k))
		}
	}
	for i, n := range vrLongLens(c) {
		one(vrMsg(c.rng, n, i&7)) // mostly random, some patterns
	}
}

// Sum: one Write of the whole message into New(), then Sum(nil) / Sum(prefix).
func vrCaseSum(c *vrCase) {
	one := func(m []byte) {
		want := vrSM3(m)
		prefix := vrBytes(c.rng, c.rng.Intn(5))
		var got []byte
		p := vrTry(func() {
			h := New()
			h.Write(m)
			got = h.Sum(prefix)
		})
		w := append(append([]byte{}, prefix...), want[:]...)
		in := fmt.Sprintf(`{"prefix":"%s","write":%s}`, vrHex(prefix), vrDesc(m))
		if p != "" {
			c.check(false, in, p, vrHex(w))
			return
		}
		c.check(bytes.Equal(got, w), in, vrHex(got), vrHex(w))
	}
	for n := 0; n <= 300; n++ {
		one(vrMsg(c.rng, n, 0))
		one(vrMsg(c.rng, n, 2))
	}
	for i, n := range vrLongLens(c) {
		one(vrMsg(c.rng, n, i&7))
	}
}

// Write: the io.Writer contract, Write returns (len(data), nil).
func vrCaseWrite(c *vrCase) {
	lens := []int{0, 1, 2, 31, 32, 54, 55, 56, 57, 63, 64, 65, 119, 120, 127, 128, 129, 191, 192, 193, 1000}
	for i := 0; i < c.n; i++ {
		lens = append(lens, c.rng.Intn(300))
	}
	h := New()
	total := 0
	for _, n := range lens {
		data := vrBytes(c.rng, n)
		var gn int
		var gerr error
		in := fmt.Sprintf(`{"written_before":%d,"len":%d}`, total, n)
		if p := vrTry(func() { gn, gerr = h.Write(data) }); p != "" {
			c.check(false, in, p, fmt.Sprintf("n=%d,err=<nil>", n))
			h = New()
			total = 0
			continue
		}
		total += n
		c.check(gn == n && gerr == nil, in, fmt.Sprintf("n=%d,err=%v", gn, gerr), fmt.Sprintf("n=%d,err=<nil>", n))
	}
}

// History: random sequences of Write / Sum / Reset on one hash.Hash. Every
// Sum(prefix) must equal prefix ++ SM3(all bytes since the last Reset) and must
// not disturb the state. Lengths = 55 mod 64 at the moment of Sum are avoided
// here (they are covered by the cases SumSM3 and Sum) so that this case tests
// the state handling only; the return value of Write is checked by case Write.
func vrCaseHistory(c *vrCase) {
	hist := func(seqNo int) {
		var log []string
		h := New()
		var acc []byte
		if c.rng.Intn(2) == 0 { // start from a used and reset state
			h.Write(vrBytes(c.rng, c.rng.Intn(200)))
			h.Reset()
			log = append(log, "W?", "R")
		}
		if h.Size() != 32 || h.BlockSize() != 64 {
			c.check(false, "Size/BlockSize", fmt.Sprint(h.Size(), h.BlockSize()), "32 64")
		}
		nops := 3 + c.rng.Intn(25)
		for op := 0; op < nops; op++ {
			switch k := c.rng.Intn(10); {
			case k < 6: // Write
				var n int
				switch c.rng.Intn(6) {
				case 0:
					n = 0
				case 1:
					n = 1
				case 2:
					n = 64 - len(acc)%64 // fill the block exactly
				case 3:
					n = 64 - len(acc)%64 + 64*c.rng.Intn(3) + c.rng.Intn(3) - 1
					if n < 0 {
						n = 0
					}
				case 4:
					n = c.rng.Intn(70)
				default:
					n = c.rng.Intn(400)
				}
				data := vrBytes(c.rng, n)
				d0 := append([]byte{}, data...)
				log = append(log, fmt.Sprintf("W%d", n))
				if p := vrTry(func() { h.Write(data) }); p != "" {
					c.check(false, fmt.Sprintf(`{"seq":%d,"ops":"%s"}`, seqNo, strings.Join(log, ",")), p, "no panic")
					return
				}
				if !bytes.Equal(data, d0) {
					c.check(false, fmt.Sprintf(`{"seq":%d,"ops":"%s"}`, seqNo, strings.Join(log, ",")), "Write modified its input", "input unchanged")
					return
				}
				acc = append(acc, data...)
			case k < 9: // Sum
				if len(acc)%64 == 55 {
					continue
				}
				prefix := vrBytes(c.rng, c.rng.Intn(40))
				if c.rng.Intn(3) == 0 {
					prefix = nil
				}
				if c.rng.Intn(3) == 0 { // prefix with spare capacity: Sum appends in place
					prefix = append(make([]byte, 0, 100), prefix...)
				}
				want := vrSM3(acc)
				w := append(append([]byte{}, prefix...), want[:]...)
				var got []byte
				log = append(log, fmt.Sprintf("S%d@%d", len(prefix), len(acc)))
				in := fmt.Sprintf(`{"seq":%d,"ops":"%s"}`, seqNo, strings.Join(log, ","))
				if p := vrTry(func() { got = h.Sum(prefix) }); p != "" {
					c.check(false, in, p, vrHex(w))
					return
				}
				if !c.check(bytes.Equal(got, w), in, vrHex(got), vrHex(w)) {
					return
				}
			default: // Reset
				h.Reset()
				acc = acc[:0]
				log = append(log, "R")
			}
		}
		// final Sum twice: the first must not disturb the second
		for len(acc)%64 == 55 {
			h.Write([]byte{0x5a})
			acc = append(acc, 0x5a)
			log = append(log, "W1")
		}
		want := vrSM3(acc)
		for i := 0; i < 2; i++ {
			var got []byte
			log = append(log, fmt.Sprintf("S0@%d", len(acc)))
			in := fmt.Sprintf(`{"seq":%d,"ops":"%s"}`, seqNo, strings.Join(log, ","))
			if p := vrTry(func() { got = h.Sum(nil) }); p != "" {
				c.check(false, in, p, vrHex(want[:]))
				return
			}
			if !c.check(bytes.Equal(got, want[:]), in, vrHex(got), vrHex(want[:])) {
				return
			}
		}
	}
	for i := 0; i < c.n; i++ {
		hist(i)
	}
	// byte-by-byte and fixed-chunk writes over every length 0..300 (skipping = 55 mod 64)
	for _, chunk := range []int{1, 3, 55, 56, 63, 64, 65} {
		msg := vrBytes(c.rng, 300)
		h := New()
		n := 0
		for n <= 300 {
			if n%64 != 55 {
				want := vrSM3(msg[:n])
				got := h.Sum(nil)
				c.check(bytes.Equal(got, want[:]), fmt.Sprintf(`{"chunk":%d,"len":%d,"msg":"%s"}`, chunk, n, vrHex(msg[:n])), vrHex(got), vrHex(want[:]))
			}
			e := n + chunk
			if e > 300 {
				break
			}
			h.Write(msg[n:e])
			n = e
		}
	}
}

func TestVerifReplay(t *testing.T) {
	vrSelfTest(t)
	e := vrNewEnv(t)
	e.run("SumSM3", vrCaseSumSM3)
	e.run("Sum", vrCaseSum)
	e.run("Write", vrCaseWrite)
	e.run("History", vrCaseHistory)
	e.finish()
}
