; same-as-spec nsum nsum_upd nsum_zero
; All-zero lemma of nsum, by induction on a downwards from n, for fixed A, o, n with A[o+j] = 0 for 0 <= j < n:
;   Z(a): nsum(A,o,a,n) = 0 for 0 <= a <= n;  base Z(n), step Z(a+1) => Z(a), conclusion Z(0) => nsum_zero(A,o,n).
; THIS FILE: induction step
(declare-fun p2 (Int) Int)
; nsum as in /verif/spec/ints.smt2 (p2 uninterpreted: the lemmas hold for every weight function)
(define-fun-rec nsum ((A (Array Int Int)) (o Int) (a Int) (b Int)) Int
  (ite (>= a b) 0 (+ (* (select A (+ o a)) (p2 a)) (nsum A o (+ a 1) b))))
(define-fun nsum_upd ((A0 (Array Int Int)) (A1 (Array Int Int)) (o Int) (i Int) (n Int)) Bool
  (=> (and (<= 0 i) (< i n) (= A1 (store A0 (+ o i) (select A1 (+ o i)))))
      (= (nsum A1 o 0 n) (+ (nsum A0 o 0 n) (* (- (select A1 (+ o i)) (select A0 (+ o i))) (p2 i))))))
(define-fun nsum_zero ((A (Array Int Int)) (o Int) (n Int)) Bool
  (=> (forall ((j Int)) (=> (and (<= 0 j) (< j n)) (= (select A (+ o j)) 0)))
      (= (nsum A o 0 n) 0)))
(declare-const A (Array Int Int)) (declare-const o Int) (declare-const n Int) (declare-const a Int)
(assert (forall ((j Int)) (=> (and (<= 0 j) (< j n)) (= (select A (+ o j)) 0))))
(define-fun Z ((x Int)) Bool (= (nsum A o x n) 0))
(assert (and (<= 0 a) (< a n)))
(assert (Z (+ a 1)))
(assert (not (Z a)))
(check-sat)
