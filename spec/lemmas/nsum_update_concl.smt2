; same-as-spec nsum nsum_upd nsum_zero
; Point-update lemma of nsum, by induction on a downwards from n, for fixed A0, o, i, n, v with 0 <= i < n, A1 = store(A0, o+i, v):
;   G(a):  nsum(A1,o,a,n) = nsum(A0,o,a,n) + (a <= i ? (v - A0[o+i]) * p2(i) : 0)        for 0 <= a <= n
; base G(n), step G(a+1) => G(a) for 0 <= a < n, conclusion G(0) => nsum_upd(A0,A1,o,i,n). The induction principle itself is the trusted meta-step.
; THIS FILE: G(0) for every admissible A0, i, v gives the lemma statement nsum_upd as used by the contracts
(declare-fun p2 (Int) Int)
; nsum as in /verif/spec/ints.smt2 (p2 uninterpreted: the lemmas hold for every weight function)
(define-fun-rec nsum ((A (Array Int Int)) (o Int) (a Int) (b Int)) Int
  (ite (>= a b) 0 (+ (* (select A (+ o a)) (p2 a)) (nsum A o (+ a 1) b))))
(define-fun nsum_upd ((A0 (Array Int Int)) (A1 (Array Int Int)) (o Int) (i Int) (n Int)) Bool
  (=> (and (<= 0 i) (< i n) (= A1 (store A0 (+ o i) (select A1 (+ o i)))))
      (= (nsum A1 o 0 n) (+ (nsum A0 o 0 n) (* (- (select A1 (+ o i)) (select A0 (+ o i))) (p2 i))))))
(define-fun nsum_zero ((A (Array Int Int)) (o Int) (n Int)) Bool
  (=> (forall ((j Int)) (=> (and (<= 0 j) (< j n)) (= (select A (+ o j)) 0)))
      (= (nsum A o 0 n) 0)))
(declare-const A0 (Array Int Int)) (declare-const A1 (Array Int Int)) (declare-const o Int) (declare-const i Int) (declare-const n Int)
(define-fun v () Int (select A1 (+ o i)))
(define-fun D () Int (* (- v (select A0 (+ o i))) (p2 i)))
(assert (=> (and (<= 0 i) (< i n) (= A1 (store A0 (+ o i) v))) (= (nsum A1 o 0 n) (+ (nsum A0 o 0 n) (ite (<= 0 i) D 0)))))
(assert (not (nsum_upd A0 A1 o i n)))
(check-sat)
