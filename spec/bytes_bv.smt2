; Spec library (bit-vector mode): byte-string order and equality.
; Arrays are indexed by 64-bit vectors (Go int), a slice is (array, offset).
; lexlt(A,oa,B,ob,i,l): A[i:l] is lexicographically smaller than B[i:l] (definition of
; lexicographic order: first position decides).
; spec lexlt : Bool
(define-fun-rec lexlt ((A (Array (_ BitVec 64) (_ BitVec 8))) (oa (_ BitVec 64)) (B (Array (_ BitVec 64) (_ BitVec 8))) (ob (_ BitVec 64)) (i (_ BitVec 64)) (l (_ BitVec 64))) Bool
  (and (bvslt i l)
       (or (bvult (select A (bvadd oa i)) (select B (bvadd ob i)))
           (and (= (select A (bvadd oa i)) (select B (bvadd ob i)))
                (lexlt A oa B ob (bvadd i #x0000000000000001) l)))))
; spec alleq : Bool
(define-fun-rec alleq ((A (Array (_ BitVec 64) (_ BitVec 8))) (oa (_ BitVec 64)) (B (Array (_ BitVec 64) (_ BitVec 8))) (ob (_ BitVec 64)) (i (_ BitVec 64)) (l (_ BitVec 64))) Bool
  (or (bvsge i l)
      (and (= (select A (bvadd oa i)) (select B (bvadd ob i)))
           (alleq A oa B ob (bvadd i #x0000000000000001) l))))
