#!/bin/bash
# usage: confirm_seed3.sh <property id> <source dir> <package dir of the demo> <n>
# Third-wave layout: <source dir>/{patch.diff,demo_test.go,notes.md}. Confirms independently, in a scratch copy
# outside /repo and /verif: (1) applies and builds, (2) existing suite passes with it, (3) demo fails with it,
# (4) demo passes without it. On success stores it under /verif/seeded/<id>-mut<n>/.
id="$1"; src="$2"; place="$3"; n="$4"
patch=$src/patch.diff; demo=$src/demo_test.go
[ -f "$patch" ] && [ -f "$demo" ] || { echo "missing files for $id"; exit 2; }
export GOFLAGS=-mod=mod GOPROXY=off GOSUMDB=off GOTOOLCHAIN=local
d=$(mktemp -d /tmp/cs.XXXXXX); trap 'rm -rf "$d"' EXIT
rsync -a --exclude .git /repo/ "$d/"
cd "$d"
cp "$demo" "$d/$place/zz_seed_demo_test.go"
go test -vet=off -count=1 "./$place" >/tmp/cs3_clean_$id.log 2>&1; clean_rc=$?
rm "$d/$place/zz_seed_demo_test.go"
patch -p1 -s < "$patch" || { echo "$id: PATCH FAILED"; exit 1; }
go build ./... >/dev/null 2>&1 || { echo "$id: does not build"; exit 1; }
go test -vet=off -count=1 ./... >/tmp/cs3_suite_$id.log 2>&1; suite_rc=$?
cp "$demo" "$d/$place/zz_seed_demo_test.go"
go test -vet=off -count=1 "./$place" >/tmp/cs3_mut_$id.log 2>&1; mut_rc=$?
echo "$id mut$n: demo-on-clean rc=$clean_rc (want 0), suite-with-change rc=$suite_rc (want 0), demo-with-change rc=$mut_rc (want !=0)"
if [ $clean_rc = 0 ] && [ $suite_rc = 0 ] && [ $mut_rc != 0 ]; then
  o=/verif/seeded/$id-mut$n; mkdir -p $o
  cp "$patch" $o/patch.diff; cp "$demo" $o/demo_test.go; cp $src/notes.md $o/notes.md 2>/dev/null
  python3 - "$id" "$n" "$place" "$src" <<'PY'
import json,sys,re
id,n,place,src=sys.argv[1:5]
try: notes=open(src+'/notes.md').read()
except Exception: notes=''
lines=[l.strip() for l in notes.split('\n') if l.strip() and not l.startswith('#')]
json.dump({"property":id,"breaks":id,"wave":int(n)-2,"demo_package":place,"needs_to_manifest":(' '.join(lines[:3]))[:600],
 "confirmed":{"applies_and_builds":True,"existing_suite_passes_with_change":True,"demo_fails_with_change":True,"demo_passes_without_change":True,
 "commands":["cp -r /repo <scratch>; patch -p1 < patch.diff","go test -vet=off -count=1 ./...","go test -vet=off -count=1 ./%s (with demo_test.go placed there as zz_seed_demo_test.go)"%place]},
 "caught_by":[]},open('/verif/seeded/%s-mut%s/meta.json'%(id,n),'w'),indent=1)
PY
  echo "   stored in $o"
fi
