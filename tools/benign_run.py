import subprocess, re, os, sys, tempfile, shutil, concurrent.futures as cf
VERIF = os.environ.get('VERIF_DIR') or os.path.dirname(os.path.dirname(os.path.abspath(__file__)))
REL = {'sm2/internal/fiat': ['C16','C15','C08','C17'], 'sm2/internal': ['C14','C15','C08','C17'], 'sm2/sm2': ['C01','C02','C03','C12','C13','C19','C08','C10','C17'],
       'sm3/': ['C04','C10','C13','C17'], 'sm4/': ['C05','C06','C07','C09','C10','C11','C17'], 'utils/': ['C20','C08','C17','C14']}
def one(p):
    files = re.findall(r'^\+\+\+ b/(\S+)', open(p).read(), re.M)
    ids=[]
    for f in files:
        for pre, l in REL.items():
            if f.startswith(pre):
                for i in l:
                    if i not in ids: ids.append(i)
    tmp = tempfile.mkdtemp(prefix='ben.', dir='/tmp')
    subprocess.run('rsync -a --exclude .git /repo/ %s/' % (tmp,), shell=True, check=True)
    r = subprocess.run(['patch','-p1','-s','-i',p], cwd=tmp, capture_output=True, text=True)
    res=[]
    if r.returncode!=0:
        shutil.rmtree(tmp); return p, ['PATCH FAILED']
    env=dict(os.environ, GOFLAGS='-mod=mod', GOPROXY='off', GOSUMDB='off', GOTOOLCHAIN='local')
    for i in ids:
        out = subprocess.run([VERIF+'/bin/govc','check','-verif',VERIF,'-repo',tmp,'-no-evidence',i], capture_output=True, text=True, env=env, cwd=VERIF).stdout
        v=[l for l in out.split('\n') if l.startswith('VIOLATION')]
        st=[l for l in out.split('\n') if l.startswith('STALE')]
        if v: res.append('%s: %d VIOLATIONS: %s' % (i, len(v), v[0][:230]))
        elif st: res.append('%s: stale(%d)' % (i, len(st)))
    shutil.rmtree(tmp)
    return p, res
ps = sorted(sys.argv[1:])
with cf.ThreadPoolExecutor(max_workers=2) as ex:
    for p, res in ex.map(one, ps):
        print(os.path.basename(p), '->', res if res else 'clean', flush=True)
