#!/bin/bash
# usage: run_seeds.sh <out file> <id>...   runs every stored seeded change of the given properties against that property's check
out="$1"; shift
for id in "$@"; do
  for d in /verif/seeded/$id-mut*; do
    [ -d "$d" ] || continue
    n=$(basename $d)
    res=$(nice -n 10 /verif/tools/try_mutant.sh $d/patch.diff $id 2>&1)
    v=$(echo "$res" | grep -c "^VIOLATION")
    st=$(echo "$res" | grep -c "^STALE")
    echo "$n property=$id violations=$v stale=$st :: $(echo "$res" | grep "^VIOLATION" | head -1 | cut -c1-160)" >> "$out"
  done
done
echo DONE >> "$out"
