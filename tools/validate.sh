#!/bin/sh
# validates MANIFEST.json and every evidence file against the schemas in /root/.vp
cd "$(dirname "$0")/.."
python3-vt - <<'PY'
import json, jsonschema, glob, sys
ok = True
try:
    jsonschema.validate(json.load(open('MANIFEST.json')), json.load(open('/root/.vp/MANIFEST.schema.json'))); print('MANIFEST ok')
except Exception as e:
    ok = False; print('MANIFEST INVALID', str(e)[:300])
es = json.load(open('/root/.vp/EVIDENCE.schema.json'))
for f in sorted(glob.glob('evidence/C*.json')):
    try:
        jsonschema.validate(json.load(open(f)), es)
    except Exception as e:
        ok = False; print(f, 'INVALID', str(e)[:300])
print('evidence files:', len(glob.glob('evidence/C*.json')))
sys.exit(0 if ok else 1)
PY
