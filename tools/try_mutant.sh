#!/bin/bash
# usage: try_mutant.sh <patch.diff> <property id>...   — applies the patch to a scratch copy of /repo
# (outside /repo and /verif), runs the given checks against it, removes the copy.
patch="$1"; shift
d=$(mktemp -d /tmp/mut.XXXXXX)
rsync -a --exclude .git /repo/ "$d/"
( cd "$d" && patch -p1 -s < "$patch" ) || { echo "PATCH-FAILED"; rm -rf "$d"; exit 3; }
rc=0
for id in "$@"; do
  /verif/bin/govc check -repo "$d" -no-evidence "$id" 2>&1 | grep -E "^(VIOLATION|STALE|UNDECIDED|ERROR|property)" | cut -c1-260
  [ "${PIPESTATUS[0]}" != "0" ] && rc=1
done
rm -rf "$d"
exit $rc
