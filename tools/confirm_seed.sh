#!/bin/bash
# usage: confirm_seed.sh <property id> <n> [checks that catch it...]
# Confirms a seeded change independently (scratch copy outside /repo and /verif):
#  (1) applies and builds, (2) existing suite passes with it, (3) demo fails with it, (4) demo passes without it.
# On success stores it under /verif/seeded/<id>-mut<n>/.
id="$1"; n="$2"; shift 2
src=/tmp/seed/$id/out
patch=$src/mut$n.diff; demo=$src/mut${n}_demo_test.go
[ -f "$patch" ] && [ -f "$demo" ] || { echo "missing files for $id mut$n"; exit 2; }
place=$(head -1 "$demo" | sed -n 's|.*place in: *\([^ ]*\).*|\1|p'); place=${place%/}
export GOFLAGS=-mod=mod GOPROXY=off GOSUMDB=off GOTOOLCHAIN=local
d=$(mktemp -d /tmp/cs.XXXXXX); trap 'rm -rf "$d"' EXIT
cp -r /repo/. "$d/"; rm -rf "$d/.git"
cd "$d"
cp "$demo" "$d/$place/zz_seed_demo_test.go"
go test -vet=off -count=1 -run 'Mut|Seed|Demo|Test' "./$place" >/tmp/cs_clean_$id$n.log 2>&1; clean_rc=$?
rm "$d/$place/zz_seed_demo_test.go"
patch -p1 -s < "$patch" || { echo "$id mut$n: PATCH FAILED"; exit 1; }
go build ./... >/dev/null 2>&1 || { echo "$id mut$n: does not build"; exit 1; }
go test -vet=off -count=1 ./... >/tmp/cs_suite_$id$n.log 2>&1; suite_rc=$?
cp "$demo" "$d/$place/zz_seed_demo_test.go"
go test -vet=off -count=1 "./$place" >/tmp/cs_mut_$id$n.log 2>&1; mut_rc=$?
echo "$id mut$n: demo-on-clean rc=$clean_rc (want 0), suite-with-change rc=$suite_rc (want 0), demo-with-change rc=$mut_rc (want !=0)"
if [ $clean_rc = 0 ] && [ $suite_rc = 0 ] && [ $mut_rc != 0 ]; then
  o=/verif/seeded/$id-mut$n; mkdir -p $o
  cp "$patch" $o/patch.diff; cp "$demo" $o/demo_test.go; cp $src/mut$n.md $o/notes.md 2>/dev/null
  python3 - "$id" "$n" "$place" "$@" <<'PY'
import json,sys
id,n,place=sys.argv[1:4]; caught=sys.argv[4:]
notes=open('/tmp/seed/%s/out/mut%s.md'%(id,n)).read() if True else ''
json.dump({"property":id,"breaks":id,"demo_package":place,"needs_to_manifest":notes.strip().split('\n')[0][:300] if notes else "",
 "confirmed":{"applies_and_builds":True,"existing_suite_passes_with_change":True,"demo_fails_with_change":True,"demo_passes_without_change":True,
 "commands":["cp -r /repo <scratch>; patch -p1 < patch.diff","go test -vet=off -count=1 ./...","go test -vet=off -count=1 ./%s (with demo_test.go placed there)"%place]},
 "caught_by":caught},open('/verif/seeded/%s-mut%s/meta.json'%(id,n),'w'),indent=1)
PY
  echo "   stored in $o"
fi
